//! C20 spec -> code replay for the chain-history tree (zcash_history).
//!
//! Input (ndjson, written by checks/c20.py from TLC's output of spec/HistoryMMR/HistoryMMR.tla):
//!   {"T":"table", version, fields:[{f,ty,rule,sem}], personal, compact:[{max,tag,width}]}
//!   {"T":"init",  n0, sid, entries:[{k,l,r,t}], len, peaks, root}
//!   {"T":"edge",  n0, sid, idx, pre:[step..], step:{op,reload,peaks,extra,leaf,pos,new,count,len,n,root,peaksAfter}}
//!   {"T":"sched"}            edges with the same (n0, sid) are the steps of ONE behaviour, ordered by idx
//!   {"T":"ser", "count":N}   N pure serialisation records per version + CompactSize values
//!
//! Every behaviour is executed on real `Tree<V1>`, `Tree<V2>`, `Tree<V3>` objects that are built
//! from exactly the entries the model says an operation needs.  The expected node data is the
//! evaluation of the model's *term* by the interpreter below, which knows nothing but the emitted
//! layout/rule table: it never calls `Version::combine`, `NodeData::write` or anything else of the
//! crate under test.
//!
//! stdout: one JSON summary object (last line). exit 0 unless the harness itself is broken.
use std::collections::{BTreeMap, HashMap, HashSet};

use h_core::util::{guarded, read_ndjson, seed_from_env};
use rand::{Rng, RngCore, SeedableRng};
use rand_chacha::ChaCha8Rng;
use serde_json::{Value, json};
use zcash_history::{Entry, EntryLink, NodeData, NodeDataV2, NodeDataV3, Tree, V1, V2, V3, Version};

// ------------------------------------------------------------------------------------------------
// The independent interpreter of the specification's tables

#[derive(Clone, Debug, PartialEq, Eq)]
enum Val {
    B32([u8; 32]),
    U32(u32),
    U256([u8; 32]), // little endian
    Cs(u64),
}

impl Val {
    fn show(&self) -> String {
        match self {
            Val::B32(b) => hex::encode(b),
            Val::U32(v) => v.to_string(),
            Val::U256(b) => format!("le:{}", hex::encode(b)),
            Val::Cs(v) => v.to_string(),
        }
    }
}

#[derive(Clone, Copy, PartialEq, Eq, Debug)]
enum Ty {
    B32,
    U32,
    U256,
    Cs,
}
#[derive(Clone, Copy, PartialEq, Eq, Debug)]
enum Rule {
    Hash,
    Left,
    Right,
    Sum,
}
struct Field {
    name: String,
    ty: Ty,
    rule: Rule,
}
struct CsClass {
    max: u64,
    tag: u8,
    width: usize,
}
struct Table {
    version: u8,
    fields: Vec<Field>,
    personal: Vec<u8>,
    compact: Vec<CsClass>,
}
type Node = Vec<Val>; // in table order

fn parse_table(v: &Value) -> Table {
    let fields = v["fields"]
        .as_array()
        .expect("fields")
        .iter()
        .map(|f| Field {
            name: f["f"].as_str().unwrap().to_string(),
            ty: match f["ty"].as_str().unwrap() {
                "b32" => Ty::B32,
                "u32" => Ty::U32,
                "u256" => Ty::U256,
                "cs" => Ty::Cs,
                o => panic!("unknown type {o}"),
            },
            rule: match f["rule"].as_str().unwrap() {
                "hash" => Rule::Hash,
                "left" => Rule::Left,
                "right" => Rule::Right,
                "sum" => Rule::Sum,
                o => panic!("unknown rule {o}"),
            },
        })
        .collect();
    let compact = v["compact"]
        .as_array()
        .expect("compact")
        .iter()
        .map(|c| CsClass {
            max: c["max"].as_str().unwrap().parse::<u64>().expect("class max"),
            tag: c["tag"].as_u64().unwrap() as u8,
            width: c["width"].as_u64().unwrap() as usize,
        })
        .collect();
    Table {
        version: v["version"].as_u64().unwrap() as u8,
        fields,
        personal: v["personal"].as_str().unwrap().as_bytes().to_vec(),
        compact,
    }
}

fn cs_enc(t: &Table, v: u64, out: &mut Vec<u8>) {
    for c in &t.compact {
        if v <= c.max {
            if c.tag != 0 {
                out.push(c.tag);
            }
            out.extend_from_slice(&v.to_le_bytes()[..c.width]);
            return;
        }
    }
    panic!("value above the last CompactSize class");
}

fn ser(t: &Table, n: &Node) -> Vec<u8> {
    let mut out = Vec::with_capacity(320);
    for (f, v) in t.fields.iter().zip(n) {
        match (f.ty, v) {
            (Ty::B32, Val::B32(b)) => out.extend_from_slice(b),
            (Ty::U32, Val::U32(x)) => out.extend_from_slice(&x.to_le_bytes()),
            (Ty::U256, Val::U256(b)) => out.extend_from_slice(b),
            (Ty::Cs, Val::Cs(x)) => cs_enc(t, *x, &mut out),
            _ => panic!("value of field {} does not have its table type", f.name),
        }
    }
    out
}

fn add_le256(a: &[u8; 32], b: &[u8; 32]) -> [u8; 32] {
    let mut r = [0u8; 32];
    let mut carry = 0u16;
    for i in 0..32 {
        let s = a[i] as u16 + b[i] as u16 + carry;
        r[i] = s as u8;
        carry = s >> 8;
    }
    // generated trees keep every total in range (see DESIGN C20); leaving it is a harness bug
    assert!(carry == 0, "HARNESS: 256-bit total out of range");
    r
}

fn combine(t: &Table, branch: u32, l: &Node, r: &Node) -> Node {
    let mut personal = t.personal.clone();
    personal.extend_from_slice(&branch.to_le_bytes());
    let mut input = ser(t, l);
    input.extend_from_slice(&ser(t, r));
    let h = blake2b_simd::Params::new().hash_length(32).personal(&personal).hash(&input);
    let mut hb = [0u8; 32];
    hb.copy_from_slice(h.as_bytes());
    t.fields
        .iter()
        .enumerate()
        .map(|(i, f)| match f.rule {
            Rule::Hash => Val::B32(hb),
            Rule::Left => l[i].clone(),
            Rule::Right => r[i].clone(),
            Rule::Sum => match (&l[i], &r[i]) {
                (Val::Cs(a), Val::Cs(b)) => Val::Cs(a.checked_add(*b).expect("HARNESS: 64-bit total out of range")),
                (Val::U256(a), Val::U256(b)) => Val::U256(add_le256(a, b)),
                (Val::U32(a), Val::U32(b)) => Val::U32(a.checked_add(*b).expect("HARNESS: 32-bit total out of range")),
                _ => panic!("sum rule on a non-numeric field {}", f.name),
            },
        })
        .collect()
}

/// Evaluates a term of the free algebra: `[id]` is a leaf, `[l, r]` a combination.
fn eval(t: &Table, branch: u32, term: &Value, leaf: &dyn Fn(u64) -> Node) -> Node {
    let a = term.as_array().expect("term");
    match a.len() {
        1 => leaf(a[0].as_u64().expect("leaf id")),
        2 => combine(t, branch, &eval(t, branch, &a[0], leaf), &eval(t, branch, &a[1], leaf)),
        _ => panic!("bad term"),
    }
}

fn node_hash(t: &Table, branch: u32, n: &Node) -> [u8; 32] {
    let mut personal = t.personal.clone();
    personal.extend_from_slice(&branch.to_le_bytes());
    let h = blake2b_simd::Params::new().hash_length(32).personal(&personal).hash(&ser(t, n));
    let mut hb = [0u8; 32];
    hb.copy_from_slice(h.as_bytes());
    hb
}

// ------------------------------------------------------------------------------------------------
// Adapters: plain field access to the crate's public structs, by the table's field names

trait Adapter {
    type V: Version;
    const VER: u8;
    fn make(branch: u32, f: &BTreeMap<&str, &Val>) -> <Self::V as Version>::NodeData;
    fn get(d: &<Self::V as Version>::NodeData, name: &str) -> Option<Val>;
}

fn b32(f: &BTreeMap<&str, &Val>, k: &str) -> [u8; 32] {
    match f.get(k) {
        Some(Val::B32(b)) => *b,
        _ => panic!("field {k} missing"),
    }
}
fn u32f(f: &BTreeMap<&str, &Val>, k: &str) -> u32 {
    match f.get(k) {
        Some(Val::U32(b)) => *b,
        _ => panic!("field {k} missing"),
    }
}
fn csf(f: &BTreeMap<&str, &Val>, k: &str) -> u64 {
    match f.get(k) {
        Some(Val::Cs(b)) => *b,
        _ => panic!("field {k} missing"),
    }
}
fn u256f(f: &BTreeMap<&str, &Val>, k: &str) -> primitive_types::U256 {
    match f.get(k) {
        Some(Val::U256(b)) => primitive_types::U256::from_little_endian(b),
        _ => panic!("field {k} missing"),
    }
}

fn make_v1(branch: u32, f: &BTreeMap<&str, &Val>) -> NodeData {
    NodeData {
        consensus_branch_id: branch,
        subtree_commitment: b32(f, "subtree_commitment"),
        start_time: u32f(f, "start_time"),
        end_time: u32f(f, "end_time"),
        start_target: u32f(f, "start_target"),
        end_target: u32f(f, "end_target"),
        start_sapling_root: b32(f, "start_sapling_root"),
        end_sapling_root: b32(f, "end_sapling_root"),
        subtree_total_work: u256f(f, "subtree_total_work"),
        start_height: csf(f, "start_height"),
        end_height: csf(f, "end_height"),
        sapling_tx: csf(f, "sapling_tx"),
    }
}
fn get_v1(d: &NodeData, name: &str) -> Option<Val> {
    Some(match name {
        "subtree_commitment" => Val::B32(d.subtree_commitment),
        "start_time" => Val::U32(d.start_time),
        "end_time" => Val::U32(d.end_time),
        "start_target" => Val::U32(d.start_target),
        "end_target" => Val::U32(d.end_target),
        "start_sapling_root" => Val::B32(d.start_sapling_root),
        "end_sapling_root" => Val::B32(d.end_sapling_root),
        "subtree_total_work" => {
            let mut b = [0u8; 32];
            d.subtree_total_work.to_little_endian(&mut b);
            Val::U256(b)
        }
        "start_height" => Val::Cs(d.start_height),
        "end_height" => Val::Cs(d.end_height),
        "sapling_tx" => Val::Cs(d.sapling_tx),
        _ => return None,
    })
}
fn make_v2(branch: u32, f: &BTreeMap<&str, &Val>) -> NodeDataV2 {
    NodeDataV2 {
        v1: make_v1(branch, f),
        start_orchard_root: b32(f, "start_orchard_root"),
        end_orchard_root: b32(f, "end_orchard_root"),
        orchard_tx: csf(f, "orchard_tx"),
    }
}
fn get_v2(d: &NodeDataV2, name: &str) -> Option<Val> {
    Some(match name {
        "start_orchard_root" => Val::B32(d.start_orchard_root),
        "end_orchard_root" => Val::B32(d.end_orchard_root),
        "orchard_tx" => Val::Cs(d.orchard_tx),
        _ => return get_v1(&d.v1, name),
    })
}

struct A1;
struct A2;
struct A3;
impl Adapter for A1 {
    type V = V1;
    const VER: u8 = 1;
    fn make(branch: u32, f: &BTreeMap<&str, &Val>) -> NodeData {
        make_v1(branch, f)
    }
    fn get(d: &NodeData, name: &str) -> Option<Val> {
        get_v1(d, name)
    }
}
impl Adapter for A2 {
    type V = V2;
    const VER: u8 = 2;
    fn make(branch: u32, f: &BTreeMap<&str, &Val>) -> NodeDataV2 {
        make_v2(branch, f)
    }
    fn get(d: &NodeDataV2, name: &str) -> Option<Val> {
        get_v2(d, name)
    }
}
impl Adapter for A3 {
    type V = V3;
    const VER: u8 = 3;
    fn make(branch: u32, f: &BTreeMap<&str, &Val>) -> NodeDataV3 {
        NodeDataV3 {
            v2: make_v2(branch, f),
            start_ironwood_root: b32(f, "start_ironwood_root"),
            end_ironwood_root: b32(f, "end_ironwood_root"),
            ironwood_tx: csf(f, "ironwood_tx"),
        }
    }
    fn get(d: &NodeDataV3, name: &str) -> Option<Val> {
        Some(match name {
            "start_ironwood_root" => Val::B32(d.start_ironwood_root),
            "end_ironwood_root" => Val::B32(d.end_ironwood_root),
            "ironwood_tx" => Val::Cs(d.ironwood_tx),
            _ => return get_v2(&d.v2, name),
        })
    }
}

type ND<A> = <<A as Adapter>::V as Version>::NodeData;

fn to_real<A: Adapter>(t: &Table, branch: u32, n: &Node) -> ND<A> {
    let m: BTreeMap<&str, &Val> = t.fields.iter().map(|f| f.name.as_str()).zip(n.iter()).collect();
    A::make(branch, &m)
}

/// Field-by-field comparison of real node data with the oracle's node; None = equal.
fn diff<A: Adapter>(t: &Table, branch: u32, real: &ND<A>, want: &Node) -> Option<String> {
    if <A::V as Version>::consensus_branch_id(real) != branch {
        return Some(format!("consensus_branch_id {:#x} != {:#x}", <A::V as Version>::consensus_branch_id(real), branch));
    }
    for (f, w) in t.fields.iter().zip(want) {
        match A::get(real, &f.name) {
            None => panic!("HARNESS: table field {} unknown to the V{} adapter", f.name, A::VER),
            Some(g) => {
                if &g != w {
                    return Some(format!("field {}: code {} != expected {}", f.name, g.show(), w.show()));
                }
            }
        }
    }
    None
}

// ------------------------------------------------------------------------------------------------
// Generated leaf data (seeded).  Heights are consecutive by position; totals stay in range:
// ordinary counters < 2^40, ordinary work < 2^200, and a single leaf id per behaviour is extreme.

const H0S: [u64; 8] = [0, 1, 250, 65_530, 0x0200_0000 - 3, (1u64 << 32) - 6, u64::MAX - 5_000, 0x9_1234_5678];
const BRANCHES: [u32; 8] = [0xf5b9230b, 0xe9ff75a6, 0xc2d6d0b4, 0xc8e71055, 0, 0xffff_ffff, 1, 0x4dec4df0];
const CS_EDGE: [u64; 14] = [
    0, 1, 252, 253, 254, 0xffff, 0x1_0000, 0x0200_0000, 0x0200_0001, 0xffff_ffff, 0x1_0000_0000, 0x1_0000_0001,
    0xff_ffff_fffe, 0xff_ffff_ffff,
];

struct Profile {
    seed: u64,
    p: u64,
    h0: u64,
    branch: u32,
    extreme: u64, // leaf id carrying extreme work / counters (0: none)
}

fn profile(seed: u64, n0: u64, sid: u64) -> Profile {
    let p = n0.wrapping_mul(3).wrapping_add(sid.wrapping_mul(5)).wrapping_add(seed);
    let ext = [1, 2, 3, 5, 8, n0, n0 + 1, 0];
    Profile {
        seed,
        p,
        h0: H0S[(p % 8) as usize],
        branch: BRANCHES[((p / 8 + p) % 8) as usize],
        extreme: ext[((p / 3) % 8) as usize],
    }
}

fn gen_leaf(t: &Table, pr: &Profile, id: u64, pos: u64) -> Node {
    let mut rng = ChaCha8Rng::seed_from_u64(
        pr.seed.wrapping_mul(0x9e37_79b9_7f4a_7c15) ^ pr.p.wrapping_mul(0xc2b2_ae3d_27d4_eb4f) ^ id.wrapping_mul(0x1656_67b1_9e37_79f9),
    );
    let extreme = id == pr.extreme;
    t.fields
        .iter()
        .map(|f| match f.ty {
            Ty::B32 => {
                let mut b = [0u8; 32];
                match rng.gen_range(0..12) {
                    0 => {}
                    1 => b = [0xff; 32],
                    _ => rng.fill_bytes(&mut b),
                }
                Val::B32(b)
            }
            Ty::U32 => Val::U32(match rng.gen_range(0..10) {
                0 => 0,
                1 => u32::MAX,
                _ => rng.r#gen(),
            }),
            Ty::U256 => {
                let mut b = [0u8; 32];
                rng.fill_bytes(&mut b[..25]); // < 2^200
                if rng.gen_range(0..8) == 0 {
                    b = [0u8; 32];
                }
                if extreme {
                    b[31] = 0x80; // 2^255 + ...
                }
                Val::U256(b)
            }
            Ty::Cs => {
                if f.name == "start_height" || f.name == "end_height" {
                    Val::Cs(pr.h0 + pos)
                } else if extreme {
                    Val::Cs(match f.name.as_str() {
                        "sapling_tx" => (1u64 << 63) + rng.gen_range(0..(1u64 << 40)),
                        "orchard_tx" => u64::MAX - (1u64 << 52),
                        _ => (1u64 << 32) + rng.gen_range(0..3),
                    })
                } else {
                    Val::Cs(match rng.gen_range(0..3) {
                        0 => CS_EDGE[rng.gen_range(0..CS_EDGE.len())],
                        1 => rng.gen_range(0..(1u64 << 40)),
                        _ => rng.gen_range(0..70_000),
                    })
                }
            }
        })
        .collect()
}

// ------------------------------------------------------------------------------------------------
// Replay

#[derive(Clone)]
struct OEntry {
    leaf: bool,
    l: u32,
    r: u32,
    node: Node,
}

#[derive(Default)]
struct Stats {
    behaviours: u64,
    steps: u64,
    appends: u64,
    truncates: u64,
    reloads: u64,
    top_height_behaviours: u64,
    kept_views: u64,
    probes: u64,
    full_views: u64,
    roundtrips: u64,
    root_compares: u64,
    node_compares: u64,
    ser_records: u64,
    cs_values: u64,
    max_leaves: u64,
    crate_errors: u64,
    distinct_roots: HashSet<[u8; 32]>,
    shapes: HashSet<(u64, u64, bool)>,
}

fn stored(l: EntryLink) -> Option<u32> {
    match l {
        EntryLink::Stored(i) => Some(i),
        EntryLink::Generated(_) => None,
    }
}

fn real_entry<A: Adapter>(t: &Table, branch: u32, e: &OEntry, via_bytes: bool) -> Result<Entry<A::V>, String> {
    let data = to_real::<A>(t, branch, &e.node);
    let ent = if e.leaf { Entry::new_leaf(data) } else { Entry::new(data, EntryLink::Stored(e.l), EntryLink::Stored(e.r)) };
    if !via_bytes {
        return Ok(ent);
    }
    // as a node does: persist the record, load it again
    let mut buf = Vec::new();
    ent.write(&mut buf).map_err(|e| format!("Entry::write failed: {e}"))?;
    Entry::<A::V>::from_bytes(branch, &buf).map_err(|e| format!("Entry::from_bytes rejects what Entry::write wrote: {e}"))
}

/// write -> read of a real entry must give the same record (kind, links, every field)
fn roundtrip<A: Adapter>(t: &Table, branch: u32, ent: &Entry<A::V>, want: &OEntry) -> Option<String> {
    let mut buf = Vec::new();
    if let Err(e) = ent.write(&mut buf) {
        return Some(format!("Entry::write failed: {e}"));
    }
    let back = match Entry::<A::V>::from_bytes(branch, &buf) {
        Ok(b) => b,
        Err(e) => return Some(format!("Entry::from_bytes rejects what Entry::write wrote: {e}")),
    };
    if back.leaf() != want.leaf {
        return Some("entry kind changed in write/read".into());
    }
    if !want.leaf {
        let l = back.left().ok().and_then(stored);
        let r = back.right().ok().and_then(stored);
        if l != Some(want.l) || r != Some(want.r) {
            return Some(format!("entry links changed in write/read: {:?},{:?} != {},{}", l, r, want.l, want.r));
        }
    }
    if let Some(d) = diff::<A>(t, branch, back.data(), &want.node) {
        return Some(format!("entry data changed in write/read: {d}"));
    }
    // node data alone: ZIP 221 layout (it is the hash input), and its inverse
    let bytes = <A::V as Version>::to_bytes(ent.data());
    if bytes != ser(t, &want.node) {
        return Some(format!("node data bytes differ from the ZIP 221 layout: code {} expected {}", hex::encode(&bytes), hex::encode(ser(t, &want.node))));
    }
    match <A::V as Version>::from_bytes(branch, &bytes) {
        Ok(d) => diff::<A>(t, branch, &d, &want.node).map(|d| format!("node data changed in to_bytes/from_bytes: {d}")),
        Err(e) => Some(format!("from_bytes rejects to_bytes output: {e}")),
    }
}

struct Mismatch {
    step: usize,
    what: String,
}

fn check_root<A: Adapter>(t: &Table, branch: u32, tree: &Tree<A::V>, want: &Node, st: &mut Stats) -> Option<String> {
    st.root_compares += 1;
    match guarded(|| tree.root_node().map(|n| (diff::<A>(t, branch, n.data(), want), <A::V as Version>::to_bytes(n.data()), <A::V as Version>::hash(n.data())))) {
        Err(p) => Some(format!("panic in root_node: {p}")),
        Ok(Err(e)) => Some(format!("root_node failed: {e}")),
        Ok(Ok((Some(d), _, _))) => Some(format!("root differs from the from-scratch rebuild: {d}")),
        Ok(Ok((None, bytes, h))) => {
            if bytes != ser(t, want) {
                Some("root node bytes differ from the ZIP 221 layout".to_string())
            } else if h != node_hash(t, branch, want) {
                Some("hash of the root node differs".to_string())
            } else {
                st.distinct_roots.insert(h);
                None
            }
        }
    }
}

fn view_entries<A: Adapter>(t: &Table, branch: u32, store: &[OEntry], idx: &Value, via_bytes: bool) -> Result<Vec<(u32, Entry<A::V>)>, String> {
    idx.as_array()
        .expect("index list")
        .iter()
        .map(|i| {
            let i = i.as_u64().unwrap() as usize;
            let e = store.get(i).unwrap_or_else(|| panic!("HARNESS: model names index {i} beyond the store"));
            real_entry::<A>(t, branch, e, via_bytes).map(|e| (i as u32, e))
        })
        .collect()
}

/// Runs one behaviour on Tree<A::V>. Returns the first disagreement.
fn run_behaviour<A: Adapter>(t: &Table, seed: u64, init: &Value, steps: &[&Value], st: &mut Stats) -> Option<Mismatch> {
    let n0 = init["n0"].as_u64().unwrap();
    let sid = init["sid"].as_u64().unwrap();
    let mut pr = profile(seed, n0, sid);
    // the top of the height range: in every other behaviour of the "near u64::MAX" profile the highest leaf the
    // behaviour ever holds sits at height exactly u64::MAX (start_height = end_height = u64::MAX)
    if pr.h0 == u64::MAX - 5_000 && (pr.p / 8) % 2 == 0 {
        let (mut cur, mut maxn) = (n0, n0.max(1));
        for step in steps {
            if step["op"].as_str().unwrap() == "A" { cur += 1; } else { cur = cur.saturating_sub(1); }
            maxn = maxn.max(cur);
        }
        // (an upper bound of the positions ever used: initial leaves + appends; exact when no truncation precedes the
        // last append)
        let appends = steps.iter().filter(|s| s["op"].as_str().unwrap() == "A").count() as u64;
        // (+ 1: the probe leaf of the append-then-truncate clause sits one position above the current leaves)
        let bound = n0 + appends + 1;
        pr.h0 = u64::MAX - (bound - 1);
        if maxn + 1 == bound {
            st.top_height_behaviours += 1;
        }
    }
    let branch = pr.branch;
    let mut pos_of: HashMap<u64, u64> = (1..=n0).map(|i| (i, i - 1)).collect();
    let mut store: Vec<OEntry> = {
        let leaf = |id: u64| gen_leaf(t, &pr, id, pos_of[&id]);
        init["entries"]
            .as_array()
            .unwrap()
            .iter()
            .map(|e| OEntry {
                leaf: e["k"].as_u64().unwrap() == 0,
                l: e["l"].as_u64().unwrap() as u32,
                r: e["r"].as_u64().unwrap() as u32,
                node: eval(t, branch, &e["t"], &leaf),
            })
            .collect()
    };
    let mut root: Node = {
        let leaf = |id: u64| gen_leaf(t, &pr, id, pos_of[&id]);
        eval(t, branch, &init["root"], &leaf)
    };
    let mut len = init["len"].as_u64().unwrap() as u32;
    assert_eq!(len as usize, store.len(), "HARNESS: init length");
    let mut tree: Option<Tree<A::V>> = None;
    st.behaviours += 1;

    for (si, step) in steps.iter().enumerate() {
        let fail = |what: String| Some(Mismatch { step: si, what });
        st.steps += 1;
        let reload = step["reload"].as_bool().unwrap();
        let is_append = step["op"].as_str().unwrap() == "A";
        if reload {
            st.reloads += 1;
            let via_bytes = si % 2 == 1;
            let peaks = match view_entries::<A>(t, branch, &store, &step["peaks"], via_bytes) {
                Ok(p) => p,
                Err(e) => return fail(e),
            };
            let extra = match view_entries::<A>(t, branch, &store, &step["extra"], via_bytes) {
                Ok(p) => p,
                Err(e) => return fail(e),
            };
            match guarded(|| Tree::<A::V>::new(len, peaks, extra)) {
                Err(p) => return fail(format!("panic in Tree::new on the minimal view: {p}")),
                Ok(tr) => {
                    if tr.len() != len {
                        return fail(format!("Tree::new: len {} != {}", tr.len(), len));
                    }
                    // the partial view has the root of the whole tree
                    if let Some(d) = check_root::<A>(t, branch, &tr, &root, st) {
                        return fail(format!("after Tree::new on the minimal view: {d}"));
                    }
                    tree = Some(tr);
                }
            }
        } else {
            st.kept_views += 1;
        }
        // the same operation on the fully loaded tree (every entry in memory), for moderate sizes
        let last = si + 1 == steps.len();
        let mut full: Option<Tree<A::V>> = None;
        if (last || si % 16 == 5) && store.len() <= 600 {
            let pk: HashSet<u64> = step["peaks"].as_array().unwrap().iter().map(|x| x.as_u64().unwrap()).collect();
            let rest = Value::Array((0..store.len() as u64).filter(|i| !pk.contains(i)).map(Value::from).collect());
            let peaks = view_entries::<A>(t, branch, &store, &step["peaks"], false).expect("no bytes involved");
            let extra = view_entries::<A>(t, branch, &store, &rest, false).expect("no bytes involved");
            match guarded(|| Tree::<A::V>::new(len, peaks, extra)) {
                Err(p) => return fail(format!("panic in Tree::new on the fully loaded array: {p}")),
                Ok(f) => full = Some(f),
            }
        }
        let tr = tree.as_mut().expect("HARNESS: model keeps a view that was never loaded");
        let want_len = step["len"].as_u64().unwrap() as u32;
        if is_append {
            st.appends += 1;
            let id = step["leaf"].as_u64().unwrap();
            let pos = step["pos"].as_u64().unwrap();
            pos_of.insert(id, pos);
            let leaf = |id: u64| gen_leaf(t, &pr, id, pos_of[&id]);
            let leaf_node = leaf(id);
            let real = to_real::<A>(t, branch, &leaf_node);
            let links = match guarded(|| tr.append_leaf(real)) {
                Err(p) => return fail(format!("panic in append_leaf: {p}")),
                Ok(Err(e)) => {
                    st.crate_errors += 1;
                    return fail(format!("append_leaf on the view holding what the operation needs failed: {e}"));
                }
                Ok(Ok(l)) => l,
            };
            let new = step["new"].as_array().unwrap();
            let got: Vec<Option<u32>> = links.iter().map(|l| stored(*l)).collect();
            let want: Vec<Option<u32>> = (0..new.len() as u32).map(|i| Some(len + i)).collect();
            if got != want {
                return fail(format!("append_leaf returned links {:?}, expected stored {:?}", links, want));
            }
            for (i, ne) in new.iter().enumerate() {
                let oe = OEntry {
                    leaf: ne["k"].as_u64().unwrap() == 0,
                    l: ne["l"].as_u64().unwrap() as u32,
                    r: ne["r"].as_u64().unwrap() as u32,
                    node: eval(t, branch, &ne["t"], &leaf),
                };
                st.node_compares += 1;
                let res = guarded(|| {
                    let n = match tr.resolve_link(links[i]) {
                        Ok(n) => n,
                        Err(e) => return Some(format!("appended link does not resolve: {e}")),
                    };
                    let ent = n.node();
                    if ent.leaf() != oe.leaf {
                        return Some(format!("appended entry {}: leaf/node kind differs", len as usize + i));
                    }
                    if !oe.leaf {
                        let l = ent.left().ok().and_then(stored);
                        let r = ent.right().ok().and_then(stored);
                        if l != Some(oe.l) || r != Some(oe.r) {
                            return Some(format!("appended entry {}: children {:?},{:?} expected stored {},{}", len as usize + i, ent.left(), ent.right(), oe.l, oe.r));
                        }
                    }
                    if let Some(d) = diff::<A>(t, branch, ent.data(), &oe.node) {
                        return Some(format!("appended entry {}: {d}", len as usize + i));
                    }
                    roundtrip::<A>(t, branch, ent, &oe)
                });
                st.roundtrips += 1;
                match res {
                    Err(p) => return fail(format!("panic while reading an appended entry: {p}")),
                    Ok(Some(d)) => return fail(d),
                    Ok(None) => {}
                }
                store.push(oe);
            }
            root = eval(t, branch, &step["root"], &leaf);
        } else {
            st.truncates += 1;
            let count = match guarded(|| tr.truncate_leaf()) {
                Err(p) => return fail(format!("panic in truncate_leaf: {p}")),
                Ok(Err(e)) => {
                    st.crate_errors += 1;
                    return fail(format!("truncate_leaf on the view holding what the operation needs failed: {e}"));
                }
                Ok(Ok(c)) => c,
            };
            let want = step["count"].as_u64().unwrap() as u32;
            if count != want {
                return fail(format!("truncate_leaf returned {count}, the last leaf and the parents it completed are {want} entries"));
            }
            store.truncate(want_len as usize);
            let leaf = |id: u64| gen_leaf(t, &pr, id, pos_of[&id]);
            root = eval(t, branch, &step["root"], &leaf);
        }
        len = want_len;
        if tr.len() != len {
            return fail(format!("array length {} after the operation, expected {}", tr.len(), len));
        }
        if let Some(d) = check_root::<A>(t, branch, tr, &root, st) {
            return fail(format!("after {}: {d}", if is_append { "append_leaf" } else { "truncate_leaf" }));
        }
        let n = step["n"].as_u64().unwrap();
        if let Some(mut f) = full {
            st.full_views += 1;
            let leaf_data = if is_append {
                Some(to_real::<A>(t, branch, &gen_leaf(t, &pr, step["leaf"].as_u64().unwrap(), step["pos"].as_u64().unwrap())))
            } else {
                None
            };
            let want_ret = if is_append { step["new"].as_array().unwrap().len() as u32 } else { step["count"].as_u64().unwrap() as u32 };
            let want_root = &root;
            let res = guarded(|| {
                let ret = match leaf_data {
                    Some(d) => f.append_leaf(d).map(|l| l.len() as u32),
                    None => f.truncate_leaf(),
                };
                match ret {
                    Err(e) => return Some(format!("operation failed: {e}")),
                    Ok(c) if c != want_ret => return Some(format!("returned {c} entries, the minimal view and the model say {want_ret}")),
                    Ok(_) => {}
                }
                if f.len() != len {
                    return Some(format!("length {} != {}", f.len(), len));
                }
                match f.root_node() {
                    Err(e) => Some(format!("root: {e}")),
                    Ok(r) => diff::<A>(t, branch, r.data(), want_root),
                }
            });
            match res {
                Err(p) => return fail(format!("fully loaded tree: panic: {p}")),
                Ok(Some(d)) => return fail(format!("fully loaded tree differs from the minimal view and the rebuild: {d}")),
                Ok(None) => {}
            }
        }
        st.max_leaves = st.max_leaves.max(n);
        st.shapes.insert((n, A::VER as u64, is_append));

        // append-then-truncate on a fresh view of the reached tree restores root and length
        if last || si % 3 == 0 {
            st.probes += 1;
            let peaks = match view_entries::<A>(t, branch, &store, &step["peaksAfter"], false) {
                Ok(p) => p,
                Err(e) => return fail(e),
            };
            let probe_leaf = to_real::<A>(t, branch, &gen_leaf(t, &pr, 1_000_000 + si as u64, n));
            let want_root = &root;
            let res = guarded(|| {
                let mut p = Tree::<A::V>::new(len, peaks, vec![]);
                let links = match p.append_leaf(probe_leaf) {
                    Ok(l) => l,
                    Err(e) => return Some(format!("probe append failed: {e}")),
                };
                let c = match p.truncate_leaf() {
                    Ok(c) => c,
                    Err(e) => return Some(format!("truncate after append on the same view failed: {e}")),
                };
                if c as usize != links.len() {
                    return Some(format!("append added {} entries, truncate removed {}", links.len(), c));
                }
                if p.len() != len {
                    return Some(format!("append then truncate: length {} != {}", p.len(), len));
                }
                match p.root_node() {
                    Err(e) => Some(format!("root after append+truncate: {e}")),
                    Ok(r) => diff::<A>(t, branch, r.data(), want_root).map(|d| format!("append then truncate does not restore the root: {d}")),
                }
            });
            match res {
                Err(p) => return fail(format!("panic in append-then-truncate: {p}")),
                Ok(Some(d)) => return fail(d),
                Ok(None) => {}
            }
        }
    }
    None
}

// ------------------------------------------------------------------------------------------------
// Pure serialisation records: every field at its extremes, counters in every CompactSize class,
// in particular above the bounded limit 0x02000000.

fn ser_records<A: Adapter>(t: &Table, seed: u64, count: u64, st: &mut Stats, out: &mut Vec<Value>) {
    let mut rng = ChaCha8Rng::seed_from_u64(seed ^ 0x5e5e_0000 ^ A::VER as u64);
    let cs_pick = |rng: &mut ChaCha8Rng| -> u64 {
        match rng.gen_range(0..6) {
            0 | 1 => {
                let e = [
                    0u64, 1, 252, 253, 254, 255, 0xfffe, 0xffff, 0x1_0000, 0x1_0001, 0x01ff_ffff, 0x0200_0000, 0x0200_0001, 0x7fff_ffff,
                    0xffff_fffe, 0xffff_ffff, 0x1_0000_0000, 0x1_0000_0001, 1 << 63, u64::MAX - 1, u64::MAX,
                ];
                e[rng.gen_range(0..e.len())]
            }
            2 => rng.gen_range(0..300),
            3 => rng.gen_range(0..0x2_0000),
            4 => rng.gen_range(0..0x2_0000_0000),
            _ => rng.r#gen(),
        }
    };
    for rec in 0..count {
        let branch = if rec % 5 == 0 { BRANCHES[rng.gen_range(0..8)] } else { rng.r#gen() };
        let mut node: Node = t
            .fields
            .iter()
            .map(|f| match f.ty {
                Ty::B32 => {
                    let mut b = [0u8; 32];
                    match rng.gen_range(0..6) {
                        0 => {}
                        1 => b = [0xff; 32],
                        _ => rng.fill_bytes(&mut b),
                    }
                    Val::B32(b)
                }
                Ty::U32 => Val::U32(match rng.gen_range(0..5) {
                    0 => 0,
                    1 => u32::MAX,
                    _ => rng.r#gen(),
                }),
                Ty::U256 => {
                    let mut b = [0u8; 32];
                    match rng.gen_range(0..6) {
                        0 => {}
                        1 => b = [0xff; 32],
                        _ => rng.fill_bytes(&mut b),
                    }
                    Val::U256(b)
                }
                Ty::Cs => Val::Cs(cs_pick(&mut rng)),
            })
            .collect();
        // a record is a node only if its height range is ascending and its size representable
        let si = t.fields.iter().position(|f| f.name == "start_height").unwrap();
        let ei = t.fields.iter().position(|f| f.name == "end_height").unwrap();
        if let (Val::Cs(a), Val::Cs(b)) = (node[si].clone(), node[ei].clone()) {
            let (lo, mut hi) = if a <= b { (a, b) } else { (b, a) };
            if lo == 0 && hi == u64::MAX {
                hi -= 1;
            }
            node[si] = Val::Cs(lo);
            node[ei] = Val::Cs(hi);
        }
        let leaf = rng.gen_range(0..3) == 0;
        let pick_link = |rng: &mut ChaCha8Rng| match rng.gen_range(0..4) {
            0 => 0u32,
            1 => u32::MAX,
            _ => rng.r#gen(),
        };
        let oe = OEntry { leaf, l: if leaf { 0 } else { pick_link(&mut rng) }, r: if leaf { 0 } else { pick_link(&mut rng) }, node };
        st.ser_records += 1;
        let res = guarded(|| {
            let ent = match real_entry::<A>(t, branch, &oe, false) {
                Ok(e) => e,
                Err(e) => return Some(e),
            };
            roundtrip::<A>(t, branch, &ent, &oe)
        });
        let bad = match res {
            Err(p) => Some(format!("panic: {p}")),
            Ok(x) => x,
        };
        if let Some(d) = bad {
            if out.len() < 20 {
                out.push(json!({"kind": "ser", "version": A::VER, "record": rec, "what": d,
                                "node": oe.node.iter().map(|v| v.show()).collect::<Vec<_>>(), "leaf": oe.leaf, "l": oe.l, "r": oe.r}));
            }
        }
    }
}

fn cs_direct(t: &Table, seed: u64, count: u64, st: &mut Stats, out: &mut Vec<Value>) {
    use zcash_encoding_local::CompactSize;
    let mut rng = ChaCha8Rng::seed_from_u64(seed ^ 0xc5c5);
    let mut vals: Vec<u64> = vec![];
    for c in &t.compact {
        for d in 0..3u64 {
            vals.push(c.max.saturating_sub(d));
            vals.push(c.max.saturating_add(d + 1).max(c.max));
        }
    }
    vals.extend_from_slice(&[0, 1, 2, 0x0200_0000 - 1, 0x0200_0000, 0x0200_0001, 1 << 40, 1 << 63]);
    for _ in 0..count {
        let w = rng.gen_range(1..=64);
        vals.push(rng.r#gen::<u64>() >> (64 - w));
    }
    for v in vals {
        st.cs_values += 1;
        let mut want = vec![];
        cs_enc(t, v, &mut want);
        let res = guarded(|| {
            let mut got = Vec::new();
            if let Err(e) = CompactSize::write_unbounded(&mut got, v) {
                return Some(format!("write_unbounded({v}) failed: {e}"));
            }
            if got != want {
                return Some(format!("write_unbounded({v}) = {} expected {}", hex::encode(&got), hex::encode(&want)));
            }
            match CompactSize::read_unbounded(&want[..]) {
                Ok(b) if b == v => None,
                Ok(b) => Some(format!("read_unbounded({}) = {b} expected {v}", hex::encode(&want))),
                Err(e) => Some(format!("read_unbounded({}) rejects the canonical encoding of {v}: {e}", hex::encode(&want))),
            }
        });
        let bad = match res {
            Err(p) => Some(format!("panic: {p}")),
            Ok(x) => x,
        };
        if let Some(d) = bad {
            if out.len() < 20 {
                out.push(json!({"kind": "compactsize", "value": v.to_string(), "what": d}));
            }
        }
    }
}

fn main() {
    // panics of the code under test are data (recorded, not printed); harness faults are printed
    std::panic::set_hook(Box::new(|info| {
        let s = info.to_string();
        if s.contains("HARNESS") || std::env::var("VERIF_LOUD").is_ok() {
            eprintln!("{s}");
        }
    }));
    let args: Vec<String> = std::env::args().collect();
    let lines = read_ndjson(&args[1]);
    let seed = seed_from_env();
    let mut tables: BTreeMap<u8, Table> = BTreeMap::new();
    let mut inits: HashMap<(u64, u64), &Value> = HashMap::new();
    let mut edges: Vec<&Value> = vec![];
    let mut sched = false;
    let mut ser_count = 0u64;
    let mut versions: Vec<u8> = vec![1, 2, 3];
    for l in &lines {
        match l["T"].as_str().unwrap_or("") {
            "table" => {
                let t = parse_table(l);
                tables.insert(t.version, t);
            }
            "init" => {
                inits.insert((l["n0"].as_u64().unwrap(), l["sid"].as_u64().unwrap()), l);
            }
            "edge" => edges.push(l),
            "sched" => sched = true,
            "ser" => ser_count = l["count"].as_u64().unwrap(),
            "versions" => versions = l["v"].as_array().unwrap().iter().map(|x| x.as_u64().unwrap() as u8).collect(),
            o => panic!("unknown line type {o}"),
        }
    }
    // behaviours
    let mut behaviours: Vec<(&Value, Vec<&Value>, Value)> = vec![]; // init, steps, id for reports
    if sched {
        let mut groups: BTreeMap<(u64, u64), Vec<&Value>> = BTreeMap::new();
        for e in &edges {
            groups.entry((e["n0"].as_u64().unwrap(), e["sid"].as_u64().unwrap())).or_default().push(e);
        }
        for (k, mut g) in groups {
            g.sort_by_key(|e| e["idx"].as_u64().unwrap());
            for (i, e) in g.iter().enumerate() {
                assert_eq!(e["idx"].as_u64().unwrap() as usize, i + 1, "HARNESS: schedule steps not contiguous");
            }
            let init = inits.get(&k).expect("HARNESS: init for schedule");
            behaviours.push((init, g.iter().map(|e| &e["step"]).collect(), json!({"n0": k.0, "sid": k.1})));
        }
    } else {
        for (i, e) in edges.iter().enumerate() {
            let k = (e["n0"].as_u64().unwrap(), e["sid"].as_u64().unwrap());
            let init = inits.get(&k).expect("HARNESS: init for edge");
            let mut steps: Vec<&Value> = e["pre"].as_array().unwrap().iter().collect();
            steps.push(&e["step"]);
            behaviours.push((init, steps, json!({"n0": k.0, "sid": k.1, "edge": i})));
        }
    }
    let mut st = Stats::default();
    let mut mismatches: Vec<Value> = vec![];
    for (init, steps, id) in &behaviours {
        for v in &versions {
            let t = tables.get(v).expect("HARNESS: table for version");
            let m = match v {
                1 => run_behaviour::<A1>(t, seed, init, steps, &mut st),
                2 => run_behaviour::<A2>(t, seed, init, steps, &mut st),
                _ => run_behaviour::<A3>(t, seed, init, steps, &mut st),
            };
            if let Some(m) = m {
                if m.what.contains("HARNESS") {
                    eprintln!("harness error: {}", m.what);
                    std::process::exit(3);
                }
                if mismatches.len() < 20 {
                    mismatches.push(json!({"kind": "behaviour", "behaviour": id, "version": v, "step": m.step, "what": m.what,
                                           "op": steps[m.step]["op"], "n_after": steps[m.step]["n"]}));
                }
            }
        }
    }
    if ser_count > 0 {
        for v in &versions {
            let t = tables.get(v).expect("HARNESS: table for version");
            match v {
                1 => ser_records::<A1>(t, seed, ser_count, &mut st, &mut mismatches),
                2 => ser_records::<A2>(t, seed, ser_count, &mut st, &mut mismatches),
                _ => ser_records::<A3>(t, seed, ser_count, &mut st, &mut mismatches),
            }
        }
        cs_direct(tables.values().next().expect("table"), seed, ser_count, &mut st, &mut mismatches);
    }
    let total_mismatch = mismatches.len();
    println!(
        "{}",
        json!({"behaviours": st.behaviours, "steps": st.steps, "appends": st.appends, "truncates": st.truncates,
               "reloads": st.reloads, "top_height_behaviours": st.top_height_behaviours, "kept_views": st.kept_views, "probes": st.probes, "full_views": st.full_views, "roundtrips": st.roundtrips,
               "root_compares": st.root_compares, "node_compares": st.node_compares, "ser_records": st.ser_records,
               "cs_values": st.cs_values, "max_leaves": st.max_leaves, "distinct_roots": st.distinct_roots.len(),
               "distinct_size_version_op": st.shapes.len(), "crate_errors": st.crate_errors,
               "mismatch_count": total_mismatch, "mismatches": mismatches})
    );
}
