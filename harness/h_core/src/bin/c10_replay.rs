//! C10 spec -> code replay for address strings and unified containers.
//!
//! Input (ndjson, written by checks/c10.py from TLC's output of spec/Address/MC_Zip316.tla and
//! MC_AddressDispatch.tla):
//!   {"T":"table", tcs, lens, jumbleMin, jumbleMax, ...}   self-check of the harness' own constants
//!   {"T":"uc",  k, it:[codes], p, z, acc, by:[kinds], rs:[reasons], tfi}   one abstract container
//!   {"T":"str", s:{abstract string}, exp:{acc, kind, net}}                 one abstract string
//!   {"T":"val", kind, net, pkind, pnet}                                    one address value
//!   {"T":"cin", kind, net, want, ok}                                       convert_if_network
//!
//! Every abstract case is MATERIALISED from raw bytes by this file (own ZIP 316 raw encoding, own
//! F4Jumble reference, own prefixes / HRPs; Bech32(m) and Base58Check via the bech32 / bs58 crates) -
//! never through `try_from_items`, `encode` or constants of the crates under test - and given to
//! `unified::{Address,Ufvk,Uivk}::decode`, `ZcashAddress::try_from_encoded`, `encode`,
//! `try_from_items`, `convert_if_network`.  The verdict must be the specification's; an accepted
//! string must re-encode to itself and show exactly the items / bytes that were put in.
//! The bytes of a case are a function of (VERIF_SEED, case) only.
//!
//! stdout: one JSON summary object (last line). exit 0 unless the harness itself is broken.
#[path = "../c10_common.rs"]
mod common;

use common::*;
use h_core::util::{read_ndjson, seed_from_env};
use rand::Rng;
use rand::seq::SliceRandom;
use rand_chacha::ChaCha8Rng;
use serde_json::{Value, json};
use zcash_address::unified::{self, Encoding};
use zcash_address::{ConversionError, ToAddress, ZcashAddress};

const MAX_MISMATCHES: usize = 80;

#[derive(Default)]
struct Stats {
    uc_cases: u64,
    uc_strings: u64,
    uc_decodes: u64,
    uc_accepts: u64,
    uc_tfi: u64,
    uc_tfi_accepts: u64,
    reason_checked: u64,
    reason_in_set: u64,
    str_cases: u64,
    str_accepts: u64,
    val_cases: u64,
    cin_cases: u64,
    panics: u64,
    mismatch_count: u64,
    mismatches: Vec<Value>,
}

impl Stats {
    fn mismatch(&mut self, v: Value) {
        self.mismatch_count += 1;
        if self.mismatches.len() < MAX_MISMATCHES {
            self.mismatches.push(v);
        }
    }
}

fn clip(s: &str) -> String {
    // ASCII only (Rust escapes for everything else: no line separators in the one-line summary), long ones cut
    let n = s.chars().count();
    if n <= 400 {
        s.chars().flat_map(|c| c.escape_default()).collect()
    } else {
        let head: String = s.chars().take(200).flat_map(|c| c.escape_default()).collect();
        let tail: String = s.chars().skip(n - 100).flat_map(|c| c.escape_default()).collect();
        format!("{head}...({n} chars)...{tail}")
    }
}

// ------------------------------------------------------------------------------------------------
// unified containers

const CLASSES: [&str; 7] = ["p2pkh", "p2sh", "sapling", "orchard", "unkLo", "unkHi", "invalid"];

fn pick_typecode(class: &str, rng: &mut ChaCha8Rng) -> u64 {
    match class {
        "p2pkh" => 0,
        "p2sh" => 1,
        "sapling" => 2,
        "orchard" => 3,
        "unkLo" => *[4u64, 5, 252, 253, 254, 255, 256, 0xFFFA, 0xFFFF, rng.gen_range(4..=0xFFFF), rng.gen_range(4..=0xFFFF)]
            .choose(rng)
            .unwrap(),
        "unkHi" => *[0x10000u64, 0x10001, MAX_TYPECODE - 1, MAX_TYPECODE, rng.gen_range(0x10000..=MAX_TYPECODE), rng.gen_range(0x10000..=MAX_TYPECODE)]
            .choose(rng)
            .unwrap(),
        "invalid" => *[MAX_TYPECODE + 1, MAX_TYPECODE + 2, 0xFFFF_FFFF, 0x1_0000_0000, u64::MAX, rng.gen_range(MAX_TYPECODE + 1..=0xFFFF_FFFF)]
            .choose(rng)
            .unwrap(),
        _ => panic!("harness: class {class}"),
    }
}

fn pick_len(kind: &str, class: &str, tc: u64, len_ok: bool, rng: &mut ChaCha8Rng) -> usize {
    match class {
        "p2pkh" | "p2sh" | "sapling" | "orchard" => match known_len(kind, tc) {
            Some(exact) => {
                if len_ok {
                    exact
                } else {
                    loop {
                        let n = *[0usize, 1, exact - 1, exact + 1, 2 * exact, 20, 32, 43, 64, 65, 96, 128, 252, 253, rng.gen_range(0..300)]
                            .choose(rng)
                            .unwrap();
                        if n != exact {
                            return n;
                        }
                    }
                }
            }
            // a typecode that has no place in this kind of container: no length is right
            None => {
                if len_ok {
                    *[20usize, 65].choose(rng).unwrap()
                } else {
                    *[0usize, 19, 64, 66].choose(rng).unwrap()
                }
            }
        },
        // unknown items: any length is fine; "lenOK" only selects ordinary vs exotic sizes
        "unkLo" | "unkHi" => {
            if len_ok {
                rng.gen_range(1..=64)
            } else {
                match rng.gen_range(0..400) {
                    0 => 65535,
                    1 => 65536,
                    x if x < 120 => 0,
                    x if x < 200 => 252,
                    x if x < 290 => 253,
                    x if x < 360 => 300,
                    _ => 1000,
                }
            }
        }
        "invalid" => rng.gen_range(0..=48),
        _ => unreachable!(),
    }
}

fn wrong_padding(hrp: &str, family: &str, net: &str, rng: &mut ChaCha8Rng) -> Vec<u8> {
    let right = padding_for(hrp).to_vec();
    loop {
        let mut p = right.clone();
        match rng.gen_range(0..9) {
            0 => p = vec![0u8; 16],
            1 => {
                let other = NETS.iter().filter(|n| **n != net).collect::<Vec<_>>()[rng.gen_range(0..2)];
                p = padding_for(hrp_of(family, other)).to_vec();
            }
            2 => {
                let of = ["ua", "ufvk", "uivk"].iter().filter(|f| **f != family).collect::<Vec<_>>()[rng.gen_range(0..2)];
                p = padding_for(hrp_of(of, net)).to_vec();
            }
            3 => p[15] ^= 1 << rng.gen_range(0..8),
            4 => p[0] ^= 1 << rng.gen_range(0..8),
            5 => p[hrp.len()] = rng.gen_range(1..=255),
            6 => {
                let i = rng.gen_range(0..16);
                p[i] ^= 1 << rng.gen_range(0..8);
            }
            7 => p = padding_for(&hrp.to_uppercase()).to_vec(),
            _ => p = vec![0xffu8; 16],
        }
        if p != right {
            return p;
        }
    }
}

struct Materialised {
    items: Vec<RawItem>,
    body_len: usize,
}

fn materialise_items(kind: &str, codes: &[u64], forced: bool, rng: &mut ChaCha8Rng) -> Materialised {
    let mut tc_of: std::collections::HashMap<&str, u64> = Default::default();
    let mut items = vec![];
    let mut elastic = vec![]; // indices whose data length may be increased without changing the abstract class
    for (i, code) in codes.iter().enumerate() {
        let class = CLASSES[(*code / 2) as usize];
        let len_ok = code % 2 == 1;
        let tc = *tc_of.entry(class).or_insert_with(|| pick_typecode(class, rng));
        let n = pick_len(kind, class, tc, len_ok, rng);
        let is_known = matches!(class, "p2pkh" | "p2sh" | "sapling" | "orchard");
        if !is_known || !len_ok || known_len(kind, tc).is_none() {
            elastic.push(i);
        }
        items.push(RawItem { typecode: tc, data: rand_bytes(rng, n) });
    }
    let mut body_len = raw_encode(&items, &[]).len();
    if body_len + PADDING_LEN < JUMBLE_MIN && !forced {
        // reach the jumble domain by growing an item whose abstract class allows any (other) length
        let i = *elastic.choose(rng).expect("harness: a non-forced container has an elastic item");
        let class = CLASSES[(codes[i] / 2) as usize];
        let mut n = items[i].data.len() + (JUMBLE_MIN - PADDING_LEN - body_len) + rng.gen_range(0..8);
        if let Some(exact) = known_len(kind, items[i].typecode) {
            if matches!(class, "p2pkh" | "p2sh" | "sapling" | "orchard") && n == exact {
                n += 1;
            }
        }
        items[i].data = rand_bytes(rng, n);
        body_len = raw_encode(&items, &[]).len();
    }
    Materialised { items, body_len }
}

enum Decoded {
    Accept { net: &'static str, items: Vec<RawItem>, reenc: String },
    Reject(String),
    Panic(String),
}

fn decode_with(dec: &str, s: &str) -> Decoded {
    let r = cut(|| match dec {
        "addr" => unified::Address::decode(s)
            .map(|(n, v)| (net_name(n), ua_items(&v), v.encode(&n)))
            .map_err(|e| format!("{e:?}")),
        "fvk" => unified::Ufvk::decode(s)
            .map(|(n, v)| (net_name(n), ufvk_items(&v), v.encode(&n)))
            .map_err(|e| format!("{e:?}")),
        "ivk" => unified::Uivk::decode(s)
            .map(|(n, v)| (net_name(n), uivk_items(&v), v.encode(&n)))
            .map_err(|e| format!("{e:?}")),
        "zaddr" => match ZcashAddress::try_from_encoded(s) {
            Ok(a) => {
                let o = observe(&a);
                match &o.ua {
                    Some(ua) => Ok((o.net, ua_items(ua), a.encode())),
                    // accepted as something else than a unified address: shown as a pseudo item list
                    None => Ok((o.net, vec![RawItem { typecode: u64::MAX, data: o.kind.as_bytes().to_vec() }], a.encode())),
                }
            }
            Err(e) => Err(format!("{e:?}")),
        },
        _ => panic!("harness: decoder {dec}"),
    });
    match r {
        Err(p) => Decoded::Panic(p),
        Ok(Err(e)) => Decoded::Reject(e),
        Ok(Ok((net, items, reenc))) => Decoded::Accept { net, items, reenc },
    }
}

/// The reason classes of Zip316!Reasons an error value of the code can be read as (informational).
fn reason_classes(err: &str) -> &'static [&'static str] {
    if err.starts_with("BothP2phkAndP2sh") {
        &["both"]
    } else if err.starts_with("DuplicateTypecode") {
        &["dup"]
    } else if err.starts_with("InvalidTypecodeOrder") {
        &["order"]
    } else if err.starts_with("OnlyTransparent") {
        &["onlyT"]
    } else if err.starts_with("InvalidTypecodeValue") {
        &["item"]
    } else if err.starts_with("InvalidEncoding") {
        &["item", "padding", "size", "struct"]
    } else {
        &[]
    }
}

fn run_uc(seed: u64, c: &Value, st: &mut Stats) {
    let kind = c["k"].as_str().unwrap();
    let codes: Vec<u64> = c["it"].as_array().unwrap().iter().map(|v| v.as_u64().unwrap()).collect();
    let padding = c["p"].as_str().unwrap();
    let z = c["z"].as_u64().unwrap() as usize;
    let acc = c["acc"].as_bool().unwrap();
    let by: Vec<&str> = c["by"].as_array().unwrap().iter().map(|v| v.as_str().unwrap()).collect();
    let reasons: Vec<&str> = c["rs"].as_array().unwrap().iter().map(|v| v.as_str().unwrap()).collect();
    let tfi = c["tfi"].as_str().unwrap();
    let text = format!("uc|{kind}|{codes:?}|{padding}");
    let mut rng = case_rng(seed, &text);
    let forced = !ref_valid_len(z);
    let m = materialise_items(kind, &codes, forced, &mut rng);
    let size = m.body_len + PADDING_LEN;
    if forced {
        assert_eq!(size, z, "harness: forced size differs from the specification's for {text}");
    } else {
        assert!(ref_valid_len(size), "harness: could not reach the jumble domain for {text}");
    }
    if acc != (by == vec![kind]) || (!acc && !by.is_empty()) {
        panic!("harness: inconsistent case {c}");
    }
    st.uc_cases += 1;
    let family = family_of_kind(kind);
    for net in NETS {
        let hrp = hrp_of(family, net);
        let pad = if padding == "hrp" { padding_for(hrp).to_vec() } else { wrong_padding(hrp, family, net, &mut rng) };
        let raw = raw_encode(&m.items, &pad);
        let s = match container_string(hrp, &raw, "bech32m", &mut rng) {
            Some(s) => s,
            // outside the jumble domain there is no jumbled form: the bytes go in as they are
            None => bech_encode("bech32m", hrp, &raw, &mut rng),
        };
        st.uc_strings += 1;
        for dec in ["addr", "fvk", "ivk", "zaddr"] {
            let want = if dec == "zaddr" { by.contains(&"addr") } else { by.contains(&dec) };
            st.uc_decodes += 1;
            let got = decode_with(dec, &s);
            let mut bad: Option<String> = None;
            match &got {
                Decoded::Panic(p) => {
                    st.panics += 1;
                    bad = Some(format!("panic: {}", clip(p)));
                }
                Decoded::Reject(e) => {
                    if want {
                        bad = Some(format!("rejected ({})", clip(e)));
                    } else if dec == kind {
                        st.reason_checked += 1;
                        if reason_classes(e).iter().any(|r| reasons.contains(r)) {
                            st.reason_in_set += 1;
                        }
                    }
                }
                Decoded::Accept { net: onet, items, reenc } => {
                    if !want {
                        bad = Some(format!("accepted (as {} items on {})", items.len(), onet));
                    } else {
                        st.uc_accepts += 1;
                        if *onet != net {
                            bad = Some(format!("accepted with network {onet}, the HRP is {net}'s"));
                        } else if *items != m.items {
                            bad = Some("accepted, but the items shown differ from the items encoded (order / data / unknown items)".into());
                        } else if *reenc != s {
                            bad = Some(format!("accepted, but re-encodes to a different string {}", clip(reenc)));
                        }
                    }
                }
            }
            if let Some(what) = bad {
                st.mismatch(json!({"T": "uc", "case": c, "net": net, "decoder": dec, "expected": if want {"accept"} else {"reject"},
                                   "what": what, "string": clip(&s), "reasons": reasons}));
            }
        }
    }
    // construction from typed items, in the order of the case: `try_from_items` sorts, so the verdict is SetValid
    if tfi != "na" && padding == "hrp" {
        st.uc_tfi += 1;
        let net = NETS[rng.gen_range(0..3)];
        let hrp = hrp_of(family, net);
        let mut sorted = m.items.clone();
        sorted.sort_by_key(|it| it.typecode); // stable; equal typecodes only occur in rejected cases
        let own = if ref_valid_len(raw_encode(&sorted, &padding_for(hrp)).len()) {
            container_string(hrp, &raw_encode(&sorted, &padding_for(hrp)), "bech32m", &mut rng)
        } else {
            None
        };
        // typed items are built outside the guarded call (a failure here is the harness' own)
        let typed_r: Vec<unified::Receiver> = if kind == "addr" { m.items.iter().map(|i| typed_receiver(i).expect("harness: typed item")).collect() } else { vec![] };
        let typed_f: Vec<unified::Fvk> = if kind == "fvk" { m.items.iter().map(|i| typed_fvk(i).expect("harness: typed item")).collect() } else { vec![] };
        let typed_i: Vec<unified::Ivk> = if kind == "ivk" { m.items.iter().map(|i| typed_ivk(i).expect("harness: typed item")).collect() } else { vec![] };
        let encodable = own.is_some();
        let r = cut(|| -> Result<(Vec<RawItem>, Option<String>, bool), String> {
            match kind {
                "addr" => {
                    let v = unified::Address::try_from_items(typed_r).map_err(|e| format!("{e:?}"))?;
                    let s = if encodable { Some(v.encode(&net_type(net))) } else { None };
                    let back = s.as_ref().map(|s| unified::Address::decode(s) == Ok((net_type(net), v.clone()))).unwrap_or(true);
                    Ok((ua_items(&v), s, back))
                }
                "fvk" => {
                    let v = unified::Ufvk::try_from_items(typed_f).map_err(|e| format!("{e:?}"))?;
                    let s = if encodable { Some(v.encode(&net_type(net))) } else { None };
                    let back = s.as_ref().map(|s| unified::Ufvk::decode(s) == Ok((net_type(net), v.clone()))).unwrap_or(true);
                    Ok((ufvk_items(&v), s, back))
                }
                _ => {
                    let v = unified::Uivk::try_from_items(typed_i).map_err(|e| format!("{e:?}"))?;
                    let s = if encodable { Some(v.encode(&net_type(net))) } else { None };
                    let back = s.as_ref().map(|s| unified::Uivk::decode(s) == Ok((net_type(net), v.clone()))).unwrap_or(true);
                    Ok((uivk_items(&v), s, back))
                }
            }
        });
        let mut bad: Option<String> = None;
        match r {
            Err(p) => {
                st.panics += 1;
                bad = Some(format!("panic: {}", clip(&p)));
            }
            Ok(Err(e)) => {
                if tfi == "accept" {
                    bad = Some(format!("try_from_items rejected ({e})"));
                }
            }
            Ok(Ok((items, s, back))) => {
                if tfi != "accept" {
                    bad = Some("try_from_items accepted".into());
                } else {
                    st.uc_tfi_accepts += 1;
                    if items != sorted {
                        bad = Some("try_from_items: items not in ascending typecode order / not the given items".into());
                    } else if s != own {
                        bad = Some(format!("try_from_items(..).encode() differs from the ZIP 316 encoding of the sorted items: {}", clip(&s.unwrap_or_default())));
                    } else if !back {
                        bad = Some("decode(encode(v)) != v".into());
                    }
                }
            }
        }
        if let Some(what) = bad {
            st.mismatch(json!({"T": "uc", "case": c, "net": net, "decoder": "try_from_items", "expected": tfi, "what": what,
                               "string": own.map(|s| clip(&s)), "reasons": reasons}));
        }
    }
}

// ------------------------------------------------------------------------------------------------
// abstract strings

fn wf_items(rng: &mut ChaCha8Rng) -> Vec<RawItem> {
    let templates: [&[u64]; 8] = [&[2], &[3], &[2, 3], &[0, 2, 3], &[1, 3], &[0, 3, 7], &[2, 0xFFFF, 0x10000], &[0xabcd]];
    let t = templates[rng.gen_range(0..templates.len())];
    t.iter()
        .map(|tc| {
            let n = known_len("addr", *tc).unwrap_or_else(|| rng.gen_range(40..80));
            RawItem { typecode: *tc, data: rand_bytes(rng, n) }
        })
        .collect()
}

fn ill_items(rng: &mut ChaCha8Rng) -> Vec<RawItem> {
    // (typecode, length) lists that Zip316 rejects although padding and size are fine
    let templates: [&[(u64, usize)]; 8] = [
        &[(0, 20), (1, 20)],
        &[(0, 20), (1, 20), (2, 43)],
        &[(3, 43), (2, 43)],
        &[(2, 43), (2, 43)],
        &[(2, 42), (3, 43)],
        &[(0, 20), (0x0200_0001, 40)],
        &[(0, 20), (1, 21), (3, 43)],
        &[(3, 43), (0, 20)],
    ];
    let t = templates[rng.gen_range(0..templates.len())];
    t.iter().map(|(tc, n)| RawItem { typecode: *tc, data: rand_bytes(rng, *n) }).collect()
}

struct StrMat {
    string: String,
    trimmed: String,
    payload: Vec<u8>,          // fixed-size kinds: the bytes put in
    items: Option<Vec<RawItem>>, // unified: the items put in
}

fn apply_ws(core: &str, ws: &str, rng: &mut ChaCha8Rng) -> (String, String) {
    match ws {
        "none" => (core.to_string(), core.to_string()),
        "lead" => (format!("{}{}", rand_ws(rng), core), core.to_string()),
        "trail" => (format!("{}{}", core, rand_ws(rng)), core.to_string()),
        "both" => (format!("{}{}{}", rand_ws(rng), core, rand_ws(rng)), core.to_string()),
        "inner" => {
            let chars: Vec<char> = core.chars().collect();
            if chars.len() < 2 {
                // nothing to put whitespace inside of: surround a lone whitespace by the characters we have
                let s = format!("{}{}{}", core, rand_ws(rng), core);
                return (s.clone(), s);
            }
            let pos = rng.gen_range(1..chars.len());
            let s: String = chars[..pos].iter().collect::<String>() + &rand_ws(rng) + &chars[pos..].iter().collect::<String>();
            (s.clone(), s)
        }
        _ => panic!("harness: ws {ws}"),
    }
}

fn materialise_str(s: &Value, rng: &mut ChaCha8Rng) -> StrMat {
    let ws = s["ws"].as_str().unwrap();
    let mut payload = vec![];
    let mut items = None;
    let core: String = match s["form"].as_str().unwrap() {
        "bech" => {
            let fam = s["hrp"]["fam"].as_str().unwrap();
            let net = s["hrp"]["net"].as_str().unwrap();
            let foreign = match fam {
                "other" => foreign_hrp(rng),
                "uaLonger" => longer_hrp(hrp_of("ua", net), rng),
                _ => String::new(),
            };
            let hrp: &str = if foreign.is_empty() { hrp_of(fam, net) } else { &foreign };
            let data: Vec<u8> = match s["payload"].as_str().unwrap() {
                "ua_wf" => {
                    let its = wf_items(rng);
                    let raw = raw_encode(&its, &padding_for(hrp));
                    items = Some(its);
                    ref_f4jumble(&raw).expect("harness: jumble domain")
                }
                "ua_othernet" => {
                    let its = wf_items(rng);
                    let other = NETS.iter().filter(|n| !(fam == "ua" && **n == net)).collect::<Vec<_>>();
                    let on = other[rng.gen_range(0..other.len())];
                    let raw = raw_encode(&its, &padding_for(hrp_of("ua", on)));
                    assert!(padding_for(hrp_of("ua", on)) != padding_for(hrp));
                    ref_f4jumble(&raw).expect("harness: jumble domain")
                }
                "ua_ill" => {
                    let its = ill_items(rng);
                    let raw = raw_encode(&its, &padding_for(hrp));
                    ref_f4jumble(&raw).expect("harness: jumble domain")
                }
                "raw20" => rand_bytes(rng, 20),
                "raw43" => rand_bytes(rng, 43),
                "raw64" => rand_bytes(rng, 64),
                "rawOther" => {
                    let n = *[0usize, 1, 19, 21, 32, 42, 44, 63, 65, 100].choose(rng).unwrap();
                    rand_bytes(rng, n)
                }
                p => panic!("harness: payload {p}"),
            };
            payload = data.clone();
            let lower = bech_encode(s["variant"].as_str().unwrap(), hrp, &data, rng);
            match s["case"].as_str().unwrap() {
                "lower" => lower,
                "upper" => lower.to_uppercase(),
                "mixed" => {
                    // upper-case one letter, keeping at least one lower-case letter elsewhere
                    let chars: Vec<char> = lower.chars().collect();
                    let letters: Vec<usize> = (0..chars.len()).filter(|i| chars[*i].is_ascii_lowercase()).collect();
                    assert!(letters.len() >= 2, "harness: no two letters in {lower}");
                    let pos = letters[rng.gen_range(0..letters.len())];
                    chars.iter().enumerate().map(|(i, c)| if i == pos { c.to_ascii_uppercase() } else { *c }).collect()
                }
                c => panic!("harness: case {c}"),
            }
        }
        "b58" => {
            let pk = s["prefix"]["kind"].as_str().unwrap();
            let pn = s["prefix"]["net"].as_str().unwrap();
            let known: Vec<[u8; 2]> =
                ["p2pkh", "p2sh", "sprout"].iter().flat_map(|k| ["main", "test"].iter().map(move |n| b58_prefix(k, n))).collect();
            let bytes: Vec<u8> = match pk {
                "short" => {
                    if rng.gen_bool(0.5) { vec![] } else { vec![[0x1cu8, 0x1d, 0x16, 0x00][rng.gen_range(0..4)]] }
                }
                _ => {
                    let prefix: [u8; 2] = if pk == "other" {
                        loop {
                            let near = known[rng.gen_range(0..known.len())];
                            let p = match rng.gen_range(0..4) {
                                0 => [near[0], near[1].wrapping_add(1)],
                                1 => [near[0].wrapping_add(1), near[1]],
                                2 => [near[1], near[0]],
                                _ => [rng.r#gen(), rng.r#gen()],
                            };
                            if !known.contains(&p) {
                                break p;
                            }
                        }
                    } else {
                        b58_prefix(pk, pn)
                    };
                    let n = match s["plen"].as_str().unwrap() {
                        "20" => 20,
                        "64" => 64,
                        _ => *[0usize, 1, 19, 21, 32, 43, 63, 65].choose(rng).unwrap(),
                    };
                    payload = rand_bytes(rng, n);
                    let mut v = prefix.to_vec();
                    v.extend_from_slice(&payload);
                    v
                }
            };
            let good = bs58::encode(&bytes).with_check().into_string();
            match s["ck"].as_str().unwrap() {
                "ok" => good,
                _ => {
                    const ALPHA: &[u8] = b"123456789ABCDEFGHJKLMNPQRSTUVWXYZabcdefghijkmnopqrstuvwxyz";
                    loop {
                        let mut chars: Vec<char> = good.chars().collect();
                        let pos = rng.gen_range(0..chars.len());
                        let c = if rng.gen_range(0..6) == 0 { ['0', 'O', 'I', 'l'][rng.gen_range(0..4)] } else { ALPHA[rng.gen_range(0..ALPHA.len())] as char };
                        if c == chars[pos] {
                            continue;
                        }
                        chars[pos] = c;
                        let cand: String = chars.into_iter().collect();
                        if bs58::decode(&cand).with_check(None).into_vec().is_err() {
                            break cand;
                        }
                    }
                }
            }
        }
        "junk" => {
            let fixed = ["", "1", "u1", "zs1", "t1", "t3", "tex1", "zc", "u", "utest1qqqqqq", "0x00", "zcash:", "\u{1F980}", "u1\u{0}"];
            if rng.gen_bool(0.5) {
                fixed[rng.gen_range(0..fixed.len())].to_string()
            } else {
                let n = rng.gen_range(1..120);
                (0..n).map(|_| char::from(rng.gen_range(0x21u8..0x7f))).collect()
            }
        }
        f => panic!("harness: form {f}"),
    };
    let (string, trimmed) = apply_ws(&core, ws, rng);
    StrMat { string, trimmed, payload, items }
}

struct Parsed {
    out: &'static str, // accept | reject | panic
    kind: &'static str,
    net: &'static str,
    canon: bool,
    data_ok: bool,
    detail: String,
}

fn parse_and_observe(m: &StrMat) -> Parsed {
    let r = cut(|| ZcashAddress::try_from_encoded(&m.string).map(|a| (observe(&a), a.encode())).map_err(|e| format!("{e:?}")));
    match r {
        Err(p) => Parsed { out: "panic", kind: "-", net: "-", canon: false, data_ok: false, detail: clip(&p) },
        Ok(Err(e)) => Parsed { out: "reject", kind: "-", net: "-", canon: false, data_ok: false, detail: e },
        Ok(Ok((o, reenc))) => {
            let data_ok = match (&o.ua, &m.items) {
                (Some(ua), Some(items)) => ua_items(ua) == *items,
                (None, None) => o.data == m.payload,
                _ => false,
            };
            Parsed { out: "accept", kind: o.kind, net: o.net, canon: reenc == m.trimmed, data_ok, detail: reenc }
        }
    }
}

fn run_str(seed: u64, c: &Value, rep: u32, st: &mut Stats) {
    let s = &c["s"];
    let exp = &c["exp"];
    let mut rng = case_rng(seed, &format!("str|{s}|{rep}"));
    let m = materialise_str(s, &mut rng);
    st.str_cases += 1;
    let p = parse_and_observe(&m);
    let want_acc = exp["acc"].as_bool().unwrap();
    let mut bad: Option<String> = None;
    if p.out == "panic" {
        st.panics += 1;
        bad = Some(format!("panic: {}", p.detail));
    } else if want_acc {
        if p.out != "accept" {
            bad = Some(format!("rejected ({})", p.detail));
        } else {
            st.str_accepts += 1;
            if p.kind != exp["kind"].as_str().unwrap() || p.net != exp["net"].as_str().unwrap() {
                bad = Some(format!("parsed as {} on {}", p.kind, p.net));
            } else if !p.data_ok {
                bad = Some("parsed, but the payload shown differs from the bytes encoded".into());
            } else if !p.canon {
                bad = Some(format!("parsed, but re-encodes to {} instead of the trimmed input", clip(&p.detail)));
            }
        }
    } else if p.out == "accept" {
        bad = Some(format!("accepted as {} on {} (re-encodes to {})", p.kind, p.net, clip(&p.detail)));
    }
    if let Some(what) = bad {
        st.mismatch(json!({"T": "str", "case": c, "rep": rep, "expected": exp, "what": what, "string": clip(&m.string)}));
    }
}

// ------------------------------------------------------------------------------------------------
// address values and convert_if_network

/// The harness' own canonical string of an address value.
fn own_encode(kind: &str, net: &str, data: &[u8], items: &[RawItem], rng: &mut ChaCha8Rng) -> String {
    match kind {
        "sprout" | "p2pkh" | "p2sh" => b58check_encode(&b58_prefix(kind, net), data),
        "sapling" => bech_encode("bech32", hrp_of("sapling", net), data, rng),
        "tex" => bech_encode("bech32m", hrp_of("tex", net), data, rng),
        "unified" => {
            let hrp = hrp_of("ua", net);
            container_string(hrp, &raw_encode(items, &padding_for(hrp)), "bech32m", rng).expect("harness: jumble domain")
        }
        _ => panic!("harness: kind {kind}"),
    }
}

fn build_value(kind: &str, net: &str, data: &[u8], items: &[RawItem]) -> Result<ZcashAddress, String> {
    let n = net_type(net);
    cut(|| match kind {
        "sprout" => ZcashAddress::from_sprout(n, data.try_into().unwrap()),
        "sapling" => ZcashAddress::from_sapling(n, data.try_into().unwrap()),
        "p2pkh" => ZcashAddress::from_transparent_p2pkh(n, data.try_into().unwrap()),
        "p2sh" => ZcashAddress::from_transparent_p2sh(n, data.try_into().unwrap()),
        "tex" => ZcashAddress::from_tex(n, data.try_into().unwrap()),
        "unified" => {
            let mut typed: Vec<_> = items.iter().map(|i| typed_receiver(i).expect("harness: typed item")).collect();
            typed.reverse(); // try_from_items sorts
            ZcashAddress::from_unified(n, unified::Address::try_from_items(typed).expect("well-formed items"))
        }
        _ => panic!("harness: kind {kind}"),
    })
}

fn run_val(seed: u64, c: &Value, st: &mut Stats) {
    let kind = c["kind"].as_str().unwrap();
    let net = c["net"].as_str().unwrap();
    let pkind = c["pkind"].as_str().unwrap();
    let pnet = c["pnet"].as_str().unwrap();
    for rep in 0..8 {
        let mut rng = case_rng(seed, &format!("val|{kind}|{net}|{rep}"));
        st.val_cases += 1;
        let items = if kind == "unified" { wf_items(&mut rng) } else { vec![] };
        let data = if kind == "unified" { vec![] } else { rand_bytes(&mut rng, legacy_len(kind)) };
        let own = own_encode(kind, net, &data, &items, &mut rng);
        let mut bad: Option<String> = None;
        match build_value(kind, net, &data, &items) {
            Err(p) => {
                st.panics += 1;
                bad = Some(format!("constructor panicked: {}", clip(&p)));
            }
            Ok(v) => match cut(|| v.encode()) {
                Err(p) => {
                    st.panics += 1;
                    bad = Some(format!("encode panicked: {}", clip(&p)));
                }
                Ok(s) => {
                    if s != own {
                        bad = Some(format!("encode() = {} but the specified encoding is {}", clip(&s), clip(&own)));
                    } else {
                        let m = StrMat { string: s.clone(), trimmed: s.clone(), payload: data.clone(), items: if kind == "unified" { Some(items.clone()) } else { None } };
                        let p = parse_and_observe(&m);
                        if p.out != "accept" {
                            bad = Some(format!("its own encoding {} does not parse ({} {})", clip(&s), p.out, p.detail));
                        } else if p.kind != pkind || p.net != pnet {
                            bad = Some(format!("parses back as {} on {}", p.kind, p.net));
                        } else if !p.data_ok || !p.canon {
                            bad = Some("parses back with different data / re-encodes differently".into());
                        } else if (pkind, pnet) == (kind, net) && cut(|| ZcashAddress::try_from_encoded(&s) == Ok(v.clone())) != Ok(true) {
                            bad = Some("parse(encode(v)) != v".into());
                        }
                    }
                }
            },
        }
        if let Some(what) = bad {
            st.mismatch(json!({"T": "val", "case": c, "rep": rep, "what": what}));
        }
    }
}

fn run_cin(seed: u64, c: &Value, st: &mut Stats) {
    let kind = c["kind"].as_str().unwrap();
    let net = c["net"].as_str().unwrap();
    let want = c["want"].as_str().unwrap();
    let ok = c["ok"].as_bool().unwrap();
    let mut rng = case_rng(seed, &format!("cin|{kind}|{net}|{want}"));
    st.cin_cases += 1;
    let items = if kind == "unified" { wf_items(&mut rng) } else { vec![] };
    let data = if kind == "unified" { vec![] } else { rand_bytes(&mut rng, legacy_len(kind)) };
    let s = own_encode(kind, net, &data, &items, &mut rng);
    let r = cut(|| {
        ZcashAddress::try_from_encoded(&s).map_err(|e| format!("{e:?}")).map(|a| match a.convert_if_network::<Obs>(net_type(want)) {
            Ok(o) => Ok(o),
            Err(ConversionError::IncorrectNetwork { .. }) => Err("IncorrectNetwork".to_string()),
            Err(e) => Err(format!("{e:?}")),
        })
    });
    let bad = match r {
        Err(p) => {
            st.panics += 1;
            Some(format!("panic: {}", clip(&p)))
        }
        Ok(Err(e)) => Some(format!("the string of a ({kind},{net}) address does not parse: {e}")),
        Ok(Ok(Ok(o))) => {
            if !ok {
                Some(format!("convert_if_network({want}) accepted an address parsed as ({kind},{net})"))
            } else if o.kind != kind || o.net != want || (kind != "unified" && o.data != data) || (kind == "unified" && o.ua.as_ref().map(ua_items) != Some(items.clone())) {
                Some(format!("convert_if_network({want}) delivered ({}, {}) / other data", o.kind, o.net))
            } else {
                None
            }
        }
        Ok(Ok(Err(e))) => {
            if ok { Some(format!("convert_if_network({want}) refused an address parsed as ({kind},{net}): {e}")) } else { None }
        }
    };
    if let Some(what) = bad {
        st.mismatch(json!({"T": "cin", "case": c, "what": what, "string": clip(&s)}));
    }
}

fn check_table(t: &Value) {
    let tcs: Vec<&str> = t["tcs"].as_array().unwrap().iter().map(|v| v.as_str().unwrap()).collect();
    assert_eq!(tcs, CLASSES, "harness: typecode classes differ from the specification's");
    for kind in ["addr", "fvk", "ivk"] {
        for tc in 0..4u64 {
            let spec = t["lens"][kind][tc as usize].as_u64().unwrap() as usize;
            assert_eq!(known_len(kind, tc).unwrap_or(0), spec, "harness: item length table differs from the specification's");
        }
    }
    assert_eq!(t["jumbleMin"].as_u64().unwrap() as usize, JUMBLE_MIN);
    assert_eq!(t["jumbleMax"].as_u64().unwrap() as usize, JUMBLE_MAX);
}

impl Stats {
    fn merge(&mut self, o: Stats) {
        self.uc_cases += o.uc_cases;
        self.uc_strings += o.uc_strings;
        self.uc_decodes += o.uc_decodes;
        self.uc_accepts += o.uc_accepts;
        self.uc_tfi += o.uc_tfi;
        self.uc_tfi_accepts += o.uc_tfi_accepts;
        self.reason_checked += o.reason_checked;
        self.reason_in_set += o.reason_in_set;
        self.str_cases += o.str_cases;
        self.str_accepts += o.str_accepts;
        self.val_cases += o.val_cases;
        self.cin_cases += o.cin_cases;
        self.panics += o.panics;
        self.mismatch_count += o.mismatch_count;
        for m in o.mismatches {
            if self.mismatches.len() < MAX_MISMATCHES {
                self.mismatches.push(m);
            }
        }
    }
}

fn main() {
    let args: Vec<String> = std::env::args().collect();
    if args.len() < 2 {
        eprintln!("usage: c10_replay <cases.ndjson> [reps-per-string-class]");
        std::process::exit(2);
    }
    let reps: u32 = args.get(2).map(|s| s.parse().expect("reps")).unwrap_or(1);
    let seed = seed_from_env();
    harness_hook();
    let cases = read_ndjson(&args[1]);
    let mut tables = 0;
    for c in &cases {
        if c["T"] == "table" {
            check_table(c);
            tables += 1;
        }
    }
    let work: Vec<&Value> = cases.iter().filter(|c| c["T"] != "table").collect();
    let threads = std::thread::available_parallelism().map(|n| n.get()).unwrap_or(4).min(8).max(1);
    let chunk = work.len().div_ceil(threads).max(1);
    let mut st = Stats::default();
    // chunks are contiguous and merged in order, so the reported mismatches do not depend on scheduling
    let parts: Vec<Stats> = std::thread::scope(|sc| {
        let hs: Vec<_> = work
            .chunks(chunk)
            .map(|part| {
                sc.spawn(move || {
                    let mut st = Stats::default();
                    for c in part {
                        match c["T"].as_str().unwrap_or("") {
                            "uc" => run_uc(seed, c, &mut st),
                            "str" => {
                                for rep in 0..reps {
                                    run_str(seed, c, rep, &mut st)
                                }
                            }
                            "val" => run_val(seed, c, &mut st),
                            "cin" => run_cin(seed, c, &mut st),
                            t => panic!("harness: unknown case type {t}"),
                        }
                    }
                    st
                })
            })
            .collect();
        hs.into_iter().map(|h| h.join().unwrap_or_else(|_| std::process::exit(3))).collect()
    });
    for p in parts {
        st.merge(p);
    }
    println!(
        "{}",
        json!({
            "tables": tables, "uc_cases": st.uc_cases, "uc_strings": st.uc_strings, "uc_decodes": st.uc_decodes,
            "uc_accepts": st.uc_accepts, "uc_tfi": st.uc_tfi, "uc_tfi_accepts": st.uc_tfi_accepts,
            "reason_checked": st.reason_checked, "reason_in_set": st.reason_in_set,
            "str_cases": st.str_cases, "str_accepts": st.str_accepts, "val_cases": st.val_cases, "cin_cases": st.cin_cases,
            "panics": st.panics, "mismatch_count": st.mismatch_count, "mismatches": st.mismatches,
        })
    );
}
