use zcash_address::{ZcashAddress, ToAddress, unified::{self, Encoding, Receiver}};
use zcash_protocol::consensus::NetworkType;
use zip321::TransactionRequest;
fn main() {
    let nets = [NetworkType::Main, NetworkType::Test, NetworkType::Regtest];
    for net in nets {
        let sap = ZcashAddress::from_sapling(net, [7u8; 43]).encode();
        let spr = ZcashAddress::from_sprout(net, [7u8; 64]).encode();
        let p2pkh = ZcashAddress::from_transparent_p2pkh(net, [7u8; 20]).encode();
        let p2sh = ZcashAddress::from_transparent_p2sh(net, [7u8; 20]).encode();
        let tex = ZcashAddress::from_tex(net, [7u8; 20]).encode();
        let ua_o = ZcashAddress::from_unified(net, unified::Address::try_from_items(vec![Receiver::Orchard([9u8;43])]).unwrap()).encode();
        let ua_st = ZcashAddress::from_unified(net, unified::Address::try_from_items(vec![Receiver::Sapling([9u8;43]), Receiver::P2pkh([3u8;20])]).unwrap()).encode();
        let ua_tu = ZcashAddress::from_unified(net, unified::Address::try_from_items(vec![Receiver::P2pkh([3u8;20]), Receiver::Unknown{typecode: 0xAB, data: vec![5u8; 40]}]).unwrap()).encode();
        let ua_u = unified::Address::try_from_items(vec![Receiver::Unknown{typecode: 0xAB, data: vec![5u8; 40]}]).map(|a| ZcashAddress::from_unified(net, a).encode());
        println!("{sap}\n{spr}\n{p2pkh}\n{p2sh}\n{tex}\n{ua_o}\n{ua_st}\n{ua_tu}\n{ua_u:?}");
        for a in [&sap,&spr,&p2pkh,&p2sh,&tex,&ua_o,&ua_st,&ua_tu] {
            let z = ZcashAddress::try_from_encoded(a).unwrap();
            println!("  memo={} tonly={} rt={}", z.can_receive_memo(), z.is_transparent_only(), &z.encode()==a);
        }
    }
    let sap = ZcashAddress::from_sapling(NetworkType::Main, [7u8; 43]).encode();
    let t = ZcashAddress::from_transparent_p2pkh(NetworkType::Main, [7u8; 20]).encode();
    let up = sap.to_uppercase();
    let tests: Vec<String> = vec![
        format!("zcash:{sap}?label=%ZZ"), format!("zcash:{sap}?label=%"), format!("zcash:{sap}?label=%4"),
        format!("zcash:{sap}?label=%FF"), format!("zcash:{sap}?label=é"), format!("zcash:{sap}?label=a b"),
        format!("zcash:{sap}?label=a+b"), format!("zcash:{sap}?label"), format!("zcash:{sap}?label=a&"),
        format!("zcash:{sap}?&label=a"), format!("zcash:{sap}?"), format!("zcash:{sap}?Amount=1"),
        format!("zcash:{sap}?AMOUNT=1&amount=2"), format!("zcash:{up}"), format!("ZCASH:{sap}"),
        format!("zcash:{sap}?amount=1.50"), format!("zcash:{sap}?amount=001.5"), format!("zcash:{sap}?amount=.5"),
        format!("zcash:{sap}?amount=1."), format!("zcash:{sap}?amount=0.123456789"), format!("zcash:{sap}?amount=0.000000010"),
        format!("zcash:{sap}?amount=00000000000000000000000000000000001"), format!("zcash:{sap}?amount=+1"), format!("zcash:{sap}?amount=1%30"),
        format!("zcash:{sap}?amount=٣"),
        format!("zcash:{sap}?memo="), format!("zcash:{sap}?memo=9g"), format!("zcash:{sap}?memo=9h"), format!("zcash:{sap}?memo=9g=="), format!("zcash:{sap}?memo=A"),
        format!("zcash:{sap}?memo=+_8"), format!("zcash:{sap}?memo=-_8"), format!("zcash:{sap}?memo=%41%41"),
        format!("zcash:{t}?amount=0"), format!("zcash:{t}?amount=0.00000000"), format!("zcash:{t}?memo="),
        format!("zcash:{sap}?address={sap}"), format!("zcash:{sap}?address.1={sap}"), format!("zcash:?address.1={sap}"),
        format!("zcash:?address.9999={sap}&label.9999=x"), format!("zcash:?address.10000={sap}"), format!("zcash:?address.01={sap}"), format!("zcash:?address.0={sap}"),
        format!("zcash:{sap}?req-foo=1"), format!("zcash:{sap}?req-=1"), format!("zcash:{sap}?req=1"), format!("zcash:{sap}?Req-foo=1"), format!("zcash:{sap}?a.1=1"),
        format!("zcash:{sap}?foo=1&foo=2"), format!("zcash:{sap}?foo=1&foo.1=2"), format!("zcash:{sap}?foo=1&bar=2"),
        format!("zcash:{sap}?label=a#b"), format!("zcash:{sap}?label=a?b"), format!("zcash:{sap}?label=a/b"), format!("zcash:{sap}?label=a=b"),
        format!("zcash:{sap}?1abc=1"), format!("zcash:{sap}?a_b=1"), format!("zcash:{sap}?a+b-c=1"), format!("zcash:{sap}?label.=1"),
        format!("zcash:{sap}#frag"), format!("zcash://{sap}"), format!(" zcash:{sap}"), format!("zcash:{sap} "),
    ];
    for u in tests {
        let r = TransactionRequest::from_uri(&u);
        match r {
            Ok(req) => println!("OK   {} -> {}", &u[..], req.to_uri()),
            Err(e) => println!("ERR  {} -> {:?}", u, e.to_string().chars().take(70).collect::<String>()),
        }
    }
}
