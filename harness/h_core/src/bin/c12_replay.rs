//! C12, spec -> code.  Reads the cases TLC printed from MC_Zip321 (layer-1 URIs with the verdict of
//! Zip321!Verdict and the payments of Zip321!Denote), turns each into text on each of the three networks
//! (address slots are filled with real addresses of the stated kind; everything else is copied byte for
//! byte from the case), gives it to `TransactionRequest::from_uri` and compares:
//!   verdict "valid"   -> accepted, payments() equal to the denoted payments, to_uri() parses back equal
//!   verdict "invalid" -> rejected
//!   verdict "unspec"  -> no panic; when accepted, a "uri" event is written for TLC to judge RulesHold
//!
//! usage: c12_replay <cases.ndjson> <unspec_trace_out.ndjson> [net ...]
//! prints one JSON summary line (last line of stdout).
#[path = "../c12_common.rs"]
mod c12_common;

use std::collections::{BTreeMap, HashMap};

use c12_common::*;
use h_core::util::{NdjsonWriter, quiet_panics, read_ndjson, seed_from_env};
use serde_json::{Value, json};

fn slot_number(slot: &str) -> usize {
    if slot == "L" { 0 } else { slot[1..].parse::<usize>().expect("slot name") }
}

struct Concrete {
    uri: String,
    /// slot -> address id
    ids: HashMap<String, String>,
}

fn concretise(u: &Value, net: &str, tab: &AddrTable) -> Concrete {
    let mut ids = HashMap::new();
    let mut addr_text = |slot: &str, kd: &str| -> String {
        let t = tab.pick(net, kd, slot_number(slot)).to_string();
        ids.insert(slot.to_string(), tab.lookup(&t).0);
        t
    };
    let mut b: Vec<u8> = json_bytes(&u["st"]);
    if u["lead"]["t"] == "addr" {
        b.extend(addr_text(u["lead"]["a"].as_str().unwrap(), u["lead"]["kd"].as_str().unwrap()).bytes());
    }
    let ps = u["ps"].as_array().unwrap();
    for (j, p) in ps.iter().enumerate() {
        b.push(if j == 0 { b'?' } else { b'&' });
        b.extend(json_bytes(&p["nm"]));
        if p["dot"].as_bool().unwrap() {
            b.push(b'.');
            b.extend(json_bytes(&p["ix"]));
        }
        if p["eq"].as_bool().unwrap() {
            b.push(b'=');
            let kd = p["kd"].as_str().unwrap();
            if !kd.is_empty() {
                b.extend(addr_text(p["a"].as_str().unwrap(), kd).bytes());
            } else {
                b.extend(json_bytes(&p["raw"]));
            }
        }
    }
    Concrete { uri: String::from_utf8(b).expect("the case is not UTF-8 text"), ids }
}

/// the case's layer-1 record with slots replaced by address ids (what the scanner would produce)
fn with_ids(u: &Value, ids: &HashMap<String, String>) -> Value {
    let mut u = u.clone();
    if u["lead"]["t"] == "addr" {
        let s = u["lead"]["a"].as_str().unwrap().to_string();
        u["lead"]["a"] = json!(ids[&s]);
    }
    for p in u["ps"].as_array_mut().unwrap() {
        let s = p["a"].as_str().unwrap().to_string();
        if !s.is_empty() {
            p["a"] = json!(ids[&s]);
        }
    }
    u
}

fn main() {
    quiet_panics();
    let args: Vec<String> = std::env::args().collect();
    let cases = read_ndjson(&args[1]);
    let mut extra = NdjsonWriter::create(&args[2]);
    let nets: Vec<String> =
        if args.len() > 3 { args[3..].to_vec() } else { NETS.iter().map(|(n, _)| n.to_string()).collect() };
    let tab = AddrTable::new(seed_from_env());
    let mut mismatches: Vec<Value> = vec![];
    let mut n_mismatch = 0usize;
    let (mut executed, mut accepted, mut rejected) = (0usize, 0usize, 0usize);
    let mut by_verdict: BTreeMap<String, usize> = BTreeMap::new();
    let mut by_why: BTreeMap<String, usize> = BTreeMap::new();
    let mut distinct_uris = std::collections::HashSet::new();
    let mut samples: Vec<Value> = vec![];
    let mut last_reported_case = usize::MAX;
    for (case_no, case) in cases.iter().enumerate() {
        let v = case["v"].as_str().unwrap();
        for net in &nets {
            let c = concretise(&case["u"], net, &tab);
            let (res, pays, back) = run_from_uri(&c.uri, &tab);
            executed += 1;
            distinct_uris.insert(c.uri.clone());
            *by_verdict.entry(v.to_string()).or_default() += 1;
            if v != "valid" {
                *by_why.entry(case["why"].as_str().unwrap().to_string()).or_default() += 1;
            }
            match res {
                "ok" => accepted += 1,
                _ => rejected += 1,
            }
            let mut problem: Option<String> = None;
            if res == "panic" {
                problem = Some("from_uri (or an accessor) panicked".into());
            } else if v == "valid" {
                if res != "ok" {
                    problem = Some("a valid URI was rejected".into());
                } else {
                    let mut exp: Vec<Value> = case["pays"].as_array().unwrap().clone();
                    for p in exp.iter_mut() {
                        let s = p["a"].as_str().unwrap().to_string();
                        p["a"] = json!(c.ids[&s]);
                    }
                    if normalise_pays(&exp) != normalise_pays(&pays) {
                        problem = Some("the parsed payments differ from what the URI means".into());
                    } else if back != "eq" {
                        problem = Some(format!("to_uri() of the parsed request does not parse back to it ({back})"));
                    }
                }
            } else if v == "invalid" {
                if res == "ok" {
                    problem = Some(format!("an invalid URI was accepted (rule: {})", case["why"].as_str().unwrap()));
                }
            } else if res == "ok" {
                // unspecified input accepted: TLC judges RulesHold on what came back
                extra.emit(&json!({"ev": "uri", "u": with_ids(&case["u"], &c.ids), "res": res, "pays": pays, "back": back,
                                   "in": {"uri": c.uri}}));
            }
            if let Some(why) = problem {
                n_mismatch += 1;
                // one report per case (the networks usually agree), at most 20
                if mismatches.len() < 20 && last_reported_case != case_no {
                    last_reported_case = case_no;
                    mismatches.push(json!({"case": case, "net": net, "uri": c.uri, "problem": why,
                                            "observed": {"res": res, "pays": pays, "back": back}}));
                }
            } else if samples.len() < 4 && executed % 997 == 1 {
                samples.push(json!({"uri": c.uri, "verdict": v, "why": case["why"], "code": res}));
            }
        }
    }
    let n_extra = extra.finish();
    println!(
        "{}",
        json!({"cases": cases.len(), "executed": executed, "accepted": accepted, "rejected": rejected,
               "distinct_uris": distinct_uris.len(), "by_verdict": by_verdict, "by_why": by_why,
               "unspec_accepted": n_extra, "n_mismatch": n_mismatch, "mismatches": mismatches, "samples": samples})
    );
}
