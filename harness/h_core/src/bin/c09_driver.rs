//! C09 driver (code -> spec): evaluates every public constructor, parser, conversion and arithmetic
//! operator of `Zatoshis` / `ZatBalance` (components/zcash_protocol/src/value.rs) and logs one ndjson
//! record per call: `{op, a: [decimal numerals | "none"], b: [input bytes], r: [outcome], ob: [output bytes]}`.
//! Nothing is judged here: the records are validated by TLC against spec/Amounts (Trace_Amounts.tla).
//!
//!   c09_driver gen  <lattice.json> <out.ndjson> <random-per-op>   lattice (all tuples) + VERIF_SEED-seeded random
//!   c09_driver eval <in.ndjson>    <out.ndjson>                   re-evaluate the calls of a recorded trace (replay)
//!
//! `lattice.json` = {"sigs": {op: {"sig": [type..], ..}}, "lat": {type: [value..]}} as printed by TLC from the
//! specification (Emit_Amounts.tla), so the boundary lattice has a single source.
//! Every call into the code under test runs under `guarded`; a panic is the outcome "panic".
use std::collections::BTreeMap;
use std::num::NonZeroU64;

use h_core::util::{guarded, quiet_panics, read_ndjson, seed_from_env, NdjsonWriter};
use rand::{Rng, RngCore, SeedableRng};
use rand_chacha::ChaCha8Rng;
use serde_json::{json, Value};
use zcash_protocol::value::{BalanceError, ZatBalance, Zatoshis};

const M: i128 = 2_100_000_000_000_000; // used only to *choose* interesting random inputs, never to judge
const REP_MAX: i128 = 20_000; // longest long sum generated (the specification's REPMAX; the check validates the inputs)

struct Out {
    r: Vec<String>,
    ob: Vec<u8>,
}

fn run(f: impl FnOnce() -> Vec<String>) -> Out {
    Out { r: guarded(f).unwrap_or_else(|_| vec!["panic".to_string()]), ob: vec![] }
}

fn run_bytes(f: impl FnOnce() -> Vec<u8>) -> Out {
    match guarded(f) {
        Ok(b) => Out { r: vec!["bytes".to_string()], ob: b },
        Err(_) => Out { r: vec!["panic".to_string()], ob: vec![] },
    }
}

// ---- observation of results through the public accessors
fn show_z(z: Zatoshis) -> String {
    z.into_u64().to_string()
}
fn show_b(b: ZatBalance) -> String {
    i64::from(b).to_string()
}
fn kind(e: BalanceError) -> String {
    match e {
        BalanceError::Overflow => "err:overflow".to_string(),
        BalanceError::Underflow => "err:underflow".to_string(),
    }
}
fn res_z(r: Result<Zatoshis, BalanceError>) -> Vec<String> {
    vec![r.map(show_z).unwrap_or_else(kind)]
}
fn res_b(r: Result<ZatBalance, BalanceError>) -> Vec<String> {
    vec![r.map(show_b).unwrap_or_else(kind)]
}
fn opt_z(r: Option<Zatoshis>) -> Vec<String> {
    vec![r.map(show_z).unwrap_or_else(|| "none".to_string())]
}
fn opt_b(r: Option<ZatBalance>) -> Vec<String> {
    vec![r.map(show_b).unwrap_or_else(|| "none".to_string())]
}

// ---- arguments (harness side: a malformed argument is a harness error, i.e. a tool error)
fn p_i64(s: &str) -> i64 {
    s.parse().unwrap_or_else(|_| panic!("harness: not an i64: {s}"))
}
fn p_u64(s: &str) -> u64 {
    s.parse().unwrap_or_else(|_| panic!("harness: not a u64: {s}"))
}
fn p_usize(s: &str) -> usize {
    usize::try_from(p_u64(s)).expect("harness: 64-bit usize assumed")
}
fn p_nz(s: &str) -> NonZeroU64 {
    NonZeroU64::new(p_u64(s)).expect("harness: zero divisor")
}
/// Number of equal summands of a long sum. The bound is a harness-side guard against a malformed
/// argument (memory), far above the specification's REPMAX.
fn p_rep(s: &str) -> usize {
    let n = p_usize(s);
    assert!(n <= 1_000_000, "harness: repetition count {n} too large");
    n
}
fn bytes8(b: &[u8]) -> [u8; 8] {
    <[u8; 8]>::try_from(b).expect("harness: 8 bytes expected")
}
/// Operands are built with the plain checked constructors; `None` = the constructor refused or
/// panicked (that call is itself logged and judged as `Z.from_u64` / `B.from_i64`), the dependent
/// call is then skipped.
fn mk_z(s: &str) -> Option<Zatoshis> {
    let x = p_u64(s);
    guarded(|| Zatoshis::from_u64(x)).ok().and_then(|r| r.ok())
}
fn mk_b(s: &str) -> Option<ZatBalance> {
    let x = p_i64(s);
    guarded(|| ZatBalance::from_i64(x)).ok().and_then(|r| r.ok())
}
fn mk_oz(s: &str) -> Option<Option<Zatoshis>> {
    if s == "none" { Some(None) } else { mk_z(s).map(Some) }
}
fn mk_ob(s: &str) -> Option<Option<ZatBalance>> {
    if s == "none" { Some(None) } else { mk_b(s).map(Some) }
}
fn mk_zs(a: &[String]) -> Option<Vec<Zatoshis>> {
    a.iter().map(|s| mk_z(s)).collect()
}
fn mk_bs(a: &[String]) -> Option<Vec<ZatBalance>> {
    a.iter().map(|s| mk_b(s)).collect()
}

/// One call of the public API. `None`: an operand could not be constructed (call skipped).
fn eval(op: &str, a: &[String], b: &[u8]) -> Option<Out> {
    let a0 = || a[0].as_str();
    let a1 = || a[1].as_str();
    Some(match op {
        // ------------------------------------------------------------------ ZatBalance
        "B.zero" => run(|| vec![show_b(ZatBalance::zero())]),
        "B.const_from_i64" => { let x = p_i64(a0()); run(move || vec![show_b(ZatBalance::const_from_i64(x))]) }
        "B.const_from_u64" => { let x = p_u64(a0()); run(move || vec![show_b(ZatBalance::const_from_u64(x))]) }
        "B.from_i64" => { let x = p_i64(a0()); run(move || res_b(ZatBalance::from_i64(x))) }
        "B.try_from_i64" => { let x = p_i64(a0()); run(move || res_b(ZatBalance::try_from(x))) }
        "B.from_nonnegative_i64" => { let x = p_i64(a0()); run(move || res_b(ZatBalance::from_nonnegative_i64(x))) }
        "B.from_u64" => { let x = p_u64(a0()); run(move || res_b(ZatBalance::from_u64(x))) }
        "B.from_i64_le_bytes" => { let x = bytes8(b); run(move || res_b(ZatBalance::from_i64_le_bytes(x))) }
        "B.from_nonnegative_i64_le_bytes" => { let x = bytes8(b); run(move || res_b(ZatBalance::from_nonnegative_i64_le_bytes(x))) }
        "B.from_u64_le_bytes" => { let x = bytes8(b); run(move || res_b(ZatBalance::from_u64_le_bytes(x))) }
        "B.to_i64_le_bytes" => { let v = mk_b(a0())?; run_bytes(move || v.to_i64_le_bytes().to_vec()) }
        "B.into_i64" => { let v = mk_b(a0())?; run(move || vec![i64::from(v).to_string()]) }
        "B.ref_into_i64" => { let v = mk_b(a0())?; run(move || vec![i64::from(&v).to_string()]) }
        "B.try_into_u64" => { let v = mk_b(a0())?; run(move || vec![u64::try_from(v).map(|x| x.to_string()).unwrap_or_else(kind)]) }
        "B.add" => { let (x, y) = (mk_b(a0())?, mk_b(a1())?); run(move || opt_b(x + y)) }
        "B.oadd" => { let (x, y) = (mk_ob(a0())?, mk_b(a1())?); run(move || opt_b(x + y)) }
        "B.sub" => { let (x, y) = (mk_b(a0())?, mk_b(a1())?); run(move || opt_b(x - y)) }
        "B.osub" => { let (x, y) = (mk_ob(a0())?, mk_b(a1())?); run(move || opt_b(x - y)) }
        "B.add_z" => { let (x, y) = (mk_b(a0())?, mk_z(a1())?); run(move || opt_b(x + y)) }
        "B.oadd_z" => { let (x, y) = (mk_ob(a0())?, mk_z(a1())?); run(move || opt_b(x + y)) }
        "B.sub_z" => { let (x, y) = (mk_b(a0())?, mk_z(a1())?); run(move || opt_b(x - y)) }
        "B.osub_z" => { let (x, y) = (mk_ob(a0())?, mk_z(a1())?); run(move || opt_b(x - y)) }
        "B.neg" => { let v = mk_b(a0())?; run(move || vec![show_b(-v)]) }
        "B.mul_usize" => { let (x, k) = (mk_b(a0())?, p_usize(a1())); run(move || opt_b(x * k)) }
        "B.sum" => { let v = mk_bs(a)?; run(move || opt_b(ZatBalance::sum(v))) }
        "B.isum" => { let v = mk_bs(a)?; run(move || opt_b(v.into_iter().sum::<Option<ZatBalance>>())) }
        "B.isum_ref" => { let v = mk_bs(a)?; run(move || opt_b(v.iter().sum::<Option<ZatBalance>>())) }
        // long sums: the iterator is materialised (n copies of x [, then y]) and handed to the same public
        // API as above
        "B.sum_rep" => { let v = vec![mk_b(a0())?; p_rep(a1())]; run(move || opt_b(ZatBalance::sum(v))) }
        "B.isum_rep" => { let v = vec![mk_b(a0())?; p_rep(a1())]; run(move || opt_b(v.into_iter().sum::<Option<ZatBalance>>())) }
        "B.isum_ref_rep" => { let v = vec![mk_b(a0())?; p_rep(a1())]; run(move || opt_b(v.iter().sum::<Option<ZatBalance>>())) }
        "B.sum_rep_then" => { let mut v = vec![mk_b(a0())?; p_rep(a1())]; v.push(mk_b(&a[2])?); run(move || opt_b(ZatBalance::sum(v))) }
        "B.isum_rep_then" => { let mut v = vec![mk_b(a0())?; p_rep(a1())]; v.push(mk_b(&a[2])?); run(move || opt_b(v.into_iter().sum::<Option<ZatBalance>>())) }
        "B.isum_ref_rep_then" => { let mut v = vec![mk_b(a0())?; p_rep(a1())]; v.push(mk_b(&a[2])?); run(move || opt_b(v.iter().sum::<Option<ZatBalance>>())) }
        // ------------------------------------------------------------------ Zatoshis
        "Z.zero" => run(|| vec![show_z(Zatoshis::ZERO)]),
        "Z.from_u64" => { let x = p_u64(a0()); run(move || res_z(Zatoshis::from_u64(x))) }
        "Z.try_from_u64" => { let x = p_u64(a0()); run(move || res_z(Zatoshis::try_from(x))) }
        "Z.const_from_u64" => { let x = p_u64(a0()); run(move || vec![show_z(Zatoshis::const_from_u64(x))]) }
        "Z.zats" => { let x = p_u64(a0()); run(move || vec![show_z(zcash_protocol::value::testing::zats(x))]) }
        "Z.from_nonnegative_i64" => { let x = p_i64(a0()); run(move || res_z(Zatoshis::from_nonnegative_i64(x))) }
        "Z.try_from_balance" => { let v = mk_b(a0())?; run(move || res_z(Zatoshis::try_from(v))) }
        "Z.from_u64_le_bytes" => { let x = bytes8(b); run(move || res_z(Zatoshis::from_u64_le_bytes(x))) }
        "Z.from_nonnegative_i64_le_bytes" => { let x = bytes8(b); run(move || res_z(Zatoshis::from_nonnegative_i64_le_bytes(x))) }
        "Z.read" | "Z.read_n" => {
            if op == "Z.read" { bytes8(b); }
            let x = b.to_vec();
            run(move || vec![Zatoshis::read(&x[..]).map(show_z).unwrap_or_else(|_| "err:io".to_string())])
        }
        "Z.to_i64_le_bytes" => { let v = mk_z(a0())?; run_bytes(move || v.to_i64_le_bytes().to_vec()) }
        "Z.to_u64_le_bytes" => { let v = mk_z(a0())?; run_bytes(move || v.to_u64_le_bytes().to_vec()) }
        "Z.write" => {
            let v = mk_z(a0())?;
            match guarded(move || { let mut w: Vec<u8> = Vec::new(); v.write(&mut w).map(|_| w) }) {
                Ok(Ok(w)) => Out { r: vec!["bytes".to_string()], ob: w },
                Ok(Err(_)) => Out { r: vec!["err:io".to_string()], ob: vec![] },
                Err(_) => Out { r: vec!["panic".to_string()], ob: vec![] },
            }
        }
        "Z.into_u64" => { let v = mk_z(a0())?; run(move || vec![v.into_u64().to_string()]) }
        "Z.u64_from" => { let v = mk_z(a0())?; run(move || vec![u64::from(v).to_string()]) }
        "Z.into_balance" => { let v = mk_z(a0())?; run(move || vec![show_b(ZatBalance::from(v))]) }
        "Z.ref_into_balance" => { let v = mk_z(a0())?; run(move || vec![show_b(ZatBalance::from(&v))]) }
        "Z.add" => { let (x, y) = (mk_z(a0())?, mk_z(a1())?); run(move || opt_z(x + y)) }
        "Z.oadd" => { let (x, y) = (mk_oz(a0())?, mk_z(a1())?); run(move || opt_z(x + y)) }
        "Z.sub" => { let (x, y) = (mk_z(a0())?, mk_z(a1())?); run(move || opt_z(x - y)) }
        "Z.osub" => { let (x, y) = (mk_oz(a0())?, mk_z(a1())?); run(move || opt_z(x - y)) }
        "Z.mul_u64" => { let (x, k) = (mk_z(a0())?, p_u64(a1())); run(move || opt_z(x * k)) }
        "Z.mul_usize" => { let (x, k) = (mk_z(a0())?, p_usize(a1())); run(move || opt_z(x * k)) }
        "Z.isum" => { let v = mk_zs(a)?; run(move || opt_z(v.into_iter().sum::<Option<Zatoshis>>())) }
        "Z.isum_ref" => { let v = mk_zs(a)?; run(move || opt_z(v.iter().sum::<Option<Zatoshis>>())) }
        "Z.isum_rep" => { let v = vec![mk_z(a0())?; p_rep(a1())]; run(move || opt_z(v.into_iter().sum::<Option<Zatoshis>>())) }
        "Z.isum_ref_rep" => { let v = vec![mk_z(a0())?; p_rep(a1())]; run(move || opt_z(v.iter().sum::<Option<Zatoshis>>())) }
        "Z.div" => { let (x, d) = (mk_z(a0())?, p_nz(a1())); run(move || vec![show_z(x / d)]) }
        "Z.div_with_remainder" => {
            let (x, d) = (mk_z(a0())?, p_nz(a1()));
            run(move || { let qr = x.div_with_remainder(d); vec![show_z(*qr.quotient()), show_z(*qr.remainder())] })
        }
        "Z.neg" => { let v = mk_z(a0())?; run(move || vec![show_b(-v)]) }
        other => panic!("harness: unknown operation {other}"),
    })
}

// ------------------------------------------------------------------------------------------------
// input generation

struct Gen {
    rng: ChaCha8Rng,
}

impl Gen {
    fn small(&mut self) -> i128 {
        self.rng.gen_range(-3..=3)
    }
    fn clamp(v: i128, lo: i128, hi: i128) -> i128 {
        v.max(lo).min(hi)
    }
    fn i64v(&mut self) -> i128 {
        let v = match self.rng.gen_range(0..8) {
            0 => (self.rng.next_u64() as i64) as i128,
            1 => self.rng.gen_range(-M..=M),
            2 => M + self.small(),
            3 => -M + self.small(),
            4 => self.rng.gen_range(-20..=20),
            5 => (if self.rng.gen_bool(0.5) { i64::MAX as i128 } else { i64::MIN as i128 }) + self.small(),
            6 => (if self.rng.gen_bool(0.5) { 2 * M } else { -2 * M }) + self.small(),
            _ => self.rng.gen_range(-(1i128 << 56)..=(1i128 << 56)),
        };
        Self::clamp(v, i64::MIN as i128, i64::MAX as i128)
    }
    fn u64v(&mut self) -> i128 {
        let v = match self.rng.gen_range(0..8) {
            0 => self.rng.next_u64() as i128,
            1 => self.rng.gen_range(0..=M),
            2 => M + self.small(),
            3 => self.rng.gen_range(0..=20),
            4 => u64::MAX as i128 + self.small(),
            5 => i64::MAX as i128 + self.small(),
            6 => 2 * M + self.small(),
            _ => self.rng.gen_range(0..=(1i128 << 56)),
        };
        Self::clamp(v, 0, u64::MAX as i128)
    }
    /// 64-bit patterns: everything `u64v` gives plus the two's complement patterns of `i64v`.
    fn patv(&mut self) -> i128 {
        if self.rng.gen_bool(0.5) { self.u64v() } else { (self.i64v() as i64 as u64) as i128 }
    }
    fn zv(&mut self) -> i128 {
        let v = match self.rng.gen_range(0..6) {
            0 | 1 => self.rng.gen_range(0..=M),
            2 => self.rng.gen_range(0..=10),
            3 => M - self.rng.gen_range(0..=10),
            4 => M / 2 + self.small(),
            _ => self.rng.gen_range(0..=1_000_000_000),
        };
        Self::clamp(v, 0, M)
    }
    fn bv(&mut self) -> i128 {
        let v = self.zv();
        if self.rng.gen_bool(0.5) { v } else { -v }
    }
    /// second operand of +/-: half of the time chosen so that the exact result is next to a bound
    fn partner(&mut self, a: i128, lo: i128, hi: i128) -> i128 {
        if self.rng.gen_bool(0.5) {
            return if lo < 0 { self.bv() } else { self.zv() };
        }
        let bound = match self.rng.gen_range(0..3) { 0 => M, 1 => -M, _ => 0 };
        let v = if self.rng.gen_bool(0.5) { bound - a } else { a - bound } + self.small();
        if v < lo || v > hi { if lo < 0 { self.bv() } else { self.zv() } } else { v }
    }
    /// multiplier for the amount v: small, huge, next to MAX_MONEY / v, or a wrap target
    /// (v * k = t mod 2^64 with t a valid amount, although the exact product is far outside)
    fn mulv(&mut self, v: i128, signed: bool) -> i128 {
        let av = v.unsigned_abs();
        let k: i128 = match self.rng.gen_range(0..7) {
            0 => self.rng.gen_range(0..=12),
            1 => self.rng.next_u64() as i128,
            2 | 3 if av != 0 => (M as u128 / av) as i128 + self.rng.gen_range(-1..=2),
            4 | 5 if av % 2 == 1 => {
                // modular inverse of av mod 2^64 (Newton), then k = t * inv
                let x = av as u64;
                let mut inv: u64 = x;
                for _ in 0..6 { inv = inv.wrapping_mul(2u64.wrapping_sub(x.wrapping_mul(inv))); }
                let t = self.rng.gen_range(0..=M) as u64;
                let t = if signed && self.rng.gen_bool(0.5) { (t as i64).wrapping_neg() as u64 } else { t };
                let mut k = t.wrapping_mul(inv);
                if signed && k > i64::MAX as u64 { k = k.wrapping_neg(); } // then v*k = -t mod 2^64: still a valid balance
                k as i128
            }
            _ => self.rng.gen_range(0..=(1i128 << 40)),
        };
        Self::clamp(k, 0, u64::MAX as i128)
    }
    fn divv(&mut self, v: i128) -> i128 {
        let d = match self.rng.gen_range(0..6) {
            0 => self.rng.gen_range(1..=12),
            1 => self.rng.next_u64() as i128,
            2 => v + self.small(),
            3 => M + self.small(),
            4 => self.rng.gen_range(1..=M),
            _ => self.rng.gen_range(1..=1_000_000_000),
        };
        Self::clamp(d, 1, u64::MAX as i128)
    }
    fn seq(&mut self, signed: bool) -> Vec<i128> {
        let n = self.rng.gen_range(0..=8usize);
        let mode = self.rng.gen_range(0..3);
        let mut v = Vec::new();
        let mut acc: i128 = 0;
        for i in 0..n {
            let mut x = match mode {
                0 => if signed { self.bv() } else { self.zv() },
                1 => self.rng.gen_range(0..=(2 * M / (n as i128))) * if signed && self.rng.gen_range(0..4) == 0 { -1 } else { 1 },
                _ => self.rng.gen_range(0..=1_000_000),
            };
            if mode == 2 && i + 1 == n {
                // land the total next to a bound
                let bound = if signed && self.rng.gen_bool(0.5) { -M } else { M };
                x = bound - acc + self.small();
            }
            let lo = if signed { -M } else { 0 };
            x = Self::clamp(x, lo, M);
            acc += x;
            v.push(x);
        }
        v
    }

    /// summand of a long sum: mostly large, so that a few thousand copies carry the exact total past the
    /// machine words
    fn repval(&mut self, signed: bool) -> i128 {
        let v = match self.rng.gen_range(0..8) {
            0 => M,
            1 => M - 1,
            2 => M - self.rng.gen_range(0..=1_000_000),
            3 => self.rng.gen_range(M / 2..=M),
            4 => self.rng.gen_range(((1i128 << 64) / REP_MAX)..=M), // at least 2^64 / REP_MAX: the u64 boundary is reachable
            5 => self.rng.gen_range(((1i128 << 63) / REP_MAX)..=M),
            _ => self.zv(),
        };
        let v = Self::clamp(v, 0, M);
        if signed && self.rng.gen_bool(0.5) { -v } else { v }
    }
    /// length of a long sum of copies of v: short, anywhere, next to the lengths at which the exact total
    /// crosses MAX_MONEY / i64::MAX / u64::MAX / i64::MAX + 2^64 / 2 * 2^64, or a *wrap target* (the exact total is
    /// outside the machine word but its residue modulo 2^64 is a valid amount)
    fn repv(&mut self, v: i128, signed: bool) -> i128 {
        let av = v.abs();
        let near = |g: &mut Self, bound: i128| bound / av + g.rng.gen_range(-1..=2);
        let n = match self.rng.gen_range(0..10) {
            0 => self.rng.gen_range(0..=12),
            1 => (i64::MAX as i128) / M + self.rng.gen_range(-2..=3),
            2 => (u64::MAX as i128) / M + self.rng.gen_range(-2..=3),
            3 if av != 0 => near(self, M),
            4 if av != 0 => near(self, i64::MAX as i128),
            5 if av != 0 => near(self, u64::MAX as i128),
            6 if av != 0 => { let b = if self.rng.gen_bool(0.5) { 3i128 << 63 } else { 1i128 << 65 }; near(self, b) }
            7 | 8 if av != 0 => {
                let word = if signed && self.rng.gen_bool(0.5) { i64::MAX as i128 } else { u64::MAX as i128 };
                let hits: Vec<i128> = (1..=REP_MAX).filter(|n| {
                    let t = n * av;
                    let w = (t as u64) as i128; // residue modulo 2^64
                    t > word && (w <= M || (signed && (1i128 << 64) - w <= M))
                }).collect();
                if hits.is_empty() { self.rng.gen_range(0..=REP_MAX) } else { hits[self.rng.gen_range(0..hits.len())] }
            }
            _ => self.rng.gen_range(0..=REP_MAX),
        };
        Self::clamp(n, 0, REP_MAX)
    }

    /// random argument tuple for `sig`; returns (a, b)
    fn tuple(&mut self, sig: &[String]) -> (Vec<String>, Vec<u8>) {
        let s = |v: i128| v.to_string();
        let t: Vec<&str> = sig.iter().map(|x| x.as_str()).collect();
        match t.as_slice() {
            [] => (vec![], vec![]),
            ["i64"] => (vec![s(self.i64v())], vec![]),
            ["u64"] => (vec![s(self.u64v())], vec![]),
            ["pat"] => { let p = self.patv(); (vec![s(p)], (p as u64).to_le_bytes().to_vec()) }
            ["Z"] => (vec![s(self.zv())], vec![]),
            ["B"] => (vec![s(self.bv())], vec![]),
            ["seqZ"] => (self.seq(false).into_iter().map(s).collect(), vec![]),
            ["seqB"] => (self.seq(true).into_iter().map(s).collect(), vec![]),
            ["raw"] => {
                let n = match self.rng.gen_range(0..4) { 0 => 8, 1 => self.rng.gen_range(0..8), _ => self.rng.gen_range(0..=12) };
                let mut b: Vec<u8> = (0..n).map(|_| self.rng.next_u32() as u8).collect();
                if n >= 8 && self.rng.gen_bool(0.8) {
                    let p = if self.rng.gen_bool(0.5) { self.zv() as u64 } else { self.patv() as u64 };
                    b[..8].copy_from_slice(&p.to_le_bytes());
                }
                (vec![], b)
            }
            [x, "rep"] => {
                let signed = *x == "B";
                let v = self.repval(signed);
                let n = self.repv(v, signed);
                (vec![s(v), s(n)], vec![])
            }
            ["B", "rep", "B"] => {
                // n copies of v, then w; half of the time w pulls the total back next to a bound
                let v = if self.rng.gen_bool(0.5) { self.repval(true) } else { self.bv() };
                let n = self.repv(v, true);
                let w = if self.rng.gen_bool(0.5) { self.bv() } else {
                    let bound = match self.rng.gen_range(0..3) { 0 => M, 1 => -M, _ => 0 };
                    let w = bound - n * v + self.small();
                    if (-M..=M).contains(&w) { w } else { self.bv() }
                };
                (vec![s(v), s(n), s(w)], vec![])
            }
            [x, y] => {
                let (lo_x, absent) = match *x { "Z" => (0, false), "B" => (-M, false), "oZ" => (0, self.rng.gen_range(0..10) == 0), "oB" => (-M, self.rng.gen_range(0..10) == 0), o => panic!("harness: type {o}") };
                let a = if lo_x < 0 { self.bv() } else { self.zv() };
                let b = match *y {
                    "Z" => self.partner(a, 0, M),
                    "B" => self.partner(a, -M, M),
                    "mul" => self.mulv(a, lo_x < 0),
                    "nz64" => self.divv(a),
                    o => panic!("harness: type {o}"),
                };
                (vec![if absent { "none".to_string() } else { s(a) }, s(b)], vec![])
            }
            o => panic!("harness: signature {o:?}"),
        }
    }
}

fn strings(v: &Value) -> Vec<String> {
    v.as_array().expect("array").iter().map(|x| x.as_str().expect("string").to_string()).collect()
}

fn emit(w: &mut NdjsonWriter, counts: &mut BTreeMap<String, usize>, skipped: &mut usize, op: &str, a: Vec<String>, b: Vec<u8>) {
    match eval(op, &a, &b) {
        Some(out) => {
            w.emit(&json!({"op": op, "a": a, "b": b, "r": out.r, "ob": out.ob}));
            *counts.entry(op.to_string()).or_insert(0) += 1;
        }
        None => *skipped += 1,
    }
}

fn main() {
    quiet_panics();
    let args: Vec<String> = std::env::args().collect();
    if args.len() < 4 {
        eprintln!("usage: c09_driver gen <lattice.json> <out.ndjson> <random-per-op> | eval <in.ndjson> <out.ndjson>");
        std::process::exit(2);
    }
    let mut w = NdjsonWriter::create(&args[3]);
    let mut counts: BTreeMap<String, usize> = BTreeMap::new();
    let mut skipped = 0usize;
    let mut lattice_n = 0usize;
    match args[1].as_str() {
        "gen" => {
            let n_random: usize = args.get(4).map(|s| s.parse().expect("count")).unwrap_or(100);
            let spec: Value = serde_json::from_str(&std::fs::read_to_string(&args[2]).expect("read lattice")).expect("lattice json");
            let sigs: BTreeMap<String, Vec<String>> = spec["sigs"].as_object().expect("sigs").iter()
                .map(|(k, v)| (k.clone(), strings(&v["sig"]))).collect();
            let lat = spec["lat"].as_object().expect("lat");
            // ---- lattice: every tuple of the product of the argument lattices
            for (op, sig) in &sigs {
                let cols: Vec<Vec<Value>> = sig.iter().map(|t| {
                    let mut c = lat.get(t).unwrap_or_else(|| panic!("harness: no lattice for {t}")).as_array().expect("array").clone();
                    c.sort_by_key(|v| v.to_string());
                    c
                }).collect();
                let mut idx = vec![0usize; cols.len()];
                if cols.iter().any(|c| c.is_empty()) { continue; }
                loop {
                    let (a, b): (Vec<String>, Vec<u8>) = match sig.first().map(|s| s.as_str()) {
                        Some("seqZ") | Some("seqB") => (strings(&cols[0][idx[0]]), vec![]),
                        Some("pat") => {
                            let p = cols[0][idx[0]].as_str().expect("string").to_string();
                            let bytes = p_u64(&p).to_le_bytes().to_vec();
                            (vec![p], bytes)
                        }
                        _ => (idx.iter().enumerate().map(|(i, &j)| cols[i][j].as_str().expect("string").to_string()).collect(), vec![]),
                    };
                    emit(&mut w, &mut counts, &mut skipped, op, a, b);
                    lattice_n += 1;
                    // next tuple
                    let mut i = 0;
                    loop {
                        if i == idx.len() { break; }
                        idx[i] += 1;
                        if idx[i] < cols[i].len() { break; }
                        idx[i] = 0;
                        i += 1;
                    }
                    if i == idx.len() { break; }
                }
            }
            // ---- seeded random tuples
            let mut g = Gen { rng: ChaCha8Rng::seed_from_u64(seed_from_env() ^ 0xC09) };
            for (op, sig) in &sigs {
                if sig.is_empty() { continue; }
                for _ in 0..n_random {
                    let (a, b) = g.tuple(sig);
                    emit(&mut w, &mut counts, &mut skipped, op, a, b);
                }
            }
        }
        "eval" => {
            for rec in read_ndjson(&args[2]) {
                let op = rec["op"].as_str().expect("op").to_string();
                if op == "end" { continue; }
                let a = strings(&rec["a"]);
                let b: Vec<u8> = rec["b"].as_array().expect("b").iter().map(|x| x.as_u64().expect("byte") as u8).collect();
                emit(&mut w, &mut counts, &mut skipped, &op, a, b);
            }
        }
        other => panic!("harness: unknown mode {other}"),
    }
    let total: usize = counts.values().sum();
    w.emit(&json!({"op": "end", "a": [total.to_string()], "b": [], "r": [], "ob": []}));
    w.finish();
    println!("{}", json!({"records": total, "lattice_tuples": lattice_n, "skipped": skipped, "per_op": counts}));
}
