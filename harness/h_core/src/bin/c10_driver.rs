//! C10 code -> spec driver: exercises zcash_address / f4jumble on seeded values, mutated strings and
//! byte-level mutated unified containers, and writes one ndjson record per observation for
//! spec/Address/Trace_Address.tla (record formats are documented there).
//!
//!   c10_driver <out.ndjson> <n_values_per_net> <n_containers> <n_fuzz> <big: 0|1>
//!
//! The abstraction of every input is made by the harness' OWN code (c10_common.rs: constants, raw
//! decoder, F4Jumble reference), never by the crates under test.  All randomness derives from
//! VERIF_SEED; the same arguments and seed give the same trace (that is what a replay relies on).
//! stdout: one JSON summary object (last line).
#[path = "../c10_common.rs"]
mod common;

use common::*;
use h_core::util::{NdjsonWriter, seed_from_env};
use proptest::strategy::{Strategy, ValueTree};
use proptest::test_runner::{Config, RngAlgorithm, TestRng, TestRunner};
use rand::seq::SliceRandom;
use rand::{Rng, RngCore};
use rand_chacha::ChaCha8Rng;
use serde_json::{Value, json};
use zcash_address::unified::{self, Encoding};
use zcash_address::{ConversionError, ZcashAddress};

fn note(s: &str) -> Value {
    // the concrete string, for the human reading a report (TLC ignores it): ASCII only, Rust escapes for
    // everything else (so that no tool downstream sees a line separator), long ones cut
    let e: String = s.chars().take(700).flat_map(|c| c.escape_default()).collect();
    if s.chars().count() <= 700 { json!(e) } else { json!(format!("{}...({} chars)", e, s.chars().count())) }
}

// ------------------------------------------------------------------------------------------------
// observing

struct Seen {
    out: &'static str,
    kind: &'static str,
    net: &'static str,
    data: Vec<u8>,
    items: Option<Vec<RawItem>>,
    reenc: String,
}

fn parse(s: &str) -> Seen {
    match cut(|| ZcashAddress::try_from_encoded(s).map(|a| (observe(&a), a.encode()))) {
        Err(_) => Seen { out: "panic", kind: "-", net: "-", data: vec![], items: None, reenc: String::new() },
        Ok(Err(_)) => Seen { out: "reject", kind: "-", net: "-", data: vec![], items: None, reenc: String::new() },
        Ok(Ok((o, reenc))) => Seen { out: "accept", kind: o.kind, net: o.net, items: o.ua.as_ref().map(ua_items), data: o.data, reenc },
    }
}

// ------------------------------------------------------------------------------------------------
// A. values from the crate's proptest strategies:  value -> encode -> parse -> encode

struct ValueStr {
    kind: &'static str,
    net: &'static str,
    string: String,
    data: Vec<u8>,
    items: Option<Vec<RawItem>>,
}

fn values(seed: u64, n_per_net: usize, w: &mut NdjsonWriter, rng: &mut ChaCha8Rng) -> Vec<ValueStr> {
    let mut s32 = [0u8; 32];
    case_rng(seed, "proptest").fill_bytes(&mut s32);
    let mut runner = TestRunner::new_with_rng(Config::default(), TestRng::from_seed(RngAlgorithm::ChaCha, &s32));
    let mut out = vec![];
    for net in NETS {
        let strat = zcash_address::testing::arb_address(net_type(net));
        for _ in 0..n_per_net {
            let v = strat.new_tree(&mut runner).expect("harness: proptest value").current();
            let o = observe(&v);
            let items = o.ua.as_ref().map(ua_items);
            let enc = cut(|| v.encode());
            let (rec, string) = match enc {
                Err(_) => (json!({"op": "rt", "kind": o.kind, "net": o.net, "out": "panic", "okind": "-", "onet": "-", "same": false, "reenc": false, "x": ""}), None),
                Ok(s) => {
                    // the string must be the specified encoding (own constants, own raw encoding, reference jumble)
                    let own = match &items {
                        Some(its) => {
                            let hrp = hrp_of("ua", o.net);
                            container_string(hrp, &raw_encode(its, &padding_for(hrp)), "bech32m", rng).expect("harness: jumble domain")
                        }
                        None => match o.kind {
                            "sprout" | "p2pkh" | "p2sh" => b58check_encode(&b58_prefix(o.kind, o.net), &o.data),
                            "sapling" => bech_encode("bech32", hrp_of("sapling", o.net), &o.data, rng),
                            _ => bech_encode("bech32m", hrp_of("tex", o.net), &o.data, rng),
                        },
                    };
                    let p = parse(&s);
                    let same = p.out == "accept" && p.data == o.data && p.items == items && s == own;
                    let back_eq = cut(|| ZcashAddress::try_from_encoded(&s).ok() == Some(v.clone())).unwrap_or(false);
                    // value equality is promised except for the shared-prefix case, where kind / net are judged by TLC
                    let shared = o.net == "regtest" && matches!(o.kind, "sprout" | "p2pkh" | "p2sh");
                    let same = same && (shared || back_eq);
                    let out = if p.out == "accept" { "ok" } else { p.out };
                    (json!({"op": "rt", "kind": o.kind, "net": o.net, "out": out, "okind": p.kind, "onet": p.net,
                            "same": same, "reenc": p.reenc == s, "x": note(&s)}), Some(s))
                }
            };
            w.emit(&rec);
            if let Some(string) = string {
                out.push(ValueStr { kind: o.kind, net: o.net, string, data: o.data.clone(), items });
            }
        }
    }
    out
}

// ------------------------------------------------------------------------------------------------
// B. strings of a known class, derived from those values

fn abstract_of(kind: &str, net: &str) -> Value {
    match kind {
        "unified" => json!({"form": "bech", "variant": "bech32m", "hrp": {"fam": "ua", "net": net}, "case": "lower", "payload": "ua_wf", "ws": "none"}),
        "sapling" => json!({"form": "bech", "variant": "bech32", "hrp": {"fam": "sapling", "net": net}, "case": "lower", "payload": "raw43", "ws": "none"}),
        "tex" => json!({"form": "bech", "variant": "bech32m", "hrp": {"fam": "tex", "net": net}, "case": "lower", "payload": "raw20", "ws": "none"}),
        k => json!({"form": "b58", "ck": "ok", "prefix": {"kind": k, "net": if net == "regtest" { "test" } else { net }},
                    "plen": if k == "sprout" { "64" } else { "20" }, "ws": "none"}),
    }
}

fn bech_payload(v: &ValueStr, hrp_for_padding: &str) -> Vec<u8> {
    match &v.items {
        Some(its) => ref_f4jumble(&raw_encode(its, &padding_for(hrp_for_padding))).expect("harness: jumble domain"),
        None => v.data.clone(),
    }
}

fn emit_str(w: &mut NdjsonWriter, abs: Value, x: &str, trimmed: &str, v: &ValueStr) {
    let p = parse(x);
    let data = p.out == "accept" && p.data == v.data && p.items == v.items;
    w.emit(&json!({"op": "str", "s": abs, "out": p.out, "okind": p.kind, "onet": p.net, "canon": p.out == "accept" && p.reenc == trimmed,
                   "data": data, "x": note(x)}));
}

fn known_class_strings(vals: &[ValueStr], w: &mut NdjsonWriter, rng: &mut ChaCha8Rng) {
    for v in vals {
        let base = abstract_of(v.kind, v.net);
        let is_bech = base["form"] == "bech";
        let fam = match v.kind {
            "unified" => "ua",
            "sapling" => "sapling",
            "tex" => "tex",
            _ => "",
        };
        // whitespace around / inside
        let ws = ["lead", "trail", "both", "inner"][rng.gen_range(0..4)];
        let mut a = base.clone();
        a["ws"] = json!(ws);
        let x = match ws {
            "lead" => format!("{}{}", rand_ws(rng), v.string),
            "trail" => format!("{}{}", v.string, rand_ws(rng)),
            "both" => format!("{}{}{}", rand_ws(rng), v.string, rand_ws(rng)),
            _ => {
                let pos = rng.gen_range(1..v.string.len());
                format!("{}{}{}", &v.string[..pos], rand_ws(rng), &v.string[pos..])
            }
        };
        let trimmed = if ws == "inner" { x.clone() } else { v.string.clone() };
        emit_str(w, a, &x, &trimmed, v);
        if is_bech {
            let own_hrp = hrp_of(fam, v.net);
            // checksum of the other Bech32 variant / a broken checksum
            let variant = if rng.gen_bool(0.7) { if base["variant"] == "bech32m" { "bech32" } else { "bech32m" } } else { "bad" };
            let mut a = base.clone();
            a["variant"] = json!(variant);
            let x = bech_encode(variant, own_hrp, &bech_payload(v, own_hrp), rng);
            emit_str(w, a, &x, &x, v);
            // upper / mixed case
            let mut a = base.clone();
            let x = if rng.gen_bool(0.5) {
                a["case"] = json!("upper");
                v.string.to_uppercase()
            } else {
                a["case"] = json!("mixed");
                let chars: Vec<char> = v.string.chars().collect();
                let letters: Vec<usize> = (0..chars.len()).filter(|i| chars[*i].is_ascii_lowercase()).collect();
                let pos = letters[rng.gen_range(0..letters.len())];
                chars.iter().enumerate().map(|(i, c)| if i == pos { c.to_ascii_uppercase() } else { *c }).collect()
            };
            emit_str(w, a, &x, &x, v);
            // the HRP of another network with a recomputed checksum
            let other = *NETS.iter().filter(|n| **n != v.net).collect::<Vec<_>>()[rng.gen_range(0..2)];
            let mut a = base.clone();
            a["hrp"]["net"] = json!(other);
            let variant = base["variant"].as_str().unwrap();
            if v.kind == "unified" {
                // the payload keeps the padding of the original network: "prefix swapped"
                a["payload"] = json!("ua_othernet");
                let x = bech_encode(variant, hrp_of(fam, other), &bech_payload(v, own_hrp), rng);
                emit_str(w, a, &x, &x, v);
            } else {
                let x = bech_encode(variant, hrp_of(fam, other), &v.data, rng);
                emit_str(w, a, &x, &x, v);
            }
            // a foreign / key HRP
            let pick = rng.gen_range(0..4);
            let foreign = if pick == 3 { longer_hrp(hrp_of("ua", v.net), rng) } else { foreign_hrp(rng) };
            let (ofam, hrp) = match pick {
                0 => ("ufvk", hrp_of("ufvk", v.net)),
                1 => ("uivk", hrp_of("uivk", v.net)),
                2 => ("other", &foreign[..]),
                _ => ("uaLonger", &foreign[..]),
            };
            let mut a = base.clone();
            a["hrp"] = if ofam == "other" { json!({"fam": "other", "net": "main"}) } else { json!({"fam": ofam, "net": v.net}) };
            let x = bech_encode(variant, hrp, &bech_payload(v, hrp), rng);
            emit_str(w, a, &x, &x, v);
        } else {
            // the lead bytes of the other network / another kind, checksum recomputed
            let kinds = ["sprout", "p2pkh", "p2sh"];
            let (ok, on) = loop {
                let k = kinds[rng.gen_range(0..3)];
                let n = ["main", "test"][rng.gen_range(0..2)];
                if (k, n) != (v.kind, if v.net == "regtest" { "test" } else { v.net }) {
                    break (k, n);
                }
            };
            let mut a = base.clone();
            a["prefix"] = json!({"kind": ok, "net": on});
            let x = b58check_encode(&b58_prefix(ok, on), &v.data);
            emit_str(w, a, &x, &x, v);
            // one character changed
            let mut a = base.clone();
            a["ck"] = json!("bad");
            const ALPHA: &[u8] = b"123456789ABCDEFGHJKLMNPQRSTUVWXYZabcdefghijkmnopqrstuvwxyz";
            let x = loop {
                let mut chars: Vec<char> = v.string.chars().collect();
                let pos = rng.gen_range(0..chars.len());
                let c = ALPHA[rng.gen_range(0..ALPHA.len())] as char;
                if c == chars[pos] {
                    continue;
                }
                chars[pos] = c;
                let cand: String = chars.into_iter().collect();
                if bs58::decode(&cand).with_check(None).into_vec().is_err() {
                    break cand;
                }
            };
            emit_str(w, a, &x, &x, v);
        }
    }
}

// ------------------------------------------------------------------------------------------------
// C. strings of no known class

fn fuzz(vals: &[ValueStr], n: usize, w: &mut NdjsonWriter, rng: &mut ChaCha8Rng) -> (usize, usize) {
    let mut accepted = 0;
    let mut done = 0;
    if vals.is_empty() {
        return (0, 0);
    }
    let pool: Vec<char> = "qpzry9x8gf2tvdw0s3jn54khce6mua7l1bio BIO\t\n-_=+:/?#%\u{e9}\u{3000}\u{1F980}ABCDEFGHJKLMNPQRSTUVWXYZ".chars().collect();
    while done < n {
        let v = &vals[rng.gen_range(0..vals.len())];
        let mut chars: Vec<char> = v.string.chars().collect();
        let x: String = match rng.gen_range(0..9) {
            0 => {
                let pos = rng.gen_range(0..chars.len());
                chars[pos] = pool[rng.gen_range(0..pool.len())];
                chars.into_iter().collect()
            }
            1 => {
                let pos = rng.gen_range(0..chars.len());
                chars.remove(pos);
                chars.into_iter().collect()
            }
            2 => {
                let pos = rng.gen_range(0..=chars.len());
                chars.insert(pos, pool[rng.gen_range(0..pool.len())]);
                chars.into_iter().collect()
            }
            3 => {
                let pos = rng.gen_range(0..chars.len() - 1);
                chars.swap(pos, pos + 1);
                chars.into_iter().collect()
            }
            4 => chars[..rng.gen_range(0..chars.len())].iter().collect(),
            5 => {
                // a structurally valid Base58Check string with arbitrary lead bytes / length
                let known = [b58_prefix("p2pkh", "main"), b58_prefix("p2sh", "main"), b58_prefix("sprout", "main"),
                             b58_prefix("p2pkh", "test"), b58_prefix("p2sh", "test"), b58_prefix("sprout", "test")];
                let mut p = known[rng.gen_range(0..6)].to_vec();
                if rng.gen_bool(0.3) {
                    p[1] = p[1].wrapping_add(rng.gen_range(0..3));
                }
                let n = *[0usize, 19, 20, 21, 43, 63, 64, 65].choose(rng).unwrap();
                b58check_encode(&p, &rand_bytes(rng, n))
            }
            6 => {
                // a valid Bech32 / Bech32m string with a Zcash HRP and an arbitrary payload length
                let fam = ["sapling", "tex", "ua", "ufvk"][rng.gen_range(0..4)];
                let net = NETS[rng.gen_range(0..3)];
                let n = *[0usize, 19, 20, 21, 42, 43, 44, 48, 64, 80].choose(rng).unwrap();
                bech_encode(["bech32", "bech32m"][rng.gen_range(0..2)], hrp_of(fam, net), &rand_bytes(rng, n), rng)
            }
            7 => format!("{}{}", v.string, v.string),
            _ => {
                // whitespace variants of an otherwise valid string (accepted: exercises canonicity), also with the
                // rarer Unicode White_Space characters (no verdict is predicted for those: accepted => canonical)
                let ws = |rng: &mut ChaCha8Rng| -> String {
                    match rng.gen_range(0..4) {
                        0 => String::new(),
                        1 => EXOTIC_WS[rng.gen_range(0..EXOTIC_WS.len())].to_string(),
                        _ => rand_ws(rng),
                    }
                };
                let (a, b) = (ws(rng), ws(rng));
                format!("{}{}{}", a, v.string, b)
            }
        };
        let p = parse(&x);
        if p.out == "accept" {
            accepted += 1;
        }
        w.emit(&json!({"op": "fuzz", "out": p.out, "canon": p.out == "accept" && p.reenc == x.trim(), "x": note(&x)}));
        done += 1;
    }
    (done, accepted)
}

// ------------------------------------------------------------------------------------------------
// D. unified containers mutated at the byte level, abstracted by the harness' own decoder

fn kind_of_hrp(hrp: &str) -> (&'static str, &'static str) {
    for kind in ["addr", "fvk", "ivk"] {
        for net in NETS {
            if hrp_of(family_of_kind(kind), net) == hrp {
                return (kind, net);
            }
        }
    }
    ("none", "-")
}

fn random_wf(kind: &str, rng: &mut ChaCha8Rng) -> Vec<RawItem> {
    // an ascending set of typecodes with at least one non-transparent one, at most one transparent
    loop {
        let mut tcs: Vec<u64> = vec![];
        match rng.gen_range(0..3) {
            0 => tcs.push(0),
            1 if kind == "addr" => tcs.push(1),
            _ => {}
        }
        for tc in [2u64, 3] {
            if rng.gen_bool(0.5) {
                tcs.push(tc);
            }
        }
        for _ in 0..rng.gen_range(0..3) {
            tcs.push(*[4u64, 5, 252, 253, 0xFFFF, 0x10000, MAX_TYPECODE, rng.gen_range(4..=MAX_TYPECODE)].choose(rng).unwrap());
        }
        tcs.sort();
        tcs.dedup();
        if tcs.iter().all(|t| *t < 2) {
            continue;
        }
        return tcs
            .into_iter()
            .map(|tc| {
                let n = known_len(kind, tc).unwrap_or_else(|| *[0usize, 1, 32, 40, 64, 100, 252, 253, 300].choose(rng).unwrap());
                RawItem { typecode: tc, data: rand_bytes(rng, n) }
            })
            .collect();
    }
}

fn encode_items_with(items: &[RawItem], wide_at: Option<(usize, bool, usize)>) -> Vec<u8> {
    // wide_at = (item index, true: the typecode / false: the length, width): a non-canonical CompactSize
    let mut out = vec![];
    for (i, it) in items.iter().enumerate() {
        match wide_at {
            Some((j, true, wd)) if j == i => cs_write_wide(&mut out, it.typecode, wd),
            _ => cs_write(&mut out, it.typecode),
        }
        match wide_at {
            Some((j, false, wd)) if j == i => cs_write_wide(&mut out, it.data.len() as u64, wd),
            _ => cs_write(&mut out, it.data.len() as u64),
        }
        out.extend_from_slice(&it.data);
    }
    out
}

fn emit_uc(w: &mut NdjsonWriter, hrp: &str, raw: &[u8], rng: &mut ChaCha8Rng, counts: &mut (usize, usize)) {
    let (hk, hnet) = kind_of_hrp(hrp);
    let own = raw_decode(raw);
    let items: Vec<Value> = own
        .items
        .iter()
        .map(|it| {
            let class = tc_class(it.typecode);
            let l = match class {
                "p2pkh" | "p2sh" | "sapling" | "orchard" => hk != "none" && known_len(hk, it.typecode) == Some(it.data.len()),
                _ => true,
            };
            json!({"n": it.typecode.min(MAX_TYPECODE + 1), "l": l})
        })
        .collect();
    let padding = if own.padding == padding_for(hrp).to_vec() { "hrp" } else { "wrong" };
    let s = match ref_f4jumble(raw) {
        Some(j) => bech_encode("bech32m", hrp, &j, rng),
        None => bech_encode("bech32m", hrp, raw, rng),
    };
    for dec in ["addr", "fvk", "ivk", "zaddr"] {
        let r = cut(|| match dec {
            "addr" => unified::Address::decode(&s).ok().map(|(n, v)| (net_name(n), ua_items(&v), v.encode(&n))),
            "fvk" => unified::Ufvk::decode(&s).ok().map(|(n, v)| (net_name(n), ufvk_items(&v), v.encode(&n))),
            "ivk" => unified::Uivk::decode(&s).ok().map(|(n, v)| (net_name(n), uivk_items(&v), v.encode(&n))),
            _ => ZcashAddress::try_from_encoded(&s).ok().map(|a| {
                let o = observe(&a);
                (o.net, o.ua.as_ref().map(ua_items).unwrap_or_default(), a.encode())
            }),
        });
        let (out, canon, same, netok) = match r {
            Err(_) => ("panic", false, false, false),
            Ok(None) => ("reject", false, false, false),
            Ok(Some((net, its, reenc))) => ("accept", reenc == s, its == own.items, net == hnet),
        };
        counts.0 += 1;
        if out == "accept" {
            counts.1 += 1;
        }
        w.emit(&json!({"op": "uc", "dec": dec, "hk": hk, "items": items, "padding": padding, "size": own.size, "struct": own.structure,
                       "out": out, "canon": canon, "same": same, "netok": netok, "x": note(&s)}));
    }
}

fn containers(n: usize, big: bool, w: &mut NdjsonWriter, rng: &mut ChaCha8Rng) -> (usize, usize) {
    let mut counts = (0usize, 0usize);
    for _ in 0..n {
        let kind = ["addr", "addr", "fvk", "ivk"][rng.gen_range(0..4)];
        let net = NETS[rng.gen_range(0..3)];
        let mut hrp = hrp_of(family_of_kind(kind), net);
        #[allow(unused_assignments)]
        let mut foreign = String::new();
        let mut items = random_wf(kind, rng);
        let mut pad = padding_for(hrp).to_vec();
        let mut wide = None;
        let mut cut_tail = 0usize;
        let mut garbage: Vec<u8> = vec![];
        for _ in 0..[0usize, 1, 1, 1, 2][rng.gen_range(0..5)] {
            match rng.gen_range(0..14) {
                0 if items.len() >= 2 => {
                    let i = rng.gen_range(0..items.len() - 1);
                    items.swap(i, i + 1);
                }
                1 if items.len() >= 2 => items.shuffle(rng),
                2 if !items.is_empty() => {
                    let i = rng.gen_range(0..items.len());
                    let mut d = items[i].clone();
                    if rng.gen_bool(0.5) {
                        d.data = rand_bytes(rng, d.data.len());
                    }
                    let at = if rng.gen_bool(0.6) { i + 1 } else { rng.gen_range(0..=items.len()) };
                    items.insert(at, d);
                }
                3 if !items.is_empty() => {
                    let i = rng.gen_range(0..items.len());
                    items.remove(i);
                }
                4 => {
                    // add the other transparent item in its place (or out of place)
                    let tc = if items.iter().any(|i| i.typecode == 0) { 1 } else { 0 };
                    let n = known_len(kind, tc).unwrap_or(20);
                    let it = RawItem { typecode: tc, data: rand_bytes(rng, n) };
                    if rng.gen_bool(0.7) {
                        items.push(it);
                        items.sort_by_key(|i| i.typecode);
                    } else {
                        items.push(it);
                    }
                }
                5 if !items.is_empty() => {
                    let i = rng.gen_range(0..items.len());
                    items[i].typecode = *[0u64, 1, 2, 3, 4, 252, 253, 0xFFFF, 0x10000, MAX_TYPECODE, MAX_TYPECODE + 1, 0xFFFF_FFFF, 0x1_0000_0000, u64::MAX,
                                          items[i].typecode.saturating_add(1), items[i].typecode.saturating_sub(1)]
                        .choose(rng)
                        .unwrap();
                }
                6 if !items.is_empty() => {
                    let i = rng.gen_range(0..items.len());
                    let n = items[i].data.len();
                    let n2 = *[n + 1, n.saturating_sub(1), 0, 2 * n, 20, 43, 64, 65, 96, 128].choose(rng).unwrap();
                    items[i].data = rand_bytes(rng, n2);
                }
                7 => {
                    let i = rng.gen_range(0..16);
                    pad[i] ^= 1 << rng.gen_range(0..8);
                }
                8 => {
                    // padding / HRP of another network or kind
                    let k2 = ["addr", "fvk", "ivk"][rng.gen_range(0..3)];
                    let n2 = NETS[rng.gen_range(0..3)];
                    if rng.gen_bool(0.5) {
                        pad = padding_for(hrp_of(family_of_kind(k2), n2)).to_vec();
                    } else {
                        hrp = hrp_of(family_of_kind(k2), n2);
                    }
                }
                9 => cut_tail = rng.gen_range(1..6),
                10 => {
                    let k = rng.gen_range(1..4);
                    garbage = rand_bytes(rng, k);
                }
                11 if !items.is_empty() => {
                    let i = rng.gen_range(0..items.len());
                    let on_tc = rng.gen_bool(0.5);
                    let v = if on_tc { items[i].typecode } else { items[i].data.len() as u64 };
                    let width = if v < 253 { [3usize, 5, 9][rng.gen_range(0..3)] } else if v <= 0xFFFF { [5usize, 9][rng.gen_range(0..2)] } else { 9 };
                    if v <= 0xFFFF_FFFF || width == 9 {
                        wide = Some((i, on_tc, width));
                    }
                }
                12 => {
                    // a foreign HRP, or this HRP with further characters and the padding to match
                    if rng.gen_bool(0.5) {
                        foreign = foreign_hrp(rng);
                    } else {
                        foreign = longer_hrp(hrp_of(family_of_kind(kind), net), rng);
                        pad = padding_for(&foreign).to_vec();
                    }
                    hrp = &foreign;
                }
                _ => {}
            }
        }
        let mut body = encode_items_with(&items, wide);
        body.truncate(body.len().saturating_sub(cut_tail));
        body.extend_from_slice(&garbage);
        body.extend_from_slice(&pad);
        emit_uc(w, hrp, &body, rng, &mut counts);
    }
    // sizes around the ends of the jumble domain: one Sapling/Orchard-free container made of unknown items
    let mut sizes: Vec<usize> = vec![16, 18, 40, 46, 47, 48, 49, 50, 64, 127, 128, 129, 70_000];
    if big {
        sizes.extend_from_slice(&[2_621_469, 2_621_476, 2_621_529, JUMBLE_MAX - 1, JUMBLE_MAX, JUMBLE_MAX + 1]);
    }
    for size in sizes {
        let pick = ["addr", "fvk", "ivk"][rng.gen_range(0..3)];
        for kind in ["addr", "fvk", "ivk"] {
            if size > 100_000 && kind != pick && size != JUMBLE_MAX {
                continue; // the multi-megabyte sizes: every kind at the maximum, one kind elsewhere
            }
            let net = NETS[rng.gen_range(0..3)];
            let hrp = hrp_of(family_of_kind(kind), net);
            // typecode (3 bytes: 0xFFFF) + length + data + padding = size
            let tc = 0xFFFFu64;
            let avail = size.saturating_sub(PADDING_LEN + 3);
            let mut body = vec![];
            if size >= PADDING_LEN + 4 {
                let mut n = avail;
                loop {
                    let mut l = vec![];
                    cs_write(&mut l, n as u64);
                    if l.len() + n == avail || n == 0 {
                        break;
                    }
                    n -= 1;
                }
                cs_write(&mut body, tc);
                cs_write(&mut body, n as u64);
                body.extend_from_slice(&rand_bytes(rng, n));
            }
            while body.len() + PADDING_LEN < size {
                body.push(0); // (cannot hit exactly with one item: a one-byte filler, parsed as a truncated item)
            }
            body.extend_from_slice(&padding_for(hrp));
            emit_uc(w, hrp, &body, rng, &mut counts);
        }
    }
    counts
}

// ------------------------------------------------------------------------------------------------
// E. F4Jumble against the reference construction

fn jumbles(big: bool, w: &mut NdjsonWriter, rng: &mut ChaCha8Rng) -> usize {
    let mut lens: Vec<usize> = (0..=8).collect();
    lens.extend(40..=330);
    for k in 6..=40usize {
        lens.extend_from_slice(&[64 * k - 1, 64 * k, 64 * k + 1]);
    }
    lens.extend_from_slice(&[16383 + 64, 16384 + 64, 16385 + 64, 16384 + 128 + 1, 65536, 100_000]);
    if big {
        lens.extend_from_slice(&[1 << 20, 2_621_476, JUMBLE_MAX - 64, JUMBLE_MAX - 1, JUMBLE_MAX, JUMBLE_MAX + 1, JUMBLE_MAX + 64, 5_000_000]);
    } else {
        lens.extend_from_slice(&[JUMBLE_MAX, JUMBLE_MAX + 1]);
    }
    for _ in 0..40 {
        lens.push(rng.gen_range(48..5000));
    }
    let mut n_rec = 0;
    for n in lens {
        let x = rand_bytes(rng, n);
        let r = cut(|| {
            let fwd = f4jumble::f4jumble(&x);
            let bwd = f4jumble::f4jumble_inv(&x);
            let mut m1 = x.clone();
            let fm = f4jumble::f4jumble_mut(&mut m1);
            let mut m2 = x.clone();
            let bm = f4jumble::f4jumble_inv_mut(&mut m2);
            match (fwd, bwd, fm, bm) {
                (Ok(f), Ok(b), Ok(()), Ok(())) => {
                    let inv = f4jumble::f4jumble_inv(&f).ok().as_deref() == Some(&x[..]) && f4jumble::f4jumble(&b).ok().as_deref() == Some(&x[..]);
                    let len = f.len() == n && b.len() == n && m1.len() == n && m2.len() == n;
                    let refeq = Some(&f) == ref_f4jumble(&x).as_ref() && Some(&b) == ref_f4jumble_inv(&x).as_ref() && m1 == f && m2 == b;
                    (false, inv, len, refeq, false)
                }
                (Err(_), Err(_), Err(_), Err(_)) => (true, false, false, false, m1 == x && m2 == x),
                // some entry points fail and others do not: neither "no error" nor a clean error
                _ => (true, false, false, false, false),
            }
        });
        let rec = match r {
            Ok((err, inv, len, refeq, keep)) => json!({"op": "jumble", "n": n, "err": err, "inv": inv, "len": len, "ref": refeq, "keep": keep, "panic": false}),
            Err(_) => json!({"op": "jumble", "n": n, "err": true, "inv": false, "len": false, "ref": false, "keep": false, "panic": true}),
        };
        w.emit(&rec);
        n_rec += 1;
    }
    n_rec
}

// ------------------------------------------------------------------------------------------------
// F. convert_if_network on parsed addresses

fn conversions(vals: &[ValueStr], w: &mut NdjsonWriter) -> usize {
    let mut n = 0;
    for v in vals {
        let p = parse(&v.string);
        if p.out != "accept" {
            continue; // already reported by its "rt" record
        }
        for want in NETS {
            let r = cut(|| {
                ZcashAddress::try_from_encoded(&v.string).ok().map(|a| match a.convert_if_network::<Obs>(net_type(want)) {
                    Ok(o) => Some(o.kind == p.kind && o.net == want && o.data == p.data && o.ua.as_ref().map(ua_items) == p.items),
                    Err(ConversionError::IncorrectNetwork { .. }) => None,
                    Err(_) => Some(false),
                })
            });
            // ok: converted / refused with IncorrectNetwork;  good: nothing else went wrong
            let (ok, good) = match r {
                Ok(Some(Some(true))) => (true, true),
                Ok(Some(None)) => (false, true),
                Ok(Some(Some(false))) => (true, false), // wrong value delivered / another error
                Ok(None) => (false, false),             // does not parse the second time
                Err(_) => (false, false),               // panic
            };
            w.emit(&json!({"op": "cin", "kind": p.kind, "net": p.net, "want": want, "ok": ok, "good": good}));
            n += 1;
        }
    }
    n
}

fn main() {
    let args: Vec<String> = std::env::args().collect();
    if args.len() < 6 {
        eprintln!("usage: c10_driver <out.ndjson> <n_values_per_net> <n_containers> <n_fuzz> <big: 0|1>");
        std::process::exit(2);
    }
    let n_values: usize = args[2].parse().expect("n_values");
    let n_containers: usize = args[3].parse().expect("n_containers");
    let n_fuzz: usize = args[4].parse().expect("n_fuzz");
    let big = args[5] == "1";
    let seed = seed_from_env();
    harness_hook();
    let mut w = NdjsonWriter::create(&args[1]);
    let mut rng = case_rng(seed, "driver");
    let vals = values(seed, n_values, &mut w, &mut rng);
    let n_rt = w.1;
    known_class_strings(&vals, &mut w, &mut rng);
    let n_str = w.1 - n_rt;
    let (n_fz, fz_acc) = fuzz(&vals, n_fuzz, &mut w, &mut rng);
    let (n_uc, uc_acc) = containers(n_containers, big, &mut w, &mut rng);
    let n_j = jumbles(big, &mut w, &mut rng);
    let n_cin = conversions(&vals, &mut w);
    let n = w.1;
    w.emit(&json!({"op": "end", "n": n}));
    w.finish();
    println!("{}", json!({"records": n, "rt": n_rt, "str": n_str, "fuzz": n_fz, "fuzz_accepted": fz_acc, "uc": n_uc, "uc_accepted": uc_acc,
                          "jumble": n_j, "cin": n_cin}));
}
