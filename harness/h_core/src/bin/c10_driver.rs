#[path = "../c10_common.rs"]
mod common;
use common::*;
use h_core::util::{guarded, quiet_panics};
use zcash_address::unified::{self, Encoding};
use zcash_address::ZcashAddress;
use zcash_protocol::consensus::NetworkType;

fn main() {
    quiet_panics();
    let mut rng = case_rng(1, "spike");
    // 1. reference jumble vs crate
    for n in [48usize, 49, 100, 127, 128, 129, 192, 193, 1000, 20000, 4194368] {
        let m = rand_bytes(&mut rng, n);
        let r = ref_f4jumble(&m).unwrap();
        let c = f4jumble::f4jumble(&m).unwrap();
        println!("len {n}: ref==crate {}  inv ok {}", r == c, ref_f4jumble_inv(&r).unwrap() == m);
    }
    // 2. uppercase
    let sap = bech_encode("bech32", "zs", &[7u8; 43], &mut rng);
    println!("{sap} -> {:?}", ZcashAddress::try_from_encoded(&sap).is_ok());
    let up = sap.to_uppercase();
    println!("{up} -> {:?}", ZcashAddress::try_from_encoded(&up));
    let tex = bech_encode("bech32m", "tex", &[7u8; 20], &mut rng).to_uppercase();
    println!("{tex} -> {:?}", ZcashAddress::try_from_encoded(&tex));
    let items = vec![RawItem { typecode: 2, data: vec![1; 43] }];
    let raw = raw_encode(&items, &padding_for("u"));
    let s = container_string("u", &raw, "bech32m", &mut rng).unwrap();
    println!("{s} -> {:?}", ZcashAddress::try_from_encoded(&s).map(|a| observe(&a).kind));
    println!("{} -> {:?}", s.to_uppercase(), ZcashAddress::try_from_encoded(&s.to_uppercase()));
    println!("upper ua decode -> {:?}", unified::Address::decode(&s.to_uppercase()).is_ok());
    // 3. big container
    for n in [2_000_000usize, 2_621_400, 2_621_460, 2_621_470, 2_621_480, 3_000_000, 4_194_368 - 16 - 45 - 7, 4_194_368 - 16 - 45 - 6] {
        let a = unified::Address::try_from_items(vec![
            unified::Receiver::Sapling([1; 43]),
            unified::Receiver::Unknown { typecode: 0xffff, data: vec![0u8; n] },
        ])
        .unwrap();
        let r = guarded(|| a.encode(&NetworkType::Main));
        match r {
            Ok(s) => {
                let back = guarded(|| unified::Address::decode(&s));
                println!("big {n}: encoded {} chars, decode ok {:?}", s.len(), back.map(|b| b.map(|(_, v)| v == a)));
            }
            Err(p) => println!("big {n}: encode PANIC {}", &p[..p.len().min(120)]),
        }
        // own string
        let items = vec![RawItem { typecode: 2, data: vec![1; 43] }, RawItem { typecode: 0xffff, data: vec![0u8; n] }];
        let raw = raw_encode(&items, &padding_for("u"));
        match container_string("u", &raw, "bech32m", &mut rng) {
            Some(s) => println!("   own string {} chars raw {} -> decode {:?}", s.len(), raw.len(), guarded(|| unified::Address::decode(&s).map(|_| ()))),
            None => println!("   raw {} outside jumble domain", raw.len()),
        }
    }
}
