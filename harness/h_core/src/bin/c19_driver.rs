//! C19 — Equihash verification accepts exactly the valid solutions (driver, code -> spec direction).
//!
//! Everything that serves as an oracle here is computed WITHOUT the `equihash` crate:
//!   * leaf rows: `blake2b_simd` with personalisation "ZcashPoW" || le32(n) || le32(k), digest length
//!     (512/n)*n/8, message input || nonce || le32(i / (512/n)), the n-bit slice number i % (512/n), cut
//!     into k+1 big-endian segments of c = n/(k+1) bits by `get_bits` (own bit slicing);
//!   * minimal encoding: `put_bits` / `get_bits` on (c+1)-bit big-endian fields;
//!   * solutions: own Wagner solver (`wagner`), which also yields the near-solutions used as negative
//!     candidates (duplicate indices, a collision that fails in one bit at one level, non-zero root).
//! The only call into the code under test is `equihash::is_valid_solution`, always under `guarded`.
//! The driver does not judge anything: it logs records; `Trace_Equihash.tla` (TLC) decides.
//!
//! Sub-commands (each prints a one-line JSON summary as the last line of stdout):
//!   sols   <out.ndjson> <quick|thorough>              solver-found solutions and their mutations
//!   grid   <out.ndjson> <nmax> <kmax> <cap_log2>      the (n,k) x length grid + invalid-parameter sweep
//!   replay <replay.json> <out.ndjson>                 re-executes the call(s) of a replay file
use std::collections::BTreeSet;

use h_core::util::{guarded, seed_from_env, NdjsonWriter};
use rand::seq::SliceRandom;
use rand::{Rng, RngCore, SeedableRng};
use rand_chacha::ChaCha8Rng;
use serde_json::{json, Value};

// ------------------------------------------------------------------------------------------------
// independent reference: bit fields, leaf rows, minimal encoding

/// Bits [off, off+w) of `b`, most significant bit of byte 0 first, as an integer (w <= 32).
fn get_bits(b: &[u8], off: usize, w: usize) -> u32 {
    let mut v: u64 = 0;
    for t in 0..w {
        let bit = off + t;
        v = (v << 1) | (((b[bit / 8] >> (7 - (bit % 8))) & 1) as u64);
    }
    v as u32
}

fn put_bits(b: &mut [u8], off: usize, w: usize, v: u32) {
    for t in 0..w {
        let bit = off + t;
        let x = ((v >> (w - 1 - t)) & 1) as u8;
        b[bit / 8] = (b[bit / 8] & !(1 << (7 - (bit % 8)))) | (x << (7 - (bit % 8)));
    }
}

#[derive(Clone, Copy, Debug)]
struct P {
    n: u32,
    k: u32,
    c: u32,
}

impl P {
    fn new(n: u32, k: u32) -> P {
        assert!(n % 8 == 0 && k >= 3 && k < n && n % (k + 1) == 0, "harness: unsupported parameter set");
        let c = n / (k + 1);
        assert!((8..=24).contains(&c) && n <= 128);
        P { n, k, c }
    }
    fn sol_len(&self) -> usize {
        ((1usize << self.k) * (self.c as usize + 1)) / 8
    }
    fn n_indices(&self) -> usize {
        1usize << self.k
    }
    fn table_size(&self) -> usize {
        1usize << (self.c + 1)
    }
}

/// The BLAKE2b state after absorbing input || nonce (independent of the crate under test).
struct Hasher {
    p: P,
    base: blake2b_simd::State,
    per: u32,
}

impl Hasher {
    fn new(p: P, input: &[u8], nonce: &[u8]) -> Hasher {
        let per = 512 / p.n;
        let digest_len = (per * p.n / 8) as usize;
        let mut pers = Vec::with_capacity(16);
        pers.extend_from_slice(b"ZcashPoW");
        pers.extend_from_slice(&p.n.to_le_bytes());
        pers.extend_from_slice(&p.k.to_le_bytes());
        let mut base = blake2b_simd::Params::new().hash_length(digest_len).personal(&pers).to_state();
        base.update(input);
        base.update(nonce);
        Hasher { p, base, per }
    }
    fn block(&self, g: u32) -> blake2b_simd::Hash {
        let mut s = self.base.clone();
        s.update(&g.to_le_bytes());
        s.finalize()
    }
    /// The n-bit leaf hash of index i, as an integer (first bit = most significant).
    fn leaf(&self, i: u32) -> u128 {
        let h = self.block(i / self.per);
        let nb = (self.p.n / 8) as usize;
        let start = (i % self.per) as usize * nb;
        let mut v: u128 = 0;
        for b in &h.as_bytes()[start..start + nb] {
            v = (v << 8) | (*b as u128);
        }
        v
    }
    fn all_leaves(&self) -> Vec<u128> {
        let total = self.p.table_size() as u32;
        let nb = (self.p.n / 8) as usize;
        let mut out = Vec::with_capacity(total as usize);
        let mut g = 0u32;
        while (out.len() as u32) < total {
            let h = self.block(g);
            for s in 0..self.per as usize {
                if (out.len() as u32) < total {
                    let mut v: u128 = 0;
                    for b in &h.as_bytes()[s * nb..(s + 1) * nb] {
                        v = (v << 8) | (*b as u128);
                    }
                    out.push(v);
                }
            }
            g += 1;
        }
        out
    }
}

/// Segment j (1-based, 1..=k+1) of an n-bit hash value.
fn seg(p: &P, x: u128, j: u32) -> u32 {
    ((x >> (p.n - j * p.c)) & ((1u128 << p.c) - 1)) as u32
}

fn row_of(p: &P, x: u128) -> Vec<u32> {
    // own bit slicing on the byte string, deliberately not via `seg`, as a cross-check of both
    let nb = (p.n / 8) as usize;
    let mut bytes = vec![0u8; nb];
    for (t, b) in bytes.iter_mut().enumerate() {
        *b = (x >> (8 * (nb - 1 - t))) as u8;
    }
    let r: Vec<u32> = (0..=p.k).map(|j| get_bits(&bytes, (j * p.c) as usize, p.c as usize)).collect();
    for j in 1..=p.k + 1 {
        assert_eq!(r[(j - 1) as usize], seg(p, x, j), "harness: bit slicing disagrees");
    }
    r
}

fn encode(p: &P, idx: &[u32]) -> Vec<u8> {
    let w = p.c as usize + 1;
    assert!(idx.len() * w % 8 == 0);
    let mut out = vec![0u8; idx.len() * w / 8];
    for (j, i) in idx.iter().enumerate() {
        assert!((*i as usize) < p.table_size());
        put_bits(&mut out, j * w, w, *i);
    }
    out
}

fn decode(p: &P, soln: &[u8]) -> Vec<u32> {
    let w = p.c as usize + 1;
    (0..soln.len() * 8 / w).map(|j| get_bits(soln, j * w, w)).collect()
}

// ------------------------------------------------------------------------------------------------
// own Wagner solver (also the source of near-solutions)

const BAD_DUP: u8 = 1; // some index occurs twice
const BAD_COLL: u8 = 2; // some inner node does not collide on its segment (relaxed run)

#[derive(Clone)]
struct Row {
    x: u128,
    idx: Vec<u32>,
    bad: u8,
}

/// Scratch bitmap over the table's indices, for the disjointness test of `join`.
struct Scratch(Vec<u64>);

fn join(a: &Row, b: &Row, sc: &mut Scratch) -> Row {
    let (l, r) = if a.idx[0] <= b.idx[0] { (a, b) } else { (b, a) };
    let mut bad = a.bad | b.bad;
    if bad & BAD_DUP == 0 {
        for i in &l.idx {
            sc.0[(*i / 64) as usize] |= 1u64 << (*i % 64);
        }
        if r.idx.iter().any(|i| sc.0[(*i / 64) as usize] & (1u64 << (*i % 64)) != 0) {
            bad |= BAD_DUP;
        }
        for i in &l.idx {
            sc.0[(*i / 64) as usize] = 0;
        }
    }
    let mut idx = Vec::with_capacity(l.idx.len() * 2);
    idx.extend_from_slice(&l.idx);
    idx.extend_from_slice(&r.idx);
    Row { x: a.x ^ b.x, idx, bad }
}

struct Solved {
    /// clean rows with all segments zero after level k: the solutions
    solutions: Vec<Vec<u32>>,
    /// everything collides, total XOR zero, but an index occurs twice
    dups: Vec<Vec<u32>>,
    /// (relaxed runs) total XOR zero in every segment except that one node's collision is off by `delta`
    relaxed: Vec<Vec<u32>>,
    /// all k collisions hold, indices distinct and ordered, last segment non-zero
    near_root: Vec<Vec<u32>>,
    /// clean level-j rows (3 <= j < k) whose *next* segment is zero: a shorter "solution"
    short: Vec<Vec<u32>>,
    /// a few clean level-(k-1) rows (valid half trees), for the doubled-subtree candidates
    halves: Vec<Vec<Vec<u32>>>,
}

/// Wagner's algorithm keeping *all* pairs of every bucket. `relax = Some((level, delta))`: at that
/// level (1..=k: the collision on that segment; k+1: the final zero test) a XOR of `delta` is
/// tolerated as well; rows containing such a node are flagged BAD_COLL.
///
/// `keep_flagged = false` is the fast search mode: rows with a repeated index are dropped at once
/// (still complete for solutions, which never contain such a row).
fn wagner(p: &P, leaves: &[u128], relax: Option<(u32, u32)>, keep_flagged: bool, rng: &mut ChaCha8Rng) -> Solved {
    let n_tab = leaves.len();
    let mut sc = Scratch(vec![0u64; n_tab.div_ceil(64)]);
    let mut rows: Vec<Row> =
        leaves.iter().enumerate().map(|(i, x)| Row { x: *x, idx: vec![i as u32], bad: 0 }).collect();
    let mut out = Solved {
        solutions: vec![],
        dups: vec![],
        relaxed: vec![],
        near_root: vec![],
        short: vec![],
        halves: vec![vec![]; p.k as usize],
    };
    let mask_at = |lvl: u32| -> u32 {
        match relax {
            Some((l, d)) if l == lvl => d,
            _ => 0,
        }
    };
    for lvl in 1..=p.k {
        let m = mask_at(lvl);
        let last = lvl == p.k;
        rows.sort_by_key(|r| (seg(p, r.x, lvl) & !m, r.idx[0]));
        let mut next: Vec<Row> = Vec::new();
        let mut s = 0;
        while s < rows.len() {
            let key = seg(p, rows[s].x, lvl) & !m;
            let mut e = s + 1;
            while e < rows.len() && (seg(p, rows[e].x, lvl) & !m) == key {
                e += 1;
            }
            for a in s..e {
                for b in a + 1..e {
                    let mut r = join(&rows[a], &rows[b], &mut sc);
                    if !keep_flagged && r.bad & BAD_DUP != 0 {
                        continue;
                    }
                    if seg(p, r.x, lvl) != 0 {
                        r.bad |= BAD_COLL;
                    }
                    if last {
                        let fin = seg(p, r.x, p.k + 1);
                        let fm = mask_at(p.k + 1);
                        if fin == 0 || (fm != 0 && fin == fm) {
                            if fin != 0 {
                                r.bad |= BAD_COLL;
                            }
                            if r.bad == 0 {
                                out.solutions.push(r.idx);
                            } else if r.bad == BAD_DUP {
                                out.dups.push(r.idx);
                            } else if r.bad & BAD_DUP == 0 {
                                out.relaxed.push(r.idx);
                            }
                        } else if r.bad == 0 && out.near_root.len() < 64 {
                            out.near_root.push(r.idx);
                        }
                    } else {
                        next.push(r);
                    }
                }
            }
            s = e;
        }
        if last {
            break;
        }
        // bookkeeping on the new level
        for r in &next {
            if r.bad == 0 {
                if lvl >= 3 && seg(p, r.x, lvl + 1) == 0 {
                    out.short.push(r.idx.clone());
                }
                if out.halves[lvl as usize].len() < 4 {
                    out.halves[lvl as usize].push(r.idx.clone());
                }
            }
        }
        // keep every clean row (so all solutions are found); bound the flagged ones
        let (clean, mut flagged): (Vec<Row>, Vec<Row>) = next.into_iter().partition(|r| r.bad == 0);
        let mut keep_flagged = 2 * n_tab;
        let mut clean = clean;
        if relax.is_some() && clean.len() + flagged.len() > 2 * n_tab {
            // relaxed run: completeness is not needed, keep the table from exploding
            clean.shuffle(rng);
            clean.truncate(n_tab);
            keep_flagged = n_tab;
        }
        if flagged.len() > keep_flagged {
            flagged.shuffle(rng);
            flagged.truncate(keep_flagged);
        }
        rows = clean;
        rows.append(&mut flagged);
    }
    out
}

// ------------------------------------------------------------------------------------------------
// calling the code under test, logging

static IN_CODE_UNDER_TEST: std::sync::atomic::AtomicBool = std::sync::atomic::AtomicBool::new(false);

/// Panics of the code under test are data (silent); panics of the harness itself are printed.
fn install_panic_hook() {
    let default = std::panic::take_hook();
    std::panic::set_hook(Box::new(move |info| {
        if !IN_CODE_UNDER_TEST.load(std::sync::atomic::Ordering::SeqCst) {
            default(info);
        }
    }));
}

fn call(n: u32, k: u32, input: &[u8], nonce: &[u8], soln: &[u8]) -> (&'static str, String) {
    IN_CODE_UNDER_TEST.store(true, std::sync::atomic::Ordering::SeqCst);
    let r = guarded(|| equihash::is_valid_solution(n, k, input, nonce, soln));
    IN_CODE_UNDER_TEST.store(false, std::sync::atomic::Ordering::SeqCst);
    match r {
        Ok(Ok(())) => ("ok", String::new()),
        Ok(Err(e)) => ("err", e.to_string()),
        Err(msg) => ("panic", msg),
    }
}

struct Stats {
    records: usize,
    accepted: usize,
    rejected: usize,
    panics: usize,
    by_kind: std::collections::BTreeMap<String, (usize, usize)>, // kind -> (records, accepted)
    harness_expectation_mismatch: usize,
}

/// One candidate call on a supported parameter set: logs n, k, the solution bytes, the indices the
/// reference decoder reads from them, the independently computed rows of those indices, the verdict.
#[allow(clippy::too_many_arguments)]
fn log_candidate(
    w: &mut NdjsonWriter,
    st: &mut Stats,
    p: &P,
    kind: &str,
    input: &[u8],
    nonce: &[u8],
    soln: &[u8],
    hasher: Option<&Hasher>,
    harness_expects: Option<bool>,
) {
    let (verdict, msg) = call(p.n, p.k, input, nonce, soln);
    let right_len = soln.len() == p.sol_len();
    let (idx, rows, bytes): (Vec<u32>, Vec<Vec<u32>>, Vec<u32>) = if right_len {
        let own;
        let h = match hasher {
            Some(h) => h,
            None => {
                own = Hasher::new(*p, input, nonce);
                &own
            }
        };
        let idx = decode(p, soln);
        let rows = idx.iter().map(|i| row_of(p, h.leaf(*i))).collect();
        (idx, rows, soln.iter().map(|b| *b as u32).collect())
    } else {
        (vec![], vec![], vec![])
    };
    st.records += 1;
    match verdict {
        "ok" => st.accepted += 1,
        "err" => st.rejected += 1,
        _ => st.panics += 1,
    }
    let e = st.by_kind.entry(kind.to_string()).or_insert((0, 0));
    e.0 += 1;
    if verdict == "ok" {
        e.1 += 1;
    }
    if let Some(x) = harness_expects {
        if x != (verdict == "ok") {
            st.harness_expectation_mismatch += 1;
        }
    }
    w.emit(&json!({
        "t": "sol", "kind": kind, "n": p.n, "k": p.k, "len": soln.len(),
        "soln": bytes, "idx": idx, "rows": rows, "verdict": verdict, "msg": msg,
        "input": hex::encode(input), "nonce": hex::encode(nonce), "solnhex": hex::encode(soln),
    }));
}

fn flip(v: &[u8], bit: usize) -> Vec<u8> {
    let mut m = v.to_vec();
    m[bit / 8] ^= 1 << (bit % 8);
    m
}

fn rand_bytes(rng: &mut ChaCha8Rng, len: usize) -> Vec<u8> {
    let mut v = vec![0u8; len];
    rng.fill_bytes(&mut v);
    v
}

/// Re-orders a list of indices into the canonical tree order (every left subtree starts with a
/// smaller index than its right sibling).
fn canonical_order(idx: &[u32]) -> Vec<u32> {
    if idx.len() == 1 {
        return idx.to_vec();
    }
    let h = idx.len() / 2;
    let l = canonical_order(&idx[..h]);
    let r = canonical_order(&idx[h..]);
    if l[0] <= r[0] { [l, r].concat() } else { [r, l].concat() }
}

struct Plan {
    /// (n, k, search bound, full suites, light suites): parameter set, the number of (input, nonce)
    /// instances searched at most, how many solutions get the full mutation suite (every bit of
    /// solution, input, nonce) and how many more the light one (solution, swaps, a bit sample)
    sets: Vec<(u32, u32, usize, usize, usize)>,
    /// instances per set on which the near-solutions (repeated indices, relaxed collisions, ...) and
    /// the random strings are produced
    harvest_instances: usize,
}

#[allow(clippy::too_many_arguments)]
fn mutation_suite(
    w: &mut NdjsonWriter,
    st: &mut Stats,
    rng: &mut ChaCha8Rng,
    p: &P,
    input: &[u8],
    nonce: &[u8],
    sol: &[u32],
    h: &Hasher,
    full: bool,
) {
    let soln = encode(p, sol);
    assert_eq!(soln.len(), p.sol_len());
    assert_eq!(decode(p, &soln), sol, "harness: encode/decode");
    log_candidate(w, st, p, "solution", input, nonce, &soln, Some(h), Some(true));

    // every single-bit flip of the solution bytes (full) or a seeded sample (light)
    let nbits = soln.len() * 8;
    let bits: Vec<usize> = if full {
        (0..nbits).collect()
    } else {
        let mut b: Vec<usize> = (0..nbits).collect();
        b.shuffle(rng);
        b.truncate(24);
        b
    };
    for b in bits {
        log_candidate(w, st, p, "flip_soln", input, nonce, &flip(&soln, b), Some(h), None);
    }
    // every single-bit flip of input and nonce (each logged with the rows of the *mutated* message)
    let in_bits: Vec<usize> = if full {
        (0..input.len() * 8).collect()
    } else {
        (0..input.len() * 8).filter(|_| rng.gen_range(0..16) == 0).collect()
    };
    for b in in_bits {
        log_candidate(w, st, p, "flip_input", &flip(input, b), nonce, &soln, None, None);
    }
    let no_bits: Vec<usize> = if full {
        (0..nonce.len() * 8).collect()
    } else {
        (0..nonce.len() * 8).filter(|_| rng.gen_range(0..16) == 0).collect()
    };
    for b in no_bits {
        log_candidate(w, st, p, "flip_nonce", input, &flip(nonce, b), &soln, None, None);
    }
    // input/nonce boundary moved, bytes appended/removed (the message is input || nonce, so moving the
    // boundary alone must NOT change the verdict: logged with its own rows like everything else)
    if !input.is_empty() {
        let (a, b) = input.split_at(input.len() - 1);
        let n2 = [b, nonce].concat();
        log_candidate(w, st, p, "boundary_moved", a, &n2, &soln, None, Some(true));
        log_candidate(w, st, p, "input_truncated", a, nonce, &soln, None, None);
    }
    log_candidate(w, st, p, "nonce_extended", input, &[nonce, &[0u8][..]].concat(), &soln, None, None);

    // sibling swap at every inner node of the tree
    let nn = sol.len();
    let mut size = 1;
    while size < nn {
        let mut lo = 0;
        while lo < nn {
            let mut m = sol.to_vec();
            for t in 0..size {
                m.swap(lo + t, lo + size + t);
            }
            log_candidate(w, st, p, "sibling_swap", input, nonce, &encode(p, &m), Some(h), Some(false));
            lo += 2 * size;
        }
        size *= 2;
    }
    // cross-subtree permutations: exchange two subtrees that are not siblings; swap two single
    // non-leading leaves inside one pair; rotate
    let mut size = 1;
    while size * 4 <= nn {
        let mut m = sol.to_vec();
        for t in 0..size {
            m.swap(t, 2 * size + t); // first subtree with its cousin
        }
        log_candidate(w, st, p, "cousin_swap", input, nonce, &encode(p, &m), Some(h), None);
        let mut m = sol.to_vec();
        for t in 0..size {
            m.swap(size + t, 3 * size + t); // second children of two sibling nodes
        }
        log_candidate(w, st, p, "cousin_swap", input, nonce, &encode(p, &m), Some(h), None);
        size *= 2;
    }
    let mut m = sol.to_vec();
    m.rotate_left(1);
    log_candidate(w, st, p, "rotate", input, nonce, &encode(p, &m), Some(h), None);
    let mut m = sol.to_vec();
    m.sort();
    log_candidate(w, st, p, "sorted", input, nonce, &encode(p, &m), Some(h), None);
    let mut m = sol.to_vec();
    m.reverse();
    log_candidate(w, st, p, "reversed", input, nonce, &encode(p, &m), Some(h), None);

    // duplicated indices: one position overwritten by another position's index (sample), the whole
    // right half replaced by the left half, and by the canonical re-ordering of such lists
    for _ in 0..(if full { 24 } else { 6 }) {
        let a = rng.gen_range(0..nn);
        let mut b = rng.gen_range(0..nn);
        if a == b {
            b = (b + 1) % nn;
        }
        let mut m = sol.to_vec();
        m[a] = m[b];
        log_candidate(w, st, p, "dup_one", input, nonce, &encode(p, &m), Some(h), Some(false));
        log_candidate(w, st, p, "dup_one", input, nonce, &encode(p, &canonical_order(&m)), Some(h), Some(false));
    }
    // one index replaced by a random other one / by its neighbour (keeps the order canonical when possible)
    for _ in 0..(if full { 16 } else { 4 }) {
        let a = rng.gen_range(0..nn);
        let mut m = sol.to_vec();
        m[a] = rng.gen_range(0..p.table_size() as u32);
        log_candidate(w, st, p, "replace_one", input, nonce, &encode(p, &canonical_order(&m)), Some(h), None);
        let mut m = sol.to_vec();
        m[a] ^= 1;
        log_candidate(w, st, p, "replace_one", input, nonce, &encode(p, &canonical_order(&m)), Some(h), None);
    }

    // wrong lengths built from the solution
    for cut in 1..=2usize {
        log_candidate(w, st, p, "truncated", input, nonce, &soln[..soln.len() - cut], Some(h), Some(false));
        log_candidate(w, st, p, "truncated_front", input, nonce, &soln[cut..], Some(h), Some(false));
        for fill in [0u8, 0xff, rng.r#gen()] {
            let mut m = soln.clone();
            m.extend(std::iter::repeat(fill).take(cut));
            log_candidate(w, st, p, "extended", input, nonce, &m, Some(h), Some(false));
        }
    }
    log_candidate(w, st, p, "half", input, nonce, &soln[..soln.len() / 2], Some(h), Some(false));
    log_candidate(w, st, p, "half", input, nonce, &soln[soln.len() / 2..], Some(h), Some(false));
    log_candidate(w, st, p, "doubled", input, nonce, &[&soln[..], &soln[..]].concat(), Some(h), Some(false));
    log_candidate(w, st, p, "empty", input, nonce, &[], Some(h), Some(false));
}

fn random_suite(w: &mut NdjsonWriter, st: &mut Stats, rng: &mut ChaCha8Rng, p: &P, input: &[u8], nonce: &[u8], h: &Hasher) {
    // random byte strings of every length 0..=len+2; several of the right length
    for len in 0..=p.sol_len() + 2 {
        log_candidate(w, st, p, "random", input, nonce, &rand_bytes(rng, len), Some(h), None);
    }
    for _ in 0..6 {
        log_candidate(w, st, p, "random", input, nonce, &rand_bytes(rng, p.sol_len()), Some(h), None);
    }
    // random *distinct* indices in canonical order: only the collisions are wrong
    for _ in 0..6 {
        let mut s = BTreeSet::new();
        while s.len() < p.n_indices() {
            s.insert(rng.gen_range(0..p.table_size() as u32));
        }
        let mut v: Vec<u32> = s.into_iter().collect();
        v.shuffle(rng);
        log_candidate(w, st, p, "random_canonical", input, nonce, &encode(p, &canonical_order(&v)), Some(h), Some(false));
    }
    // constant fills of the right length (all indices equal)
    for fill in [0u8, 0xff] {
        log_candidate(w, st, p, "fill", input, nonce, &vec![fill; p.sol_len()], Some(h), Some(false));
    }
}

fn doubled(sub: &[u32], total: usize) -> Vec<u32> {
    let mut v = sub.to_vec();
    while v.len() < total {
        v = [v.clone(), v].concat();
    }
    v
}

fn pick_message(rng: &mut ChaCha8Rng, small: bool) -> (Vec<u8>, Vec<u8>) {
    let ilen = if small { *[0usize, 1, 3, 8].choose(rng).unwrap() } else { *[0usize, 1, 16, 64, 108].choose(rng).unwrap() };
    let nlen = if small { *[0usize, 1, 4, 8].choose(rng).unwrap() } else { *[32usize, 32, 4, 0, 33].choose(rng).unwrap() };
    (rand_bytes(rng, ilen), rand_bytes(rng, nlen))
}

/// Near-solutions of one (input, nonce) instance: everything holds except one clause of the definition.
#[allow(clippy::too_many_arguments)]
fn harvest(
    w: &mut NdjsonWriter,
    st: &mut Stats,
    rng: &mut ChaCha8Rng,
    p: &P,
    input: &[u8],
    nonce: &[u8],
    h: &Hasher,
    leaves: &[u128],
    counts: &mut [usize; 4],
) -> Vec<Vec<u32>> {
    let mut s = wagner(p, leaves, None, true, rng);
    // prefer the pseudo-solutions with the fewest repeated indices (closest to a real solution)
    if s.dups.len() > 4000 {
        s.dups.shuffle(rng);
        s.dups.truncate(4000);
    }
    s.dups.sort_by_cached_key(|d| std::cmp::Reverse(d.iter().collect::<BTreeSet<_>>().len()));
    for d in s.dups.iter().take(8) {
        counts[0] += 1;
        log_candidate(w, st, p, "wagner_dup", input, nonce, &encode(p, d), Some(h), Some(false));
    }
    for d in s.near_root.iter().take(4) {
        counts[2] += 1;
        log_candidate(w, st, p, "near_root", input, nonce, &encode(p, d), Some(h), Some(false));
    }
    for d in s.short.iter().take(6) {
        counts[3] += 1;
        log_candidate(w, st, p, "short_tree", input, nonce, &encode(p, d), Some(h), Some(false));
    }
    for lvl in 0..p.k as usize {
        // a valid subtree of height lvl (lvl = 0: a leaf), doubled up to full size: every collision
        // holds trivially, the total XOR is zero, only distinctness (and strict order) fails
        let sub: Option<Vec<u32>> =
            if lvl == 0 { Some(vec![rng.gen_range(0..p.table_size() as u32)]) } else { s.halves[lvl].first().cloned() };
        if let Some(sub) = sub {
            log_candidate(w, st, p, "doubled_subtree", input, nonce, &encode(p, &doubled(&sub, p.n_indices())), Some(h), Some(false));
        }
    }
    // pairs (a,a),(b,b),... ascending: everything XORs to zero, nothing is distinct
    {
        let mut s2 = BTreeSet::new();
        while s2.len() < p.n_indices() / 2 {
            s2.insert(rng.gen_range(0..p.table_size() as u32));
        }
        let v: Vec<u32> = s2.into_iter().flat_map(|i| [i, i]).collect();
        log_candidate(w, st, p, "dup_pairs", input, nonce, &encode(p, &v), Some(h), Some(false));
    }
    random_suite(w, st, rng, p, input, nonce, h);
    // relaxed runs: one level tolerates a one-bit (lowest / highest bit of the segment) difference
    if p.c <= 16 {
        for lvl in 1..=p.k + 1 {
            for delta in [1u32, 1u32 << (p.c - 1)] {
                let r = wagner(p, leaves, Some((lvl, delta)), false, rng);
                for d in r.relaxed.iter().take(3) {
                    counts[1] += 1;
                    log_candidate(w, st, p, "relaxed_collision", input, nonce, &encode(p, d), Some(h), Some(false));
                }
            }
        }
    }
    s.solutions
}

fn run_sols(out: &str, tier: &str) -> Value {
    let seed = seed_from_env();
    let mut rng = ChaCha8Rng::seed_from_u64(seed ^ 0xC19_0001);
    let mut w = NdjsonWriter::create(out);
    let mut st = Stats { records: 0, accepted: 0, rejected: 0, panics: 0, by_kind: Default::default(), harness_expectation_mismatch: 0 };
    // Solutions with 2^k distinct indices out of 2^(c+1) are rare when 2^k is close to 2^(c+1):
    // about 1 instance in 30 for (56,6), 1 in 1500 for (72,7); hence the search bounds. For (64,7)
    // (128 of 512 indices) none was found in 300 000 instances: that set contributes near-solutions,
    // random strings and wrong lengths only.
    let plan = if tier == "quick" {
        Plan {
            sets: vec![
                (48, 5, 400, 1, 3), (32, 3, 400, 1, 3), (40, 4, 400, 1, 3), (56, 6, 3000, 1, 2), (72, 7, 8000, 1, 1),
                (40, 3, 400, 1, 3), (48, 3, 400, 1, 3), (64, 3, 60, 1, 3),
                // an index width of a whole number of bytes (c + 1 = 16): the smallest such set
                (120, 7, 12, 0, 1),
            ],
            harvest_instances: 2,
        }
    } else {
        Plan {
            sets: vec![
                (48, 5, 2000, 3, 12), (32, 3, 2000, 3, 12), (40, 4, 2000, 3, 12), (56, 6, 20000, 2, 6), (64, 7, 5, 0, 0),
                (72, 7, 40000, 1, 4), (40, 3, 2000, 3, 12), (80, 7, 4000, 1, 4), (48, 3, 2000, 3, 12), (72, 5, 2000, 2, 8),
                (64, 3, 400, 2, 8), (80, 4, 400, 2, 6), (96, 5, 400, 2, 6), (80, 3, 12, 1, 2), (120, 7, 40, 0, 3),
            ],
            harvest_instances: 5,
        }
    };
    let mut per_set = vec![];
    for (n, k, search_bound, want_full, want_light) in &plan.sets {
        let p = P::new(*n, *k);
        let big = p.c >= 20;
        let (want_full, want_light) = (*want_full, *want_light);
        let (mut full_done, mut light_done, mut instances, mut solutions_found) = (0usize, 0usize, 0usize, 0usize);
        let mut counts = [0usize; 4];
        // (120,7): 2^16 leaves per instance - solutions and light suites only, no harvest of near-solutions
        let harvest_n = if *n >= 100 { 0 } else if big { 1 } else { plan.harvest_instances };
        while instances < *search_bound && (full_done < want_full || light_done < want_light || instances < harvest_n) {
            instances += 1;
            // full suites use short messages (every bit of them is flipped), the others realistic lengths
            let (input, nonce) = pick_message(&mut rng, full_done < want_full);
            let h = Hasher::new(p, &input, &nonce);
            let leaves = h.all_leaves();
            let sols = if instances <= harvest_n {
                harvest(&mut w, &mut st, &mut rng, &p, &input, &nonce, &h, &leaves, &mut counts)
            } else {
                wagner(&p, &leaves, None, false, &mut rng).solutions
            };
            solutions_found += sols.len();
            for sol in &sols {
                if full_done < want_full {
                    full_done += 1;
                    mutation_suite(&mut w, &mut st, &mut rng, &p, &input, &nonce, sol, &h, true);
                } else if light_done < want_light {
                    light_done += 1;
                    mutation_suite(&mut w, &mut st, &mut rng, &p, &input, &nonce, sol, &h, false);
                } else {
                    log_candidate(&mut w, &mut st, &p, "solution", &input, &nonce, &encode(&p, sol), Some(&h), Some(true));
                }
            }
        }
        per_set.push(json!({"n": n, "k": k, "c": p.c, "instances": instances, "solutions_found": solutions_found,
            "full_suites": full_done, "light_suites": light_done, "wagner_dups": counts[0], "relaxed": counts[1],
            "near_root": counts[2], "short_tree": counts[3]}));
    }
    let records = w.finish();
    json!({"records": records, "accepted": st.accepted, "rejected": st.rejected, "panics": st.panics,
           "harness_expectation_mismatch": st.harness_expectation_mismatch,
           "by_kind": st.by_kind.iter().map(|(k, v)| (k.clone(), json!([v.0, v.1]))).collect::<serde_json::Map<_, _>>(),
           "per_set": per_set, "seed": seed})
}

// ------------------------------------------------------------------------------------------------
// the (n, k) grid: every pair, the matching solution length (where it can be allocated) and its
// neighbours, constant fills 0x00 / 0xff (all indices equal => never a valid solution)

fn matching_len(n: u32, k: u32) -> Option<u128> {
    // 2^k * (n/(k+1) + 1) / 8 with integer divisions, for *any* (n, k); None if beyond 2^100
    if k > 90 {
        return None;
    }
    let c = (n / (k + 1)) as u128;
    Some(((1u128 << k) * (c + 1)) / 8)
}

fn run_grid(out: &str, nmax: u32, kmax: u32, cap_log2: u32) -> Value {
    let seed = seed_from_env();
    let mut rng = ChaCha8Rng::seed_from_u64(seed ^ 0xC19_0002);
    let mut w = NdjsonWriter::create(out);
    let cap: u128 = 1u128 << cap_log2;
    let input = b"verif C19 grid".to_vec();
    let nonce = vec![7u8; 32];
    let (mut calls, mut panics, mut oks, mut pairs, mut beyond_cap) = (0usize, 0usize, 0usize, 0usize, 0usize);
    let mut zeros: Vec<u8> = Vec::new();
    let mut ones: Vec<u8> = Vec::new();
    for n in 0..=nmax {
        for k in 0..=kmax {
            pairs += 1;
            let mut lens: BTreeSet<usize> = [0usize, 1, 2].into_iter().collect();
            match matching_len(n, k) {
                Some(l0) if l0 <= cap => {
                    let l0 = l0 as usize;
                    lens.insert(l0);
                    lens.insert(l0 + 1);
                    if l0 > 0 {
                        lens.insert(l0 - 1);
                    }
                }
                _ => beyond_cap += 1,
            }
            let mut cells = vec![];
            let mut msgs = vec![];
            for len in lens {
                for fill in [0u8, 0xff] {
                    let buf = if fill == 0 { &mut zeros } else { &mut ones };
                    if buf.len() < len {
                        buf.resize(len, fill);
                    }
                    let (v, msg) = call(n, k, &input, &nonce, &buf[..len]);
                    calls += 1;
                    if v == "panic" {
                        panics += 1;
                    }
                    if v == "ok" {
                        oks += 1;
                    }
                    cells.push(json!([len, fill, v]));
                    msgs.push(if v == "panic" { msg } else { String::new() });
                }
            }
            if msgs.iter().all(|m| m.is_empty()) {
                w.emit(&json!({"t": "grid", "n": n, "k": k, "cells": cells}));
            } else {
                w.emit(&json!({"t": "grid", "n": n, "k": k, "cells": cells, "msgs": msgs}));
            }
        }
    }
    // invalid-parameter sweep: parameter pairs the rule rejects (k < 3, k >= n, n not a multiple of 8
    // or of k+1) with many random strings of every small length: none may be accepted, none may panic
    let mut sweeps = 0usize;
    for k in 0..=8u32 {
        for n in (0..=72u32).filter(|n| n % 4 == 0) {
            let valid = n % 8 == 0 && k >= 3 && k < n && n % (k + 1) == 0;
            if valid {
                continue;
            }
            let l0 = matching_len(n, k).unwrap() as usize;
            for len in [l0.saturating_sub(1), l0, l0 + 1] {
                if len > 4096 {
                    continue;
                }
                let tries = 400usize;
                let (mut ok, mut err, mut pan) = (0usize, 0usize, 0usize);
                let mut first_bad = json!({});
                for _ in 0..tries {
                    let s = rand_bytes(&mut rng, len);
                    let (v, msg) = call(n, k, &input, &nonce, &s);
                    calls += 1;
                    match v {
                        "ok" => ok += 1,
                        "err" => err += 1,
                        _ => pan += 1,
                    }
                    if v != "err" && first_bad.as_object().map(|o| o.is_empty()).unwrap_or(false) {
                        first_bad = json!({"solnhex": hex::encode(&s), "verdict": v, "msg": msg});
                    }
                }
                if pan > 0 {
                    panics += pan;
                }
                sweeps += 1;
                w.emit(&json!({"t": "sweep", "n": n, "k": k, "len": len, "tries": tries, "ok": ok, "err": err, "panic": pan,
                               "first_bad": first_bad}));
            }
        }
    }
    let records = w.finish();
    json!({"records": records, "pairs": pairs, "calls": calls, "panics": panics, "accepted": oks,
           "input": hex::encode(&input), "nonce": hex::encode(&nonce),
           "matching_len_beyond_cap": beyond_cap, "sweeps": sweeps, "cap_log2": cap_log2, "seed": seed})
}

// ------------------------------------------------------------------------------------------------
// replay of one recorded call

fn run_replay(path: &str, out: &str) -> Value {
    let txt = std::fs::read_to_string(path).unwrap_or_else(|e| panic!("open {path}: {e}"));
    let rep: Value = serde_json::from_str(&txt).expect("replay json");
    let mut w = NdjsonWriter::create(out);
    let n = rep["n"].as_u64().expect("n") as u32;
    let k = rep["k"].as_u64().expect("k") as u32;
    let input = hex::decode(rep["input"].as_str().expect("input")).expect("hex");
    let nonce = hex::decode(rep["nonce"].as_str().expect("nonce")).expect("hex");
    let mut st = Stats { records: 0, accepted: 0, rejected: 0, panics: 0, by_kind: Default::default(), harness_expectation_mismatch: 0 };
    match rep["kind"].as_str().expect("kind") {
        "sol" => {
            let soln = hex::decode(rep["solnhex"].as_str().expect("solnhex")).expect("hex");
            let supported = n % 8 == 0 && k >= 3 && k < n && n % (k + 1) == 0 && (8..=24).contains(&(n / (k + 1))) && n <= 128;
            if supported {
                let p = P::new(n, k);
                log_candidate(&mut w, &mut st, &p, rep["cand"].as_str().unwrap_or("replay"), &input, &nonce, &soln, None, None);
            } else {
                // outside the solver's parameter sets: logged as a one-try sweep record
                let (v, msg) = call(n, k, &input, &nonce, &soln);
                w.emit(&json!({"t": "sweep", "n": n, "k": k, "len": soln.len(), "tries": 1,
                    "ok": (v == "ok") as u32, "err": (v == "err") as u32, "panic": (v == "panic") as u32,
                    "first_bad": if v == "err" { json!({}) } else { json!({"solnhex": hex::encode(&soln), "verdict": v, "msg": msg}) },
                }));
            }
        }
        "grid" => {
            let len = rep["len"].as_u64().expect("len") as usize;
            let fill = rep["fill"].as_u64().expect("fill") as u8;
            let (v, msg) = call(n, k, &input, &nonce, &vec![fill; len]);
            w.emit(&json!({"t": "grid", "n": n, "k": k, "cells": [json!([len, fill, v])], "msgs": [msg],
                           "input": hex::encode(&input), "nonce": hex::encode(&nonce)}));
        }
        other => panic!("unknown replay kind {other}"),
    }
    let records = w.finish();
    json!({"records": records})
}

fn main() {
    install_panic_hook();
    let a: Vec<String> = std::env::args().collect();
    let usage = "usage: c19_driver sols <out> <tier> | grid <out> <nmax> <kmax> <cap_log2> | replay <file> <out>";
    let res = match a.get(1).map(|s| s.as_str()) {
        Some("sols") => run_sols(&a[2], &a[3]),
        Some("grid") => run_grid(&a[2], a[3].parse().unwrap(), a[4].parse().unwrap(), a[5].parse().unwrap()),
        Some("replay") => run_replay(&a[2], &a[3]),
        _ => {
            eprintln!("{usage}");
            std::process::exit(2);
        }
    };
    println!("{}", res);
}
