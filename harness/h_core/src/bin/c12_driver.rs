//! C12, code -> spec.  A seeded driver exercises the real zip321 / memo code and writes one ndjson
//! record per observation (see spec/Address/Trace_Zip321.tla for the events); TLC judges every record.
//!
//!   c12_driver gen  <out.ndjson> <n_rt> <n_token_uris> <n_mutated> <n_memo>     (VERIF_SEED)
//!   c12_driver eval <in.ndjson> <out.ndjson>     re-evaluates the "in" part of each record (replay)
//!
//! Every record carries `in`: the concrete input (URI text, or the request / call described by plain
//! values), from which `eval` reproduces the record on the current build.  Inputs are generated first and
//! evaluated by the same function in both modes.
#[path = "../c12_common.rs"]
mod c12_common;

use std::collections::BTreeMap;

use c12_common::*;
use h_core::util::{NdjsonWriter, guarded, quiet_panics, read_ndjson, seed_from_env};
use rand::{Rng, SeedableRng, seq::SliceRandom};
use rand_chacha::ChaCha8Rng;
use serde_json::{Value, json};
use zcash_address::ZcashAddress;
use zcash_protocol::memo::{Memo, MemoBytes};
use zcash_protocol::value::Zatoshis;
use zip321::{Payment, TransactionRequest, memo_from_base64, memo_to_base64};

// ------------------------------------------------------------------------------------------ evaluation

fn hex_bytes(v: &Value) -> Vec<u8> {
    hex::decode(v.as_str().expect("hex string")).expect("hex")
}

fn opt_string(v: &Value) -> Option<String> {
    if v.is_null() { None } else { Some(v.as_str().expect("string").to_string()) }
}

fn opt_u64(v: &Value) -> Option<u64> {
    if v.is_null() { None } else { Some(v.as_str().expect("decimal string").parse::<u64>().expect("u64")) }
}

/// A payment described by plain values -> (the specification's record from the harness' own inputs, the real Payment)
fn build_payment(p: &Value, tab: &AddrTable) -> (Value, Result<Payment, String>) {
    let idx = p["idx"].as_u64().unwrap() as usize;
    let addr = p["addr"].as_str().unwrap();
    let (a, kd) = tab.lookup(addr);
    let zat = opt_u64(&p["zat"]);
    let memo = if p["memo"].is_null() { None } else { Some(hex_bytes(&p["memo"])) };
    let label = opt_string(&p["label"]);
    let message = opt_string(&p["message"]);
    let other: Vec<(String, String)> = p["other"]
        .as_array()
        .unwrap()
        .iter()
        .map(|x| (x[0].as_str().unwrap().to_string(), x[1].as_str().unwrap().to_string()))
        .collect();
    let rec = json!({
        "i": bytes_json(&index_digits(idx)), "a": a, "kd": kd,
        "hz": zat.is_some(), "z": bytes_json(&zat.map(digits_of_u64).unwrap_or_default()),
        "hm": memo.is_some(), "m": bytes_json(memo.as_deref().map(strip_zeros).unwrap_or_default()),
        "hl": label.is_some(), "l": bytes_json(label.as_deref().unwrap_or("").as_bytes()),
        "hg": message.is_some(), "g": bytes_json(message.as_deref().unwrap_or("").as_bytes()),
        "o": Value::Array(other.iter().map(|(n, v)| json!([bytes_json(n.as_bytes()), bytes_json(v.as_bytes())])).collect()),
    });
    let built = guarded(|| {
        let address = ZcashAddress::try_from_encoded(addr).map_err(|e| format!("address: {e}"))?;
        let amount = match zat {
            None => None,
            Some(z) => Some(Zatoshis::from_u64(z).map_err(|e| format!("amount: {e:?}"))?),
        };
        let memo = match &memo {
            None => None,
            Some(b) => Some(MemoBytes::from_bytes(b).map_err(|e| format!("memo: {e:?}"))?),
        };
        Payment::new(address, amount, memo, label.clone(), message.clone(), other.clone()).map_err(|e| format!("{e}"))
    });
    (rec, match built { Err(p) => Err(format!("panic: {p}")), Ok(r) => r })
}

fn outcome<T, E>(r: &Result<Result<T, E>, String>) -> &'static str {
    match r {
        Err(_) => "panic",
        Ok(Err(_)) => "err",
        Ok(Ok(_)) => "ok",
    }
}

fn eval_uri(input: &Value, tab: &AddrTable) -> Value {
    let uri = input["uri"].as_str().unwrap();
    let (res, pays, back) = run_from_uri(uri, tab);
    json!({"ev": "uri", "u": scan(uri, tab), "res": res, "pays": pays, "back": back, "in": input})
}

fn eval_rt(input: &Value, tab: &AddrTable) -> Value {
    let mut req_desc = vec![];
    let mut payments: Vec<(usize, Payment)> = vec![];
    let mut new = "ok";
    for p in input["pays"].as_array().unwrap() {
        let (rec, built) = build_payment(p, tab);
        req_desc.push(rec);
        match built {
            Ok(pm) => payments.push((p["idx"].as_u64().unwrap() as usize, pm)),
            Err(e) => new = if e.starts_with("panic") { "panic" } else { "perr" },
        }
    }
    let mut request: Option<TransactionRequest> = None;
    if new == "ok" {
        let r = if input["ctor"] == "new" {
            // indices must be 0..n-1 in order
            for (j, (i, _)) in payments.iter().enumerate() {
                assert_eq!(*i, j, "sequential constructor needs indices 0..n-1");
            }
            let v: Vec<Payment> = payments.iter().map(|(_, p)| p.clone()).collect();
            guarded(|| TransactionRequest::new(v))
        } else {
            let m: BTreeMap<usize, Payment> = payments.iter().cloned().collect();
            guarded(|| TransactionRequest::from_indexed(m))
        };
        new = outcome(&r);
        if let Ok(Ok(req)) = r {
            request = Some(req);
        }
    }
    let empty_u = json!({"sch": "bad", "st": [], "lead": {"t": "none", "a": "", "kd": ""}, "ps": []});
    let (ures, u, uri, back, tot) = match &request {
        None => ("na", empty_u, String::new(), "na", json!({"t": "na", "v": []})),
        Some(req) => match guarded(|| req.to_uri()) {
            Err(_) => ("panic", empty_u, String::new(), "na", json!({"t": "na", "v": []})),
            Ok(uri) => {
                let back = match guarded(|| TransactionRequest::from_uri(&uri)) {
                    Err(_) => "panic",
                    Ok(Err(_)) => "err",
                    Ok(Ok(r2)) => {
                        if &r2 == req { "eq" } else { "neq" }
                    }
                };
                let tot = match guarded(|| req.total()) {
                    Err(_) => json!({"t": "panic", "v": []}),
                    Ok(Err(_)) => json!({"t": "err", "v": []}),
                    Ok(Ok(None)) => json!({"t": "none", "v": []}),
                    Ok(Ok(Some(z))) => json!({"t": "val", "v": bytes_json(&digits_of_u64(u64::from(z)))}),
                };
                ("ok", scan(&uri, tab), uri, back, tot)
            }
        },
    };
    json!({"ev": "rt", "req": req_desc, "new": new, "ures": ures, "u": u, "back": back, "tot": tot,
           "uri": uri, "in": input})
}

fn eval_pnew(input: &Value, tab: &AddrTable) -> Value {
    let addr = input["addr"].as_str().unwrap();
    let (_, kd) = tab.lookup(addr);
    let zat = opt_u64(&input["zat"]);
    let hm = input["memo"].as_bool().unwrap();
    let r = guarded(|| {
        Payment::new(
            ZcashAddress::try_from_encoded(addr).expect("table address"),
            zat.map(|z| Zatoshis::from_u64(z).expect("amount in range")),
            if hm { Some(MemoBytes::from_bytes(b"memo").unwrap()) } else { None },
            None,
            None,
            vec![],
        )
    });
    json!({"ev": "pnew", "kd": kd, "hz": zat.is_some(), "z": bytes_json(&zat.map(digits_of_u64).unwrap_or_default()),
           "hm": hm, "res": outcome(&r), "in": input})
}

fn eval_tnew(input: &Value, _tab: &AddrTable) -> Value {
    let n = input["n"].as_u64().unwrap() as usize;
    let dup = input["dup"].as_bool().unwrap();
    let addr = ZcashAddress::try_from_encoded(input["addr"].as_str().unwrap()).expect("table address");
    let mk = |j: usize| {
        let other = if dup && j == n / 2 {
            vec![("x".to_string(), "1".to_string()), ("y".to_string(), "2".to_string()), ("x".to_string(), "3".to_string())]
        } else {
            vec![]
        };
        Payment::new(addr.clone(), Some(Zatoshis::const_from_u64(1 + j as u64)), None, None, None, other).expect("valid payment")
    };
    let v: Vec<Payment> = (0..n).map(mk).collect();
    let r = guarded(|| TransactionRequest::new(v));
    json!({"ev": "tnew", "n": n, "dup": dup, "res": outcome(&r), "in": input})
}

fn eval_fidx(input: &Value, _tab: &AddrTable) -> Value {
    let k: usize = input["k"].as_str().unwrap().parse().expect("usize");
    let addr = ZcashAddress::try_from_encoded(input["addr"].as_str().unwrap()).expect("table address");
    let mut m = BTreeMap::new();
    m.insert(1usize, Payment::without_memo(addr.clone(), Zatoshis::const_from_u64(5)));
    m.insert(k, Payment::without_memo(addr, Zatoshis::const_from_u64(7)));
    let r = guarded(|| TransactionRequest::from_indexed(m));
    json!({"ev": "fidx", "k": bytes_json(&digits_of_u64(k as u64)), "res": outcome(&r), "in": input})
}

fn eval_memo(input: &Value, _tab: &AddrTable) -> Value {
    let b = hex_bytes(&input["hex"]);
    let mut padded = [0u8; 512];
    if b.len() <= 512 {
        padded[..b.len()].copy_from_slice(&b);
    }
    let mb = guarded(|| MemoBytes::from_bytes(&b));
    let (mut sl, mut arr, mut b64, mut b64back) = (vec![], false, String::new(), "na");
    if let Ok(Ok(m)) = &mb {
        if let Ok(x) = guarded(|| (m.as_slice().to_vec(), m.as_array() == &padded, m.clone().into_bytes() == padded)) {
            sl = x.0;
            arr = x.1 && x.2;
        }
        if let Ok(s) = guarded(|| memo_to_base64(m)) {
            b64back = match guarded(|| memo_from_base64(&s)) {
                Err(_) => "panic",
                Ok(Err(_)) => "err",
                Ok(Ok(m2)) => {
                    if &m2 == m && m2.as_array() == &padded { "eq" } else { "neq" }
                }
            };
            b64 = s;
        }
    }
    let parsed = guarded(|| Memo::from_bytes(&b));
    let (mut kind, mut txt, mut enc) = ("err", vec![], vec![]);
    match &parsed {
        Err(_) => kind = "panic",
        Ok(Err(_)) => {}
        Ok(Ok(m)) => {
            kind = match m {
                Memo::Empty => "empty",
                Memo::Text(t) => {
                    txt = (**t).as_bytes().to_vec();
                    "text"
                }
                Memo::Future(_) => "future",
                Memo::Arbitrary(_) => "arbitrary",
            };
            match guarded(|| m.encode()) {
                Ok(e) => enc = strip_zeros(e.as_array()).to_vec(),
                Err(_) => kind = "panic",
            }
        }
    }
    json!({"ev": "memo", "b": bytes_json(&b), "mb": outcome(&mb), "sl": bytes_json(&sl), "arr": arr,
           "kind": kind, "txt": bytes_json(&txt), "enc": bytes_json(&enc), "b64": bytes_json(b64.as_bytes()),
           "b64back": b64back, "in": input})
}

/// Totality on long / odd strings: only "no panic" is judged (the strings are rebuilt from `in`, not stored).
fn any_string(input: &Value, tab: &AddrTable) -> String {
    let n = input["n"].as_u64().unwrap() as usize;
    let a = tab.pick("main", "sapling", 0);
    match input["kind"].as_str().unwrap() {
        "rand" | "rand_zcash" => {
            let mut rng = ChaCha8Rng::seed_from_u64(input["k"].as_u64().unwrap());
            let mut s = String::from(if input["kind"] == "rand_zcash" { "zcash:" } else { "" });
            for _ in 0..n {
                let c = match rng.gen_range(0..4) {
                    0 => rng.gen_range(0u8..0x80) as char,
                    1 => *b"zcash:?&=.%+-0123456789".choose(&mut rng).unwrap() as char,
                    _ => loop {
                        if let Some(c) = char::from_u32(rng.gen_range(0u32..0x110000)) {
                            break c;
                        }
                    },
                };
                s.push(c);
            }
            s
        }
        "many_items" => format!("zcash:{a}?{}", (0..n).map(|j| format!("p{j}=1")).collect::<Vec<_>>().join("&")),
        "many_payments" => format!("zcash:?{}", (1..=n.min(9999)).map(|j| format!("address.{j}={a}&amount.{j}=0.{j}")).collect::<Vec<_>>().join("&")),
        "same_item" => format!("zcash:{a}?{}", vec!["label=a"; n].join("&")),
        "long_amount_int" => format!("zcash:{a}?amount={}", "9".repeat(n)),
        "long_amount_zeros" => format!("zcash:{a}?amount={}1", "0".repeat(n)),
        "long_amount_frac" => format!("zcash:{a}?amount=0.{}", "0".repeat(n)),
        "long_index" => format!("zcash:?address.{}={a}", "1".repeat(n)),
        "long_label" => format!("zcash:{a}?label={}", "%41".repeat(n)),
        "long_percent" => format!("zcash:{a}?label={}", "%".repeat(n)),
        "long_memo" => format!("zcash:{a}?memo={}", "A".repeat(n)),
        "long_lead" => format!("zcash:{}", "z".repeat(n)),
        "long_name" => format!("zcash:{a}?{}=1", "n".repeat(n)),
        "ampersands" => format!("zcash:{a}?{}", "&".repeat(n)),
        "questions" => format!("zcash:{}", "?".repeat(n)),
        "equals" => format!("zcash:{a}?a{}", "=".repeat(n)),
        "dots" => format!("zcash:{a}?a{}=1", ".".repeat(n)),
        other => panic!("unknown string kind {other}"),
    }
}

fn eval_any(input: &Value, tab: &AddrTable) -> Value {
    let s = any_string(input, tab);
    let res = match guarded(|| TransactionRequest::from_uri(&s).map(|r| r.to_uri())) {
        Err(_) => "panic",
        Ok(Err(_)) => "err",
        Ok(Ok(_)) => "ok",
    };
    json!({"ev": "any", "kind": input["kind"], "n": input["n"], "len": s.len(), "res": res, "in": input})
}

fn eval_one(ev: &str, input: &Value, tab: &AddrTable) -> Value {
    match ev {
        "any" => eval_any(input, tab),
        "uri" => eval_uri(input, tab),
        "rt" => eval_rt(input, tab),
        "pnew" => eval_pnew(input, tab),
        "tnew" => eval_tnew(input, tab),
        "fidx" => eval_fidx(input, tab),
        "memo" => eval_memo(input, tab),
        _ => panic!("unknown event {ev}"),
    }
}

// ------------------------------------------------------------------------------------------ generation

struct Gen<'a> {
    rng: ChaCha8Rng,
    tab: &'a AddrTable,
}

const POW10: [u64; 16] = [
    1, 10, 100, 1_000, 10_000, 100_000, 1_000_000, 10_000_000, 100_000_000, 1_000_000_000, 10_000_000_000,
    100_000_000_000, 1_000_000_000_000, 10_000_000_000_000, 100_000_000_000_000, 1_000_000_000_000_000,
];

const SPECIAL_CHARS: &[char] = &[
    '%', '&', '=', '+', ' ', '#', '?', '/', ':', '@', '!', '$', '\'', '(', ')', '*', ',', ';', '-', '.', '_', '~', '"',
    '<', '>', '[', '\\', ']', '^', '`', '{', '|', '}', '\0', '\n', '\t', '\u{7f}', '\u{80}', '\u{a0}', '\u{e9}', '\u{ff}',
    '\u{2028}', '\u{fffd}', '\u{ffff}', '\u{10000}', '\u{1f600}', '\u{10ffff}', '\u{d7ff}', '\u{e000}', '\u{7ff}', '\u{800}',
];

impl Gen<'_> {
    fn net(&mut self) -> &'static str {
        NETS[self.rng.gen_range(0..3)].0
    }

    fn kind(&mut self) -> &'static str {
        KINDS[self.rng.gen_range(0..KINDS.len())]
    }

    fn addr(&mut self, net: &str, kind: &str) -> String {
        let n = self.rng.gen_range(0..PER_KIND);
        self.tab.pick(net, kind, n).to_string()
    }

    fn zat(&mut self) -> u64 {
        let r = &mut self.rng;
        match r.gen_range(0..12) {
            0 => [0u64, 1, 9, 10, 99_999_999, 100_000_000, 100_000_001, 123_456_789, MAX_MONEY, MAX_MONEY - 1,
                  MAX_MONEY - 100_000_000, MAX_MONEY - 99_999_999, 2_099_999_999_999_999, 1_000_000_000_000_000][r.gen_range(0..14)],
            1 => POW10[r.gen_range(0..16)],
            2 => POW10[r.gen_range(1..16)] - 1,
            3 => POW10[r.gen_range(0..16)] + 1,
            4 | 5 => r.gen_range(1..=21u64) * POW10[r.gen_range(0..15)],                 // few significant digits
            6 => r.gen_range(0..100_000_000u64),                                           // below one coin
            7 => r.gen_range(0..21_000_000u64) * 100_000_000,                              // whole coins
            8 => (r.gen_range(0..21_000_000u64) * 100_000_000 + r.gen_range(0..1000u64) * POW10[r.gen_range(0..6)]).min(MAX_MONEY),
            9 => r.gen_range(0..1000u64),
            _ => r.gen_range(0..=MAX_MONEY),
        }
    }

    fn text(&mut self, max_chars: usize) -> String {
        let n = match self.rng.gen_range(0..10) {
            0 => 0,
            1 => 1,
            _ => self.rng.gen_range(0..=max_chars),
        };
        let mut s = String::new();
        for _ in 0..n {
            let c = match self.rng.gen_range(0..10) {
                0..=2 => *b"abcXYZ059".choose(&mut self.rng).unwrap() as char,
                3..=5 => *SPECIAL_CHARS.choose(&mut self.rng).unwrap(),
                6 => self.rng.gen_range(0x20u8..0x7f) as char,
                7 => char::from_u32(self.rng.gen_range(0x80u32..0x800)).unwrap(),
                8 => loop {
                    if let Some(c) = char::from_u32(self.rng.gen_range(0x800u32..0x10000)) {
                        break c;
                    }
                },
                _ => char::from_u32(self.rng.gen_range(0x10000u32..0x110000)).unwrap(),
            };
            s.push(c);
        }
        if self.rng.gen_range(0..12) == 0 {
            s.push_str(["%41", "%", "%2", "%zz", "%C3%A9", "a=b&c=d", "+", "%25"].choose(&mut self.rng).unwrap());
        }
        s
    }

    /// a valid "other" parameter name: not reserved, not req-, also not a case variant of either
    fn other_name(&mut self) -> String {
        loop {
            let n = self.rng.gen_range(1..=9);
            let mut s = String::new();
            for j in 0..n {
                let pool: &[u8] = if j == 0 {
                    b"abcdefghijklmnopqrstuvwxyzABCDEFGHIJKLMNOPQRSTUVWXYZ"
                } else {
                    b"abcdefghijklmnopqrstuvwxyzABCDEFGHIJKLMNOPQRSTUVWXYZ0123456789+-+-+-"
                };
                s.push(*pool.choose(&mut self.rng).unwrap() as char);
            }
            if self.rng.gen_range(0..8) == 0 {
                s = ["addr", "amounts", "memos", "labels", "msg", "re", "req", "reqx", "a", "z", "label-1", "x-req-a"]
                    .choose(&mut self.rng)
                    .unwrap()
                    .to_string();
            }
            let l = s.to_ascii_lowercase();
            if ["address", "amount", "memo", "label", "message"].contains(&l.as_str()) || l.starts_with("req-") {
                continue;
            }
            return s;
        }
    }

    fn memo_bytes(&mut self, max_len: usize) -> Vec<u8> {
        let r = &mut self.rng;
        let len = match r.gen_range(0..10) {
            0 => 0,
            1 => 1,
            2 => max_len,
            3 => max_len.saturating_sub(1),
            4 => r.gen_range(0..=max_len),
            _ => r.gen_range(0..=40.min(max_len)),
        };
        let mut b = vec![0u8; len];
        match r.gen_range(0..5) {
            0 => {}                                                       // zeros
            1 => r.fill(&mut b[..]),                                     // random bytes
            2 => b.iter_mut().for_each(|x| *x = r.gen_range(0x20..0x7f)), // ASCII text
            3 => {
                // UTF-8 text cut to length (may end inside a character)
                let s: String = (0..len).map(|_| ['a', 'é', '€', '😀'][r.gen_range(0..4)]).collect();
                b.copy_from_slice(&s.as_bytes()[..len]);
            }
            _ => {
                r.fill(&mut b[..]);
                let z = r.gen_range(0..=len);
                b[len - z..].iter_mut().for_each(|x| *x = 0); // trailing zeros
            }
        }
        if len > 0 && r.gen_range(0..2) == 0 {
            b[0] = [0x00u8, 0x41, 0x7f, 0x80, 0xc3, 0xf4, 0xf5, 0xf6, 0xf7, 0xfe, 0xff][r.gen_range(0..11)];
            if b[0] == 0xf6 && r.gen_range(0..2) == 0 {
                b[1..].iter_mut().for_each(|x| *x = 0); // the "no memo" form
            }
        }
        b
    }

    fn payment(&mut self, net: &str, idx: usize) -> Value {
        let kind = self.kind();
        let can_memo = ["sprout", "sapling", "ua_orchard", "ua_sapling_t"].contains(&kind);
        let t_only = ["p2pkh", "p2sh", "tex", "ua_t_unknown"].contains(&kind);
        let zat = if self.rng.gen_range(0..8) == 0 {
            Value::Null
        } else {
            let mut z = self.zat();
            if t_only && z == 0 {
                z = 1;
            }
            json!(z.to_string())
        };
        let memo = if can_memo && self.rng.gen_range(0..2) == 0 { json!(hex::encode(self.memo_bytes(512))) } else { Value::Null };
        let label = if self.rng.gen_range(0..2) == 0 { json!(self.text(16)) } else { Value::Null };
        let message = if self.rng.gen_range(0..2) == 0 { json!(self.text(24)) } else { Value::Null };
        let mut other: Vec<Value> = vec![];
        let mut names: Vec<String> = vec![];
        for _ in 0..[0usize, 0, 0, 1, 1, 2, 3][self.rng.gen_range(0..7)] {
            let n = self.other_name();
            if names.contains(&n) {
                continue;
            }
            names.push(n.clone());
            other.push(json!([n, self.text(12)]));
        }
        json!({"idx": idx, "addr": self.addr(net, kind), "zat": zat, "memo": memo, "label": label, "message": message,
               "other": other})
    }

    fn request(&mut self) -> Value {
        let net = self.net();
        let n = match self.rng.gen_range(0..10) {
            0..=3 => 1,
            4..=6 => 2,
            7 | 8 => self.rng.gen_range(3..=6),
            _ => self.rng.gen_range(7..=14),
        };
        if self.rng.gen_range(0..3) == 0 {
            let pays: Vec<Value> = (0..n).map(|j| self.payment(net, j)).collect();
            json!({"ctor": "new", "pays": pays})
        } else {
            let mut idx: Vec<usize> = vec![];
            while idx.len() < n {
                let i = match self.rng.gen_range(0..4) {
                    0 => [0usize, 1, 2, 9, 10, 99, 100, 999, 1000, 9998, 9999][self.rng.gen_range(0..11)],
                    1 => self.rng.gen_range(0..12),
                    _ => self.rng.gen_range(0..10000),
                };
                if !idx.contains(&i) {
                    idx.push(i);
                }
            }
            let pays: Vec<Value> = idx.iter().map(|i| self.payment(net, *i)).collect();
            json!({"ctor": "indexed", "pays": pays})
        }
    }

    // ---------------------------------------------------------------- URIs from grammar tokens
    fn amount_text(&mut self) -> String {
        let r = &mut self.rng;
        match r.gen_range(0..6) {
            0 => ["0", "1", "0.00000001", "21000000", "20999999.99999999", "21000000.00000001", "1.", ".5", "1.5", "001.500",
                  "0.123456789", "1e3", "-1", "21000001", "0.0", "1,0", "", "1.5.5", "18446744073709551616", "0.00000000"]
                [r.gen_range(0..20)].to_string(),
            1 => {
                // integer digits . fraction digits, lengths around the limits
                let ip: String = (0..r.gen_range(0..=9)).map(|_| (b'0' + r.gen_range(0..10u8)) as char).collect();
                let fp: String = (0..r.gen_range(0..=10)).map(|_| (b'0' + r.gen_range(0..10u8)) as char).collect();
                if r.gen_range(0..5) == 0 { ip } else { format!("{ip}.{fp}") }
            }
            2 => {
                let z = r.gen_range(0..=MAX_MONEY + 200_000_000);
                format!("{}.{:08}", z / 100_000_000, z % 100_000_000)
            }
            3 => format!("{}", r.gen_range(20_999_990u64..21_000_010)),
            4 => format!("{}{}", "0".repeat(r.gen_range(0..25)), r.gen_range(0..30u64)),
            _ => format!("2{}.{}", ["0999999", "1000000"][r.gen_range(0..2)], ["99999999", "0", "00000000", "00000001", "000000000"][r.gen_range(0..5)]),
        }
    }

    fn memo_text(&mut self) -> String {
        use base64::{Engine, prelude::BASE64_URL_SAFE_NO_PAD};
        let n = [513usize, 512, 600, 40, 3, 1][self.rng.gen_range(0..6)];
        let b = self.memo_bytes(n);
        let mut s = BASE64_URL_SAFE_NO_PAD.encode(&b);
        match self.rng.gen_range(0..10) {
            0 => s.push('='),
            1 => s.push('A'),
            2 => s = s.replace('-', "+").replace('_', "/"),
            3 => {
                s.pop();
            }
            4 => s.push_str("%3D"),
            _ => {}
        }
        s
    }

    fn value_text(&mut self) -> String {
        let t = self.text(8);
        match self.rng.gen_range(0..4) {
            0 => t.chars().filter(|c| c.is_ascii() && !"&".contains(*c)).collect(), // raw, reserved characters included
            1 => t.bytes().map(|b| if b.is_ascii_alphanumeric() { (b as char).to_string() } else { format!("%{b:02x}") }).collect(),
            2 => t.bytes().map(|b| format!("%{b:02X}")).collect(),
            _ => {
                let mut s: String = t.chars().filter(|c| c.is_ascii_alphanumeric()).collect();
                s.push_str(["%", "%4", "%zz", "%FF", "%C3", "%E2%82", "", "", "%25", "+", "%2B", "%00"][self.rng.gen_range(0..12)]);
                s
            }
        }
    }

    fn index_text(&mut self) -> String {
        let r = &mut self.rng;
        match r.gen_range(0..10) {
            0..=3 => String::new(),
            4 | 5 => format!(".{}", r.gen_range(1..4)),
            6 => format!(".{}", [9999usize, 10000, 1000, 999, 99999][r.gen_range(0..5)]),
            7 => [".0", ".01", ".00", ".", ".1a", ".-1", ".1.1", ".0001"][r.gen_range(0..8)].to_string(),
            _ => format!(".{}", r.gen_range(1..10000)),
        }
    }

    fn token_uri(&mut self) -> String {
        let net = self.net();
        let mut s = String::from(if self.rng.gen_range(0..40) == 0 { ["ZCASH:", "zcash", "Zcash:", "zcash:/"][self.rng.gen_range(0..4)] } else { "zcash:" });
        let addr_any = |g: &mut Self| -> String {
            match g.rng.gen_range(0..12) {
                0 => g.tab.pick(net, "bad", g.rng.gen_range(0..6)).to_string(),
                1 => format!("{} ", g.addr(net, "sapling")),
                _ => {
                    let k = g.kind();
                    g.addr(net, k)
                }
            }
        };
        if self.rng.gen_range(0..2) == 0 {
            s.push_str(&addr_any(self));
        }
        let n = [0usize, 1, 1, 2, 2, 3, 3, 4, 5, 6][self.rng.gen_range(0..10)];
        for j in 0..n {
            s.push(if j == 0 { '?' } else { '&' });
            let name = match self.rng.gen_range(0..16) {
                0..=2 => "address".to_string(),
                3..=5 => "amount".to_string(),
                6 | 7 => "memo".to_string(),
                8 => "label".to_string(),
                9 => "message".to_string(),
                10 => ["req-x", "req-", "req-label", "Req-x"][self.rng.gen_range(0..4)].to_string(),
                11 => ["Amount", "LABEL", "a_b", "1a", "", "-", "addr ess"][self.rng.gen_range(0..7)].to_string(),
                _ => self.other_name(),
            };
            if name.is_empty() && self.rng.gen_range(0..2) == 0 {
                continue; // an empty item
            }
            s.push_str(&name);
            s.push_str(&self.index_text());
            if self.rng.gen_range(0..30) == 0 {
                continue; // no '='
            }
            s.push('=');
            let v = match name.as_str() {
                "address" => addr_any(self),
                "amount" => self.amount_text(),
                "memo" => self.memo_text(),
                _ => self.value_text(),
            };
            s.push_str(&v);
        }
        s
    }

    // ---------------------------------------------------------------- mutations of URIs the code rendered
    fn mutate(&mut self, uri: &str) -> String {
        let chars: Vec<char> = uri.chars().collect();
        let pool: Vec<char> = "&=?.%+#:/ 019Aaz-_~".chars().chain(['é', '\0']).collect();
        let r = &mut self.rng;
        let (head, query) = match uri.find('?') {
            Some(p) => (&uri[..p], Some(&uri[p + 1..])),
            None => (uri, None),
        };
        let items: Vec<String> = query.map(|q| q.split('&').map(|x| x.to_string()).collect()).unwrap_or_default();
        let join = |head: &str, items: &[String]| {
            if items.is_empty() { head.to_string() } else { format!("{head}?{}", items.join("&")) }
        };
        match r.gen_range(0..16) {
            0 if !chars.is_empty() => {
                let p = r.gen_range(0..chars.len());
                chars[..p].iter().chain(chars[p + 1..].iter()).collect()
            }
            1 => {
                let p = r.gen_range(0..=chars.len());
                let c = pool[r.gen_range(0..pool.len())];
                chars[..p].iter().chain(std::iter::once(&c)).chain(chars[p..].iter()).collect()
            }
            2 if !chars.is_empty() => {
                let p = r.gen_range(0..chars.len());
                let mut c = chars.clone();
                c[p] = pool[r.gen_range(0..pool.len())];
                c.into_iter().collect()
            }
            3 if !items.is_empty() => {
                // repeat an item
                let mut it = items.clone();
                let k = r.gen_range(0..it.len());
                let at = r.gen_range(0..=it.len());
                it.insert(at, items[k].clone());
                join(head, &it)
            }
            4 if items.len() >= 2 => {
                let mut it = items.clone();
                it.shuffle(r);
                join(head, &it)
            }
            5 if !items.is_empty() => {
                // drop an item
                let mut it = items.clone();
                it.remove(r.gen_range(0..it.len()));
                join(head, &it)
            }
            6 if !items.is_empty() => {
                // change the index text of an item
                let mut it = items.clone();
                let k = r.gen_range(0..it.len());
                if let Some(eq) = it[k].find('=') {
                    let name = it[k][..eq].split('.').next().unwrap().to_string();
                    let ix = [".0", ".1", ".01", ".9999", ".10000", "", ".2", ".00", "."][r.gen_range(0..9)];
                    it[k] = format!("{name}{ix}{}", &it[k][eq..]);
                }
                join(head, &it)
            }
            7 => {
                // touch an amount
                let mut it = items.clone();
                for x in it.iter_mut() {
                    if x.starts_with("amount") {
                        match r.gen_range(0..7) {
                            0 => x.push('0'),
                            1 => x.push('1'),
                            2 => x.push('.'),
                            3 => *x = x.replacen('=', "=0", 1),
                            4 => *x = x.replacen('.', "", 1),
                            5 => *x = x.replacen('=', "=9", 1),
                            _ => *x = format!("{}=0", x.split('=').next().unwrap()),
                        }
                        break;
                    }
                }
                join(head, &it)
            }
            8 => format!("{uri}{}", ["&req-x=1", "&req-x", "&x", "&", "&&", "&amount=1", "&memo=AA", "&label=a", "&address=zs1", "?", "#f"][r.gen_range(0..11)]),
            9 => {
                let p = r.gen_range(0..=chars.len());
                chars[..p].iter().collect()
            }
            10 => uri.replacen("amount", "Amount", 1),
            11 => uri.replacen("zcash:", ["ZCASH:", "zcash", "zcash::", " zcash:", "zcash:?"][r.gen_range(0..5)], 1),
            12 => {
                // swap the recipient for one of another kind (memo / zero-amount rules)
                let net = NETS[r.gen_range(0..3)].0;
                let kind = KINDS[r.gen_range(0..KINDS.len())];
                let new = self.tab.pick(net, kind, r.gen_range(0..PER_KIND)).to_string();
                match self.tab.by_text.keys().find(|k| uri.contains(k.as_str())) {
                    Some(old) => uri.replacen(old.as_str(), &new, 1),
                    None => format!("zcash:{new}"),
                }
            }
            13 => uri.replace("%", "%25"),
            14 => uri.to_ascii_lowercase(),
            _ => {
                // lead form <-> address item form
                if let Some(rest) = head.strip_prefix("zcash:") {
                    if !rest.is_empty() {
                        let mut it = items.clone();
                        it.insert(r.gen_range(0..=it.len()), format!("address={rest}"));
                        return join("zcash:", &it);
                    }
                }
                uri.to_string()
            }
        }
    }
}

fn main() {
    quiet_panics();
    let args: Vec<String> = std::env::args().collect();
    let seed = seed_from_env();
    let tab = AddrTable::new(seed);
    match args[1].as_str() {
        "eval" => {
            let recs = read_ndjson(&args[2]);
            let mut w = NdjsonWriter::create(&args[3]);
            for r in &recs {
                let ev = r["ev"].as_str().unwrap();
                if ev == "end" {
                    continue;
                }
                w.emit(&eval_one(ev, &r["in"], &tab));
            }
            let n = w.1;
            w.emit(&json!({"ev": "end", "n": n}));
            w.finish();
            println!("{}", json!({"records": n}));
        }
        "gen" => {
            let mut w = NdjsonWriter::create(&args[2]);
            let n_rt: usize = args[3].parse().unwrap();
            let n_tok: usize = args[4].parse().unwrap();
            let n_mut: usize = args[5].parse().unwrap();
            let n_memo: usize = args[6].parse().unwrap();
            let big_tnew = args.get(7).map(|s| s == "big").unwrap_or(false);
            let mut g = Gen { rng: ChaCha8Rng::seed_from_u64(seed ^ 0x5EED_C12C_12C1_2C12), tab: &tab };
            let mut counts: BTreeMap<String, usize> = BTreeMap::new();
            let mut uri_res: BTreeMap<String, usize> = BTreeMap::new();
            let mut emit = |w: &mut NdjsonWriter, rec: Value| {
                *counts.entry(rec["ev"].as_str().unwrap().to_string()).or_default() += 1;
                if rec["ev"] == "uri" {
                    *uri_res.entry(rec["res"].as_str().unwrap().to_string()).or_default() += 1;
                }
                w.emit(&rec);
            };
            // constructors: every kind x amount class x memo
            for (nn, _) in NETS {
                for kind in KINDS {
                    for zat in [Value::Null, json!("0"), json!("1"), json!(MAX_MONEY.to_string())] {
                        for memo in [false, true] {
                            let input = json!({"addr": tab.pick(nn, kind, 1), "zat": zat, "memo": memo});
                            emit(&mut w, eval_one("pnew", &input, &tab));
                        }
                    }
                }
            }
            let a0 = tab.pick("main", "sapling", 0).to_string();
            let mut tnews = vec![(1usize, false), (3, true), (1, true), (40, false), (10000, false), (10001, true)];
            if big_tnew {
                tnews.push((9999, false));
            }
            for (n, dup) in tnews {
                emit(&mut w, eval_one("tnew", &json!({"n": n, "dup": dup, "addr": a0}), &tab));
            }
            for k in ["2", "9999", "10000", "10001", "65536", "4294967296", "18446744073709551615"] {
                emit(&mut w, eval_one("fidx", &json!({"k": k, "addr": a0}), &tab));
            }
            // valid requests: construct, render, read the rendering, parse back
            let mut rendered: Vec<String> = vec![];
            for _ in 0..n_rt {
                let input = g.request();
                let rec = eval_one("rt", &input, &tab);
                if let Some(u) = rec["uri"].as_str() {
                    if !u.is_empty() && u.len() < 1500 {
                        rendered.push(u.to_string());
                    }
                }
                emit(&mut w, rec);
            }
            // the renderings themselves as parser input (uri events), then token URIs and mutants
            for u in rendered.iter().take(n_rt / 4) {
                emit(&mut w, eval_one("uri", &json!({"uri": u}), &tab));
            }
            for _ in 0..n_tok {
                let u = g.token_uri();
                emit(&mut w, eval_one("uri", &json!({"uri": u}), &tab));
            }
            for j in 0..n_mut {
                let base = if rendered.is_empty() || j % 5 == 4 { g.token_uri() } else { rendered[g.rng.gen_range(0..rendered.len())].clone() };
                let mut u = g.mutate(&base);
                if g.rng.gen_range(0..4) == 0 {
                    u = g.mutate(&u);
                }
                emit(&mut w, eval_one("uri", &json!({"uri": u}), &tab));
            }
            // totality on long and odd strings
            for kind in ["many_items", "many_payments", "same_item", "long_amount_int", "long_amount_zeros", "long_amount_frac",
                         "long_index", "long_label", "long_percent", "long_memo", "long_lead", "long_name", "ampersands",
                         "questions", "equals", "dots"] {
                for n in [0usize, 1, 2, 9, 700, 3000] {
                    emit(&mut w, eval_one("any", &json!({"kind": kind, "n": n}), &tab));
                }
            }
            for j in 0..(n_tok / 4) {
                let kind = if j % 2 == 0 { "rand" } else { "rand_zcash" };
                let input = json!({"kind": kind, "n": g.rng.gen_range(0..60), "k": g.rng.gen_range(0..u32::MAX)});
                emit(&mut w, eval_one("any", &input, &tab));
            }
            // memos
            let fixed: Vec<Vec<u8>> = vec![
                vec![], vec![0], vec![0xf6], vec![0xf6, 0, 0], vec![0xf6, 0, 1], vec![0xf5], vec![0xff], vec![0xf4, 0x8f, 0xbf, 0xbf],
                vec![0xf4, 0x90, 0x80, 0x80], vec![0xc3], vec![0xc3, 0xa9, 0, 0], vec![0x41; 512], vec![0x41; 513], vec![0; 512],
                vec![0; 513], vec![0xff; 512], vec![0xf6; 512], b"hello\0world".to_vec(), b"hello\0\0".to_vec(),
            ];
            for b in fixed {
                emit(&mut w, eval_one("memo", &json!({"hex": hex::encode(b)}), &tab));
            }
            for _ in 0..n_memo {
                let n = if g.rng.gen_range(0..6) == 0 { 520 } else { 512 };
                let b = g.memo_bytes(n);
                emit(&mut w, eval_one("memo", &json!({"hex": hex::encode(b)}), &tab));
            }
            let n = w.1;
            w.emit(&json!({"ev": "end", "n": n}));
            w.finish();
            println!("{}", json!({"records": n, "per_event": counts, "uri_outcomes": uri_res}));
        }
        other => panic!("unknown mode {other}"),
    }
}
