//! C03 spec -> code replay for the in-repo `zcash_encoding` (0.5): CompactSize, Vector, Array, Optional.
//!
//! Input (ndjson written by checks/c03.py from TLC's output of spec/Codec/Emit_CompactSize.tla):
//!   {"T":"csw", "v":[8 LE bytes], "enc":[bytes], "wb":bool}
//!   {"T":"csr", "bytes":[..], "unb":{ok,v,n}, "bnd":{ok,v,n}}
//!   {"T":"vec", "bytes":[..], "res":{ok,len,n}}
//!   {"T":"opt", "bytes":[..], "res":{ok,len,n}}
//! Every expected value is the one TLC computed from the specification; this binary only executes
//! the real functions (each under catch_unwind) and compares.
//!
//! stdout: one JSON summary object (last line).
use std::io::Read;

use h_core::util::{guarded, read_ndjson};
use serde_json::{Value, json};
use zcash_encoding_local::{Array, CompactSize, MAX_COMPACT_SIZE, Optional, Vector};

fn bytes_of(v: &Value) -> Vec<u8> {
    v.as_array().expect("array").iter().map(|x| x.as_u64().expect("byte") as u8).collect()
}

fn u64_of(v: &Value) -> u64 {
    let b = bytes_of(v);
    assert_eq!(b.len(), 8);
    u64::from_le_bytes(b.try_into().unwrap())
}

/// (Ok(value) | Err, bytes consumed) of a reader applied to a slice.
fn run_read<T>(bytes: &[u8], f: impl Fn(&mut &[u8]) -> std::io::Result<T>) -> Result<(Option<T>, usize), String> {
    guarded(|| {
        let mut r: &[u8] = bytes;
        let res = f(&mut r);
        (res.ok(), bytes.len() - r.len())
    })
}

struct Out {
    mismatches: Vec<Value>,
    count: usize,
}

impl Out {
    fn bad(&mut self, case: &Value, api: &str, what: String) {
        self.count += 1;
        if self.mismatches.len() < 20 {
            self.mismatches.push(json!({"case": case, "api": api, "what": what}));
        }
    }
}

fn read_one(r: &mut &[u8]) -> std::io::Result<u8> {
    let mut b = [0u8; 1];
    r.read_exact(&mut b)?;
    Ok(b[0])
}

fn main() {
    let args: Vec<String> = std::env::args().collect();
    let cases = read_ndjson(&args[1]);
    h_core::util::quiet_panics();
    let mut out = Out { mismatches: vec![], count: 0 };
    let (mut n_csw, mut n_csr, mut n_vec, mut n_opt, mut n_calls) = (0usize, 0usize, 0usize, 0usize, 0usize);
    let mut classes = std::collections::BTreeSet::new();
    for c in &cases {
        match c["T"].as_str().unwrap() {
            "csw" => {
                n_csw += 1;
                let v = u64_of(&c["v"]);
                let enc = bytes_of(&c["enc"]);
                let wb = c["wb"].as_bool().unwrap();
                classes.insert(format!("w{}", enc.len()));
                // unbounded writer
                n_calls += 3;
                match guarded(|| {
                    let mut buf = vec![];
                    CompactSize::write_unbounded(&mut buf, v).map(|_| buf)
                }) {
                    Ok(Ok(buf)) if buf == enc => {}
                    other => out.bad(c, "CompactSize::write_unbounded", format!("value {v}: got {:?}, specified {}", other.map(|r| r.map(hex::encode).map_err(|e| e.to_string())), hex::encode(&enc))),
                }
                // bounded writer
                match guarded(|| {
                    let mut buf = vec![];
                    CompactSize::write(&mut buf, v as usize).map(|_| buf)
                }) {
                    Ok(Ok(buf)) if wb && buf == enc => {}
                    Ok(Err(_)) if !wb => {}
                    other => out.bad(c, "CompactSize::write", format!("value {v}: got {:?}, specified {}", other.map(|r| r.map(hex::encode).map_err(|e| e.to_string())), if wb { hex::encode(&enc) } else { "an error (above MAX_COMPACT_SIZE)".into() })),
                }
                match guarded(|| CompactSize::serialized_size(v as usize)) {
                    Ok(n) if n == enc.len() => {}
                    other => out.bad(c, "CompactSize::serialized_size", format!("value {v}: got {:?}, specified {}", other, enc.len())),
                }
            }
            "csr" => {
                n_csr += 1;
                let bytes = bytes_of(&c["bytes"]);
                for (api, key) in [("CompactSize::read_unbounded", "unb"), ("CompactSize::read", "bnd")] {
                    let exp = &c[key];
                    let exp_ok = exp["ok"].as_bool().unwrap();
                    classes.insert(format!("{key}:{exp_ok}"));
                    n_calls += 1;
                    let got = if key == "unb" {
                        run_read(&bytes, |r| CompactSize::read_unbounded(r))
                    } else {
                        run_read(&bytes, |r| CompactSize::read(r))
                    };
                    match got {
                        Err(p) => out.bad(c, api, format!("panic: {p}")),
                        Ok((Some(v), n)) => {
                            if !exp_ok || v != u64_of(&exp["v"]) || n != exp["n"].as_u64().unwrap() as usize {
                                out.bad(c, api, format!("bytes {}: accepted value {v} consuming {n} bytes; specified {}", hex::encode(&bytes),
                                    if exp_ok { format!("value {} consuming {}", u64_of(&exp["v"]), exp["n"]) } else { "rejection".into() }));
                            }
                        }
                        Ok((None, _)) => {
                            if exp_ok {
                                out.bad(c, api, format!("bytes {}: rejected; specified value {} consuming {}", hex::encode(&bytes), u64_of(&exp["v"]), exp["n"]));
                            }
                        }
                    }
                }
                // read_t: the bounded reader followed by a checked conversion
                let exp = &c["bnd"];
                let exp_ok = exp["ok"].as_bool().unwrap();
                let ev = if exp_ok { Some(u64_of(&exp["v"])) } else { None };
                n_calls += 3;
                let t8 = run_read(&bytes, |r| CompactSize::read_t::<_, u8>(r)).map(|(v, _)| v.map(u64::from));
                let t16 = run_read(&bytes, |r| CompactSize::read_t::<_, u16>(r)).map(|(v, _)| v.map(u64::from));
                let tus = run_read(&bytes, |r| CompactSize::read_t::<_, usize>(r)).map(|(v, _)| v.map(|x| x as u64));
                for (api, got, max) in [("read_t::<u8>", t8, u8::MAX as u64), ("read_t::<u16>", t16, u16::MAX as u64), ("read_t::<usize>", tus, u64::MAX)] {
                    let want = ev.filter(|v| *v <= max);
                    match got {
                        Ok(g) if g == want => {}
                        other => out.bad(c, api, format!("bytes {}: got {:?}, specified {:?}", hex::encode(&bytes), other, want)),
                    }
                }
            }
            "vec" => {
                n_vec += 1;
                let bytes = bytes_of(&c["bytes"]);
                let exp = &c["res"];
                let exp_ok = exp["ok"].as_bool().unwrap();
                classes.insert(format!("vec:{exp_ok}"));
                let (elen, en) = (exp["len"].as_u64().unwrap() as usize, exp["n"].as_u64().unwrap() as usize);
                n_calls += 2;
                for (api, got) in [
                    ("Vector::read", run_read(&bytes, |r| Vector::read(r, |r| read_one(r)))),
                    ("Vector::read_collected", run_read(&bytes, |r| Vector::read_collected::<_, _, _, Vec<u8>>(r, |r| read_one(r)))),
                ] {
                    match got {
                        Err(p) => out.bad(c, api, format!("panic: {p}")),
                        Ok((Some(xs), n)) => {
                            if !exp_ok || xs.len() != elen || n != en {
                                out.bad(c, api, format!("accepted {} elements consuming {n}; specified {}", xs.len(), if exp_ok { format!("{elen} elements consuming {en}") } else { "rejection".into() }));
                            } else {
                                // canonicity: what was accepted is what the writer produces
                                n_calls += 2;
                                let w = guarded(|| {
                                    let mut buf = vec![];
                                    Vector::write(&mut buf, &xs, |w, e| std::io::Write::write_all(w, &[*e])).map(|_| buf)
                                });
                                if !matches!(&w, Ok(Ok(b)) if b[..] == bytes[..n]) {
                                    out.bad(c, "Vector::write", "re-encoding of an accepted vector differs from the consumed bytes".into());
                                }
                                // Array: the same elements without the prefix
                                let body = &bytes[n - xs.len()..n];
                                let a = run_read(body, |r| Array::read(r, xs.len(), |r| read_one(r)));
                                if !matches!(&a, Ok((Some(ys), m)) if *ys == xs && *m == xs.len()) {
                                    out.bad(c, "Array::read", "array of the vector's elements not read back".into());
                                }
                                let a = run_read(body, |r| Array::read(r, xs.len() + 1, |r| read_one(r)));
                                if !matches!(&a, Ok((None, _))) {
                                    out.bad(c, "Array::read", "array longer than the data was not rejected".into());
                                }
                            }
                        }
                        Ok((None, _)) => {
                            if exp_ok {
                                out.bad(c, api, format!("rejected; specified {elen} elements consuming {en}"));
                            }
                        }
                    }
                }
            }
            "opt" => {
                n_opt += 1;
                let bytes = bytes_of(&c["bytes"]);
                let exp = &c["res"];
                let exp_ok = exp["ok"].as_bool().unwrap();
                classes.insert(format!("opt:{exp_ok}"));
                let (elen, en) = (exp["len"].as_u64().unwrap() as usize, exp["n"].as_u64().unwrap() as usize);
                n_calls += 1;
                match run_read(&bytes, |r| Optional::read(r, |r| read_one(r))) {
                    Err(p) => out.bad(c, "Optional::read", format!("panic: {p}")),
                    Ok((Some(o), n)) => {
                        if !exp_ok || o.iter().count() != elen || n != en {
                            out.bad(c, "Optional::read", format!("accepted {:?} consuming {n}; specified {}", o, if exp_ok { format!("{elen} element consuming {en}") } else { "rejection".into() }));
                        } else {
                            let w = guarded(|| {
                                let mut buf = vec![];
                                Optional::write(&mut buf, o, |w, e| std::io::Write::write_all(w, &[e])).map(|_| buf)
                            });
                            if !matches!(&w, Ok(Ok(b)) if b[..] == bytes[..n]) {
                                out.bad(c, "Optional::write", "re-encoding of an accepted optional differs from the consumed bytes".into());
                            }
                        }
                    }
                    Ok((None, _)) => {
                        if exp_ok {
                            out.bad(c, "Optional::read", format!("rejected; specified {elen} element consuming {en}"));
                        }
                    }
                }
            }
            other => panic!("unknown case type {other}"),
        }
    }
    println!(
        "{}",
        json!({"csw": n_csw, "csr": n_csr, "vec": n_vec, "opt": n_opt, "calls": n_calls, "max_compact_size": MAX_COMPACT_SIZE,
               "classes": classes.into_iter().collect::<Vec<_>>(), "mismatch_count": out.count, "mismatches": out.mismatches})
    );
}
