fn main() { println!("h_core ok"); }
