//! C12 — shared by c12_replay and c12_driver (included with #[path], not part of the library).
//!
//! * the address table: real address strings of every recipient kind of spec/Address/Zip321.tla on the
//!   three networks, built from raw bytes with zcash_address' public constructors, plus strings that are
//!   certainly not addresses.  The *kind* of a string is what the harness chose when it built it; the
//!   predicates can_receive_memo / is_transparent_only are never asked of the code under test.
//! * `observe`: a parsed `TransactionRequest` read back through its public accessors into the payment
//!   records of the specification (index digits, recipient id/kind, zatoshi digits, memo bytes without
//!   trailing zeros, label / message / other-parameter bytes).
//! * `scan`: the harness' own layer-1 reading of a URI string (scheme, lead text, items split at '&',
//!   '=' and '.'), a bijection with the string — no ZIP 321 rule is applied here, the specification does that.
#![allow(dead_code)]
use std::collections::{BTreeMap, HashMap};

use rand::{Rng, SeedableRng};
use rand_chacha::ChaCha8Rng;
use serde_json::{Value, json};
use zcash_address::{
    ToAddress, ZcashAddress,
    unified::{self, Encoding, Receiver},
};
use zcash_protocol::consensus::NetworkType;
use zip321::TransactionRequest;

use h_core::util::guarded;

pub const KINDS: [&str; 8] =
    ["p2pkh", "p2sh", "tex", "sprout", "sapling", "ua_orchard", "ua_sapling_t", "ua_t_unknown"];
pub const NETS: [(&str, NetworkType); 3] =
    [("main", NetworkType::Main), ("test", NetworkType::Test), ("regtest", NetworkType::Regtest)];
pub const PER_KIND: usize = 6;
pub const MAX_MONEY: u64 = 2_100_000_000_000_000;

pub struct AddrTable {
    /// address text -> (id, kind); kind "bad" for the certainly-invalid strings
    pub by_text: HashMap<String, (String, String)>,
    /// (net, kind) -> texts
    pub by_kind: HashMap<(String, String), Vec<String>>,
}

fn arr<const N: usize>(rng: &mut ChaCha8Rng) -> [u8; N] {
    let mut a = [0u8; N];
    rng.fill(&mut a[..]);
    a
}

pub fn make_addr(kind: &str, net: NetworkType, rng: &mut ChaCha8Rng) -> String {
    let ua = |items: Vec<Receiver>| {
        ZcashAddress::from_unified(net, unified::Address::try_from_items(items).expect("valid receiver set"))
    };
    let a = match kind {
        "p2pkh" => ZcashAddress::from_transparent_p2pkh(net, arr::<20>(rng)),
        "p2sh" => ZcashAddress::from_transparent_p2sh(net, arr::<20>(rng)),
        "tex" => ZcashAddress::from_tex(net, arr::<20>(rng)),
        "sprout" => ZcashAddress::from_sprout(net, arr::<64>(rng)),
        "sapling" => ZcashAddress::from_sapling(net, arr::<43>(rng)),
        "ua_orchard" => ua(vec![Receiver::Orchard(arr::<43>(rng))]),
        "ua_sapling_t" => ua(vec![Receiver::Sapling(arr::<43>(rng)), Receiver::P2pkh(arr::<20>(rng))]),
        "ua_t_unknown" => ua(vec![
            Receiver::P2pkh(arr::<20>(rng)),
            Receiver::Unknown { typecode: 0xAB, data: arr::<40>(rng).to_vec() },
        ]),
        _ => panic!("unknown kind {kind}"),
    };
    a.encode()
}

const BECH32: &[u8] = b"qpzry9x8gf2tvdw0s3jn54khce6mua7l";

/// One substituted data character: a Bech32 / Bech32m checksum detects every error of up to four
/// characters, so the result is certainly not a valid encoding.
fn break_bech32(s: &str, rng: &mut ChaCha8Rng) -> String {
    let sep = s.rfind('1').expect("bech32 separator");
    let mut b = s.as_bytes().to_vec();
    let pos = rng.gen_range(sep + 1..b.len());
    let old = b[pos];
    loop {
        let c = BECH32[rng.gen_range(0..32)];
        if c != old {
            b[pos] = c;
            break;
        }
    }
    String::from_utf8(b).unwrap()
}

impl AddrTable {
    pub fn new(seed: u64) -> Self {
        let mut rng = ChaCha8Rng::seed_from_u64(seed ^ 0xC12A_DD2E_5500_0001);
        let mut t = AddrTable { by_text: HashMap::new(), by_kind: HashMap::new() };
        for (nn, net) in NETS {
            for kind in KINDS {
                let mut v = vec![];
                while v.len() < PER_KIND {
                    let a = make_addr(kind, net, &mut rng);
                    if t.by_text.contains_key(&a) {
                        continue;
                    }
                    t.by_text.insert(a.clone(), (format!("{nn}:{kind}:{}", v.len()), kind.to_string()));
                    v.push(a);
                }
                t.by_kind.insert((nn.to_string(), kind.to_string()), v);
            }
            let mut bad = vec![
                break_bech32(&t.by_kind[&(nn.to_string(), "sapling".to_string())][0], &mut rng),
                break_bech32(&t.by_kind[&(nn.to_string(), "ua_orchard".to_string())][0], &mut rng),
                break_bech32(&t.by_kind[&(nn.to_string(), "tex".to_string())][0], &mut rng),
                "notanaddress".to_string(),
                "zs1".to_string(),
                "t1".to_string(),
            ];
            for (i, b) in bad.iter_mut().enumerate() {
                if i >= 3 && nn != "main" {
                    // the fixed words are shared by the networks; give them one id
                    continue;
                }
                t.by_text.insert(b.clone(), (format!("{nn}:bad:{i}"), "bad".to_string()));
            }
            t.by_kind.insert((nn.to_string(), "bad".to_string()), bad);
        }
        t
    }

    pub fn lookup(&self, text: &str) -> (String, String) {
        match self.by_text.get(text) {
            Some((id, kd)) => (id.clone(), kd.clone()),
            None => ("?".to_string(), "unknown".to_string()),
        }
    }

    pub fn pick(&self, net: &str, kind: &str, n: usize) -> &str {
        &self.by_kind[&(net.to_string(), kind.to_string())][n % PER_KIND]
    }
}

pub fn digits_of_u64(v: u64) -> Vec<u8> {
    v.to_string().bytes().map(|b| b - b'0').collect()
}

/// index digits: 0 (the un-indexed payment) is the empty sequence
pub fn index_digits(i: usize) -> Vec<u8> {
    if i == 0 { vec![] } else { digits_of_u64(i as u64) }
}

/// own reading of "without trailing zero bytes" (MemoBytes::as_slice is under test)
pub fn strip_zeros(b: &[u8]) -> &[u8] {
    let mut n = b.len();
    while n > 0 && b[n - 1] == 0 {
        n -= 1;
    }
    &b[..n]
}

pub fn bytes_json(b: &[u8]) -> Value {
    Value::Array(b.iter().map(|x| json!(*x)).collect())
}

pub fn json_bytes(v: &Value) -> Vec<u8> {
    v.as_array().expect("byte array").iter().map(|x| x.as_u64().expect("byte") as u8).collect()
}

/// The payments of a request, read back through the public accessors only.
pub fn observe(req: &TransactionRequest, tab: &AddrTable) -> Vec<Value> {
    req.payments()
        .iter()
        .map(|(idx, p)| {
            let (a, kd) = tab.lookup(&p.recipient_address().encode());
            let z = p.amount().map(u64::from);
            let m = p.memo().map(|m| strip_zeros(m.as_array()).to_vec());
            json!({
                "i": bytes_json(&index_digits(*idx)),
                "a": a, "kd": kd,
                "hz": z.is_some(), "z": bytes_json(&z.map(digits_of_u64).unwrap_or_default()),
                "hm": m.is_some(), "m": bytes_json(&m.unwrap_or_default()),
                "hl": p.label().is_some(), "l": bytes_json(p.label().map(|s| s.as_bytes()).unwrap_or_default()),
                "hg": p.message().is_some(), "g": bytes_json(p.message().map(|s| s.as_bytes()).unwrap_or_default()),
                "o": Value::Array(p.other_params().iter()
                        .map(|(n, v)| json!([bytes_json(n.as_bytes()), bytes_json(v.as_bytes())])).collect()),
            })
        })
        .collect()
}

/// from_uri(to_uri(req)) == req ?
pub fn roundtrip(req: &TransactionRequest) -> &'static str {
    match guarded(|| TransactionRequest::from_uri(&req.to_uri())) {
        Err(_) => "panic",
        Ok(Err(_)) => "err",
        Ok(Ok(r2)) => {
            if &r2 == req { "eq" } else { "neq" }
        }
    }
}

/// Outcome of from_uri on `uri`: (res, pays, back)
pub fn run_from_uri(uri: &str, tab: &AddrTable) -> (&'static str, Vec<Value>, &'static str) {
    match guarded(|| TransactionRequest::from_uri(uri)) {
        Err(_) => ("panic", vec![], "na"),
        Ok(Err(_)) => ("err", vec![], "na"),
        Ok(Ok(req)) => match guarded(|| observe(&req, tab)) {
            Err(_) => ("panic", vec![], "na"),
            Ok(pays) => ("ok", pays, roundtrip(&req)),
        },
    }
}

fn empty_item() -> Value {
    json!({"nm": [], "dot": false, "ix": [], "eq": false, "raw": [], "a": "", "kd": ""})
}

pub fn scan_item(item: &str, tab: &AddrTable) -> Value {
    if item.is_empty() {
        return empty_item();
    }
    let (namepart, value) = match item.find('=') {
        Some(p) => (&item[..p], Some(&item[p + 1..])),
        None => (item, None),
    };
    let (nm, ix) = match namepart.find('.') {
        Some(p) => (&namepart[..p], Some(&namepart[p + 1..])),
        None => (namepart, None),
    };
    let (mut a, mut kd) = (String::new(), String::new());
    let mut raw = value.unwrap_or("").as_bytes().to_vec();
    if nm == "address" && value.is_some() {
        let (x, y) = tab.lookup(value.unwrap());
        a = x;
        kd = y;
        raw = vec![]; // the address text is represented by its id
    }
    json!({"nm": bytes_json(nm.as_bytes()), "dot": ix.is_some(), "ix": bytes_json(ix.unwrap_or("").as_bytes()),
           "eq": value.is_some(), "raw": bytes_json(&raw), "a": a, "kd": kd})
}

/// Layer-1 reading of a string (see the header of spec/Address/Zip321.tla).
pub fn scan(uri: &str, tab: &AddrTable) -> Value {
    let b = uri.as_bytes();
    let sch = if b.starts_with(b"zcash:") {
        "ok"
    } else if b.len() >= 6 && b[..6].eq_ignore_ascii_case(b"zcash:") {
        "case"
    } else {
        "bad"
    };
    if sch == "bad" {
        return json!({"sch": "bad", "st": bytes_json(b), "lead": {"t": "none", "a": "", "kd": ""}, "ps": []});
    }
    let rest = &uri[6..];
    let (lead_txt, query) = match rest.find('?') {
        Some(p) => (&rest[..p], Some(&rest[p + 1..])),
        None => (rest, None),
    };
    let lead = if lead_txt.is_empty() {
        json!({"t": "none", "a": "", "kd": ""})
    } else {
        let (a, kd) = tab.lookup(lead_txt);
        json!({"t": "addr", "a": a, "kd": kd})
    };
    let ps: Vec<Value> = match query {
        None => vec![],
        Some(q) => q.split('&').map(|it| scan_item(it, tab)).collect(),
    };
    json!({"sch": sch, "st": bytes_json(&b[..6]), "lead": lead, "ps": ps})
}

/// Canonical form of a list of payment records for comparison: sorted by index, `o` sorted.
pub fn normalise_pays(pays: &[Value]) -> Vec<Value> {
    let mut v: Vec<Value> = pays
        .iter()
        .map(|p| {
            let mut p = p.clone();
            let mut o: Vec<Value> = p["o"].as_array().cloned().unwrap_or_default();
            o.sort_by_key(|x| x.to_string());
            p["o"] = Value::Array(o);
            p
        })
        .collect();
    v.sort_by_key(|p| {
        let i = json_bytes(&p["i"]);
        (i.len(), i)
    });
    v
}

pub fn net_of(name: &str) -> NetworkType {
    NETS.iter().find(|(n, _)| *n == name).map(|(_, t)| *t).expect("network name")
}

pub type Table = BTreeMap<String, String>;
