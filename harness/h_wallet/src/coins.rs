//! Transparent coins of the wallet under test (C01, the "and coins" half of the ledger; only in the
//! `transparent-inputs` build of the wallet crates = harness package h_wallet_t).
//!
//! The harness keeps its own world of transparent transactions and outputs ("coins"), each with a small
//! integer id the trace and the specification use; it delivers them to the wallet the two ways a light
//! client does - `put_received_transparent_utxo` (a server reports an unspent output of an address) and
//! `decrypt_and_store_transaction` (a full transaction) - and projects the wallet's coin tables and the
//! unshielded balances the public API reports.
#![cfg(feature = "transparent")]
use std::collections::BTreeMap;

use rand::RngCore;
use rand_chacha::ChaChaRng;
use serde_json::{Value, json};
use zcash_client_backend::{
    data_api::{WalletRead, WalletWrite, wallet::{ConfirmationsPolicy, decrypt_and_store_transaction}},
    wallet::WalletTransparentOutput,
};
use zcash_keys::keys::UnifiedAddressRequest;
use zcash_primitives::transaction::{Transaction, TransactionData, TxVersion};
use zcash_protocol::{
    consensus::{BlockHeight, BranchId},
    value::Zatoshis,
};
use zcash_transparent::{
    address::{Script, TransparentAddress},
    bundle::{Authorized, Bundle, OutPoint, TxIn, TxOut},
    keys::TransparentKeyScope,
};

use crate::util::guarded;
use crate::wallet::W;

#[derive(Clone)]
pub struct Coin {
    pub txid: [u8; 32],
    pub index: u32,
    pub value: u64,
    /// 1-based wallet account the output pays
    pub acct: u32,
    /// id (1-based index into `CoinWorld::addrs`) of the wallet address it pays
    pub ad: u32,
    /// uid of the transaction that creates it
    pub tx: u32,
}

#[derive(Clone)]
pub struct CoinTx {
    pub txid: [u8; 32],
    /// None: a transaction the harness only ever reports outputs of (the wallet never sees its data)
    pub tx: Option<Transaction>,
    /// spent coin ids (0: an outpoint that is nobody's coin)
    pub ins: Vec<u32>,
    /// (coin id, value, account, address id) of the outputs that pay the wallet
    pub outs: Vec<(u32, u64, u32, u32)>,
    /// absolute expiry height, 0 = never
    pub expiry: u32,
}

pub struct CoinWorld {
    /// the wallet's transparent addresses the harness pays: 1, 2 = the default external address of account 1, 2;
    /// 3 = a second external address of account 1 (ids are 1-based indices)
    pub addrs: Vec<TransparentAddress>,
    /// account (1-based) of each address
    pub addr_acct: Vec<u32>,
    pub foreign: TransparentAddress,
    pub coins: BTreeMap<u32, Coin>,
    pub txs: BTreeMap<u32, CoinTx>,
    pub by_txid: BTreeMap<[u8; 32], u32>,
    pub by_outpoint: BTreeMap<([u8; 32], u32), u32>,
    pub next_coin: u32,
    pub next_tx: u32,
    /// outpoints of EPHEMERAL outputs (ZIP 320) the wallet created for itself: rows of the coin table that are not coins
    /// of the coin ledger (the wallet keeps them out of its balances and out of input selection); they are projected
    /// separately (`eph`) and exempt from the comparison with Coins.tla. Empty unless the multi-step driver (C08) fills it.
    pub ephemeral: std::collections::BTreeSet<([u8; 32], u32)>,
}

/// ids of transactions shared with the harness chain (wallet-created transactions that also spend coins)
pub const SHARED_BASE: u32 = 100_000;

pub fn class<T>(r: &Result<Result<T, String>, String>) -> (&'static str, String) {
    match r {
        Ok(Ok(_)) => ("ok", String::new()),
        Ok(Err(e)) => ("err", e.chars().take(300).collect()),
        Err(p) => ("panic", p.chars().take(300).collect()),
    }
}

impl CoinWorld {
    pub fn new(w: &mut W) -> Self {
        let mut addrs: Vec<TransparentAddress> = w
            .acct_ids
            .iter()
            .map(|a| {
                let ua = w
                    .st
                    .wallet()
                    .get_last_generated_address_matching(*a, UnifiedAddressRequest::AllAvailableKeys)
                    .expect("address query")
                    .expect("the account has a default address");
                *ua.transparent().expect("default address has a transparent receiver")
            })
            .collect();
        // a second address of account 1 (so that an address filter and an account filter can be told apart): the next external
        // address, which the wallet generated with its gap-limit addresses when the account was created
        let externals: Vec<String> = w
            .st
            .wallet()
            .conn()
            .prepare(
                "SELECT cached_transparent_receiver_address FROM addresses
                 WHERE account_id = ?1 AND key_scope = 0 AND transparent_child_index IS NOT NULL AND cached_transparent_receiver_address IS NOT NULL
                 ORDER BY transparent_child_index",
            )
            .unwrap()
            .query_map([w.acct_rows[0]], |r| r.get(0))
            .unwrap()
            .map(|r| r.unwrap())
            .collect();
        let second = externals
            .iter()
            .map(|a| <TransparentAddress as zcash_keys::encoding::AddressCodec<_>>::decode(&w.net, a).expect("harness: address decodes"))
            .find(|a| *a != addrs[0])
            .expect("harness: account 1 has a second external transparent address");
        addrs.push(second);
        assert!(addrs[2] != addrs[0] && addrs[2] != addrs[1], "harness: addresses must differ");
        CoinWorld {
            addrs,
            addr_acct: vec![1, 2, 1],
            foreign: TransparentAddress::PublicKeyHash([0x5a; 20]),
            coins: BTreeMap::new(),
            txs: BTreeMap::new(),
            by_txid: BTreeMap::new(),
            by_outpoint: BTreeMap::new(),
            next_coin: 1,
            next_tx: 1,
            ephemeral: Default::default(),
        }
    }

    fn add_coin(&mut self, txid: [u8; 32], index: u32, value: u64, ad: u32, tx: u32) -> u32 {
        let id = self.next_coin;
        self.next_coin += 1;
        let acct = self.addr_acct[(ad - 1) as usize];
        self.coins.insert(id, Coin { txid, index, value, acct, ad, tx });
        self.by_outpoint.insert((txid, index), id);
        id
    }

    /// An output of a transaction the wallet will only hear of through UTXO reports, paying the default address of `acct`.
    pub fn new_utxo(&mut self, rng: &mut ChaChaRng, acct: u32, value: u64) -> u32 {
        self.new_utxo_at(rng, acct, value)
    }

    /// ... paying the address with id `ad`
    pub fn new_utxo_at(&mut self, rng: &mut ChaChaRng, ad: u32, value: u64) -> u32 {
        let mut txid = [0u8; 32];
        rng.fill_bytes(&mut txid);
        let uid = self.next_tx;
        self.next_tx += 1;
        let index = (rng.next_u32() % 3) as u32;
        let c = self.add_coin(txid, index, value, ad, uid);
        let acct = self.addr_acct[(ad - 1) as usize];
        self.txs.insert(uid, CoinTx { txid, tx: None, ins: vec![], outs: vec![(c, value, acct, ad)], expiry: 0 });
        self.by_txid.insert(txid, uid);
        c
    }

    /// A full transparent transaction spending `ins` (coin ids; `foreign_ins` more inputs that are nobody's
    /// coins) and paying `outs` = (address id 1..3 - ids 1 and 2 are the default addresses of accounts 1 and 2 -, or 0 for
    /// a foreign address; value); `expiry` absolute, 0 = never.
    /// Returns its uid; the outputs paying the wallet become coins.
    pub fn new_tx(&mut self, rng: &mut ChaChaRng, ins: &[u32], foreign_ins: usize, outs: &[(u32, u64)], expiry: u32) -> u32 {
        let mut vin = vec![];
        for c in ins {
            let coin = &self.coins[c];
            vin.push(TxIn::<Authorized>::from_parts(OutPoint::new(coin.txid, coin.index), Script::default(), u32::MAX - 1));
        }
        for _ in 0..foreign_ins {
            let mut h = [0u8; 32];
            rng.fill_bytes(&mut h);
            vin.push(TxIn::<Authorized>::from_parts(OutPoint::new(h, 0), Script::default(), u32::MAX - 1));
        }
        let vout: Vec<TxOut> = outs
            .iter()
            .map(|(ad, v)| {
                let addr = if *ad == 0 { self.foreign } else { self.addrs[(*ad - 1) as usize] };
                TxOut::new(Zatoshis::from_u64(*v).unwrap(), addr.script().into())
            })
            .collect();
        let bundle = Bundle { vin, vout, authorization: Authorized };
        // lock_time makes otherwise identical transactions distinct
        let tx = TransactionData::<zcash_primitives::transaction::Authorized>::from_parts(
            TxVersion::V5,
            BranchId::Nu5,
            rng.next_u32() >> 2,
            BlockHeight::from(expiry),
            Some(bundle),
            None,
            None,
            None,
        )
        .freeze()
        .expect("freeze");
        let txid: [u8; 32] = *tx.txid().as_ref();
        let uid = self.next_tx;
        self.next_tx += 1;
        let mut wouts = vec![];
        for (i, (ad, v)) in outs.iter().enumerate() {
            if *ad != 0 {
                let c = self.add_coin(txid, i as u32, *v, *ad, uid);
                wouts.push((c, *v, self.addr_acct[(*ad - 1) as usize], *ad));
            }
        }
        let mut all_ins: Vec<u32> = ins.to_vec();
        all_ins.extend(std::iter::repeat(0).take(foreign_ins));
        self.txs.insert(uid, CoinTx { txid, tx: Some(tx), ins: all_ins, outs: wouts, expiry });
        self.by_txid.insert(txid, uid);
        uid
    }

    /// A transaction the wallet itself created that spends the coins `ins` (a shielding transaction): in the harness
    /// chain's books it is transaction `chain_uid`; here it gets the id SHARED_BASE + chain_uid.
    pub fn register_shared(&mut self, tx: &Transaction, chain_uid: u32, ins: &[u32]) -> u32 {
        let txid: [u8; 32] = *tx.txid().as_ref();
        let uid = SHARED_BASE + chain_uid;
        self.txs.insert(uid, CoinTx { txid, tx: Some(tx.clone()), ins: ins.to_vec(), outs: vec![], expiry: u32::from(tx.expiry_height()) });
        self.by_txid.insert(txid, uid);
        uid
    }

    pub fn out_ref(&self, c: u32) -> zcash_client_backend::wallet::OutputRef {
        let coin = &self.coins[&c];
        zcash_client_backend::wallet::OutputRef::new(zcash_protocol::TxId::from_bytes(coin.txid), zcash_protocol::PoolType::Transparent, coin.index)
    }

    /// put_received_transparent_utxo(coin, mined at `h` / height unknown)
    pub fn report(&self, w: &mut W, c: u32, h: Option<u32>) -> Result<Result<(), String>, String> {
        let coin = &self.coins[&c];
        let addr = self.addrs[(coin.ad - 1) as usize];
        let out = WalletTransparentOutput::from_parts(
            OutPoint::new(coin.txid, coin.index),
            TxOut::new(Zatoshis::from_u64(coin.value).unwrap(), addr.script().into()),
            h.map(BlockHeight::from),
            Some(w.acct_ids[(coin.acct - 1) as usize]),
            Some(TransparentKeyScope::EXTERNAL),
            None,
        )
        .expect("p2pkh output");
        let st = &mut w.st;
        guarded(move || st.wallet_mut().put_received_transparent_utxo(&out).map(|_| ()).map_err(|e| format!("{e:?}")))
    }

    /// decrypt_and_store_transaction(tx, mined at `h` / not known to be mined)
    pub fn store(&self, w: &mut W, t: u32, h: Option<u32>) -> Result<Result<(), String>, String> {
        let tx = self.txs[&t].tx.clone().expect("a full transaction");
        let net = w.net;
        let st = &mut w.st;
        guarded(move || decrypt_and_store_transaction(&net, st.wallet_mut(), &tx, h.map(BlockHeight::from)).map_err(|e| format!("{e:?}")))
    }

    /// set_transaction_status(txid, Mined(h)): the answer to a status request the wallet queued for a transaction
    pub fn status_mined(&self, w: &mut W, t: u32, h: u32) -> Result<Result<(), String>, String> {
        use zcash_client_backend::data_api::TransactionStatus;
        let txid = zcash_protocol::TxId::from_bytes(self.txs[&t].txid);
        let st = &mut w.st;
        guarded(move || st.wallet_mut().set_transaction_status(txid, TransactionStatus::Mined(BlockHeight::from(h))).map_err(|e| format!("{e:?}")))
    }

    /// what the wallet has on record for transaction `t`: None = no row; Some(None) = a row, not mined
    pub fn wallet_mined(&self, w: &W, t: u32) -> Option<Option<u32>> {
        let txid = self.txs[&t].txid;
        w.st
            .wallet()
            .conn()
            .query_row("SELECT mined_height FROM transactions WHERE txid = ?1", [&txid[..]], |r| r.get::<_, Option<u32>>(0))
            .ok()
    }

    pub fn wallet_knows_coin(&self, w: &W, c: u32) -> bool {
        let coin = &self.coins[&c];
        w.st
            .wallet()
            .conn()
            .query_row(
                "SELECT COUNT(*) FROM transparent_received_outputs u JOIN transactions t ON t.id_tx = u.transaction_id
                 WHERE t.txid = ?1 AND u.output_index = ?2",
                rusqlite::params![&coin.txid[..], coin.index],
                |r| r.get::<_, i64>(0),
            )
            .map(|n| n > 0)
            .unwrap_or(false)
    }

    /// Projection of the coin tables and of the unshielded balances (ConfirmationsPolicy::MIN, as the shielded
    /// projection uses). Heights relative to `w.base`; -1 = NULL; expiry 0 = never.
    pub fn project(&self, w: &W) -> Value {
        let conn = w.st.wallet().conn();
        let rel = |h: Option<u32>| h.map(|h| h as i64 - w.base as i64).unwrap_or(-1);
        let relexp = |e: Option<u32>| match e { None => -1, Some(0) => 0, Some(e) => e as i64 - w.base as i64 };
        let tx_uid = |txid: &[u8]| -> i64 {
            let a: [u8; 32] = txid.try_into().unwrap();
            self.by_txid.get(&a).map(|u| *u as i64).unwrap_or(-1)
        };
        let rows: Vec<(i64, Vec<u8>, u32, i64, i64, Option<u32>, u32, Option<u32>)> = conn
            .prepare(
                "SELECT u.id, t.txid, u.output_index, u.value_zat, u.account_id, t.mined_height, t.min_observed_height, t.expiry_height
                 FROM transparent_received_outputs u JOIN transactions t ON t.id_tx = u.transaction_id",
            )
            .unwrap()
            .query_map([], |r| Ok((r.get(0)?, r.get(1)?, r.get(2)?, r.get(3)?, r.get(4)?, r.get(5)?, r.get(6)?, r.get(7)?)))
            .unwrap()
            .map(|r| r.unwrap())
            .collect();
        let mut out_rows = vec![];
        let mut eph_rows = vec![];
        for (id, txid, index, value, acct_row, mined, minobs, exp) in rows {
            let a: [u8; 32] = txid.clone().try_into().unwrap();
            if self.ephemeral.contains(&(a, index)) {
                // an ephemeral output of a ZIP 320 pair: not a coin of the ledger (information only: who spends it)
                let sp: Vec<i64> = conn
                    .prepare(
                        "SELECT st.txid FROM transparent_received_output_spends s JOIN transactions st ON st.id_tx = s.transaction_id
                         WHERE s.transparent_received_output_id = ?1",
                    )
                    .unwrap()
                    .query_map([id], |r| r.get::<_, Vec<u8>>(0))
                    .unwrap()
                    .map(|r| tx_uid(&r.unwrap()))
                    .collect();
                eph_rows.push(json!({"t": tx_uid(&txid), "n": index, "v": value, "mined": rel(mined), "sp": sp}));
                continue;
            }
            let c = self.by_outpoint.get(&(a, index)).map(|c| *c as i64).unwrap_or(-1);
            let mut sp: Vec<(i64, i64, i64, i64)> = conn
                .prepare(
                    "SELECT st.txid, st.mined_height, st.min_observed_height, st.expiry_height
                     FROM transparent_received_output_spends s JOIN transactions st ON st.id_tx = s.transaction_id
                     WHERE s.transparent_received_output_id = ?1",
                )
                .unwrap()
                .query_map([id], |r| Ok((r.get::<_, Vec<u8>>(0)?, r.get::<_, Option<u32>>(1)?, r.get::<_, u32>(2)?, r.get::<_, Option<u32>>(3)?)))
                .unwrap()
                .map(|r| {
                    let (stxid, m, o, e) = r.unwrap();
                    (tx_uid(&stxid), rel(m), rel(Some(o)), relexp(e))
                })
                .collect();
            sp.sort();
            out_rows.push(json!({
                "c": c, "v": value, "t": tx_uid(&txid),
                "acct": w.acct_rows.iter().position(|r| *r == acct_row).map(|i| i as i64 + 1).unwrap_or(-1),
                "mined": rel(mined), "minobs": rel(Some(minobs)), "exp": relexp(exp),
                "sp": sp.iter().map(|(t, m, o, e)| json!([t, m, o, e])).collect::<Vec<_>>(),
            }));
        }
        out_rows.sort_by_key(|r| r["c"].as_i64().unwrap());
        // spenders remembered for coins the wallet does not know yet (not compared by the specification: aid for reading traces)
        let smap: Vec<Value> = conn
            .prepare(
                "SELECT t.txid, m.prevout_txid, m.prevout_output_index FROM transparent_spend_map m
                 JOIN transactions t ON t.id_tx = m.spending_transaction_id",
            )
            .unwrap()
            .query_map([], |r| Ok((r.get::<_, Vec<u8>>(0)?, r.get::<_, Vec<u8>>(1)?, r.get::<_, u32>(2)?)))
            .unwrap()
            .filter_map(|r| {
                let (s, p, i) = r.unwrap();
                let p: [u8; 32] = p.try_into().ok()?;
                let c = self.by_outpoint.get(&(p, i))?;
                Some(json!([tx_uid(&s), c]))
            })
            .collect();
        // the lock columns of the coin rows, and what get_locked_outputs reports per account (coins only)
        let mut lock_rows: Vec<Value> = conn
            .prepare(
                "SELECT t.txid, u.output_index, u.lock_owner, u.lock_expiry_height FROM transparent_received_outputs u
                 JOIN transactions t ON t.id_tx = u.transaction_id WHERE u.lock_expiry_height IS NOT NULL OR u.lock_owner IS NOT NULL",
            )
            .unwrap()
            .query_map([], |r| Ok((r.get::<_, Vec<u8>>(0)?, r.get::<_, u32>(1)?, r.get::<_, Option<Vec<u8>>>(2)?, r.get::<_, Option<u32>>(3)?)))
            .unwrap()
            .map(|r| {
                let (txid, index, own, exp) = r.unwrap();
                let a: [u8; 32] = txid.try_into().unwrap();
                let c = self.by_outpoint.get(&(a, index)).map(|c| *c as i64).unwrap_or(-1);
                let o = own.map(|b| if b == vec![1u8; 32] { 0 } else if b == vec![2u8; 32] { 1 } else { 9 }).unwrap_or(-1);
                json!([c, o, rel(exp)])
            })
            .collect();
        lock_rows.sort_by_key(|x| x[0].as_i64().unwrap());
        let lock_api: Vec<Value> = w
            .acct_ids
            .iter()
            .map(|acct| {
                use zcash_client_backend::data_api::locking::OutputLockStore;
                let mut v: Vec<i64> = w
                    .st
                    .wallet()
                    .get_locked_outputs(*acct)
                    .unwrap_or_default() // ChainHeightUnknown before the first tip update
                    .iter()
                    .filter(|o| o.pool() == zcash_protocol::PoolType::Transparent)
                    .map(|o| {
                        let a: [u8; 32] = *o.txid().as_ref();
                        self.by_outpoint.get(&(a, o.output_index())).map(|c| *c as i64).unwrap_or(-1)
                    })
                    .collect();
                v.sort();
                json!(v)
            })
            .collect();
        let summary = w.st.wallet().get_wallet_summary(ConfirmationsPolicy::MIN).unwrap();
        let bals: Vec<Option<Value>> = w
            .acct_ids
            .iter()
            .map(|acct| {
                summary.as_ref().and_then(|s| s.account_balances().get(acct)).map(|b| {
                    let r = b.unshielded_regular_balance();
                    let cb = b.unshielded_coinbase_balance();
                    json!([u64::from(r.total()), u64::from(r.uneconomic_value()), u64::from(cb.total()), u64::from(cb.uneconomic_value())])
                })
            })
            .collect();
        let balp = bals.iter().all(|b| b.is_some());
        let bal: Vec<Value> = bals.into_iter().map(|b| b.unwrap_or(json!([0, 0, 0, 0]))).collect();
        let mut p = json!({"chk": true, "rows": out_rows, "smap": smap, "balp": balp, "bal": bal, "locks": {"rows": lock_rows, "api": lock_api}});
        if !self.ephemeral.is_empty() {
            p["eph"] = json!(eph_rows);
        }
        p
    }
}
