//! C08, validators part, spec -> code replay.
//!
//! Every case TLC emitted from `spec/Wallet/MC_ProposalValid.tla` (an abstract list of proposal steps,
//! the order in which they are handed to `Proposal::multi_step`, and the verdict of the rule
//! `ProposalValid.tla`) is materialised with REAL values — Sapling / Orchard / Ironwood notes built
//! from real keys, transparent outputs, ZIP 321 requests with real encoded addresses, real
//! `TransactionBalance`s — and executed on
//!
//!   * `Step::from_parts` step by step, then `Proposal::multi_step` (and `Proposal::single_step` where
//!     it applies): accept / reject must agree with the rule, and the reported `ProposalError`
//!     variant must be the class of one of the rules the case violates (exact when one rule is violated);
//!   * the untrusted decode path: the case is encoded to protobuf BY THE HARNESS (not by
//!     `from_standard_proposal`), serialised, parsed and given to `try_into_standard_proposal` with an
//!     in-harness `InputSource` over the fabricated notes: same verdict, and for accepted cases the
//!     decoded proposal must equal the one built directly;
//!   * for accepted proposals `from_standard_proposal` -> bytes -> `try_into_standard_proposal` must
//!     give back an equal proposal, and protobuf-level corruptions of the encoded proposal (fee or a
//!     change value off by one zatoshi, a duplicated input with the fee raised to keep the balance, a
//!     dangling prior-step reference, a wrong pool / missing entry / extra entry in the payment map, a
//!     zeroed anchor, an input the wallet does not hold, an unknown version) must be rejected.
//!
//! Amounts: a lattice unit is MAX_MONEY / M zatoshis (M is the constant TLC ran with), a linear map,
//! so sums, equalities and the MAX_MONEY range test carry over exactly.
//!
//! usage: c08_validators <cases.ndjson> <M>          (env VERIF_SEED)
//! stdout: one JSON summary object on the last line.
use std::collections::{BTreeMap, BTreeSet, HashMap};
use std::num::NonZeroU32;

use h_wallet::chain::Keys;
use h_wallet::util::{guarded, quiet_panics, read_ndjson, seed_from_env};
use incrementalmerkletree::Position;
use nonempty::NonEmpty;
use prost::Message;
use rand::{RngCore, SeedableRng};
use rand_chacha::ChaChaRng;
use serde_json::{Value, json};
use zcash_address::ZcashAddress;
use zcash_client_backend::{
    data_api::{
        AccountMeta, InputSource, NoteFilter, ReceivedNotes, TargetValue,
        locking::LockFilter,
        wallet::{ConfirmationsPolicy, TargetHeight},
    },
    fees::{ChangeValue, StandardFeeRule, TransactionBalance},
    proposal::{Proposal, ProposalError, ShieldedInputs, Step, StepOutput, StepOutputIndex},
    proto::{ProposalDecodingError, proposal as pb},
    wallet::{Note, ReceivedNote, WalletTransparentOutput},
};
use zcash_keys::address::{Address, UnifiedAddress};
use zcash_primitives::transaction::{TxId, TxVersion};
use zcash_protocol::{
    PoolType, ShieldedPool,
    consensus::{BlockHeight, Network, NetworkUpgrade, Parameters},
    value::Zatoshis,
};
use zcash_transparent::{
    address::TransparentAddress,
    bundle::{OutPoint, TxOut},
    keys::TransparentKeyScope,
};
use zip321::{Payment, TransactionRequest};

const MAX_MONEY: u64 = 21_000_000 * 100_000_000;

type Prop = Proposal<StandardFeeRule, u32>;

// ------------------------------------------------------------------------------------------------
// the fabricated world

struct World {
    unit: u64,
    salt: u64,
    net: Network,
    nu63: u32,
    policy: ConfirmationsPolicy,
    sap_addr: sapling::PaymentAddress,
    orch_addr: orchard::Address,
    taddr: TransparentAddress,
    addrs: HashMap<&'static str, ZcashAddress>,
    notes: HashMap<(u64, String, u64, u64), ReceivedNote<u32, Note>>,
    next_id: u32,
}

fn h32(salt: u64, tag: &str, a: u64, b: u64, c: u64) -> [u8; 32] {
    let mut st = blake2b_simd::Params::new().hash_length(32).personal(b"verif_c08v______").to_state();
    st.update(&salt.to_le_bytes());
    st.update(tag.as_bytes());
    st.update(&a.to_le_bytes());
    st.update(&b.to_le_bytes());
    st.update(&c.to_le_bytes());
    let mut out = [0u8; 32];
    out.copy_from_slice(st.finalize().as_bytes());
    out
}

impl World {
    fn new(seed: u64, m: u64) -> World {
        assert!(m > 0 && MAX_MONEY % m == 0, "M must divide MAX_MONEY");
        let mut rng = ChaChaRng::seed_from_u64(seed.wrapping_mul(0x9e37_79b9_7f4a_7c15) ^ 0xc08);
        let keys = Keys::random(&mut rng);
        let net = if seed % 2 == 0 { Network::TestNetwork } else { Network::MainNetwork };
        let nu63 = u32::from(net.activation_height(NetworkUpgrade::Nu6_3).expect("NU6.3 has an activation height"));
        let sap_addr = keys.sapling.default_address().1;
        let orch_addr = keys.orchard.address_at(0u32, zip32::Scope::External);
        let mut pkh = [0u8; 20];
        rng.fill_bytes(&mut pkh);
        let taddr = TransparentAddress::PublicKeyHash(pkh);
        let mut pkh2 = [0u8; 20];
        rng.fill_bytes(&mut pkh2);
        let mut tex = [0u8; 20];
        rng.fill_bytes(&mut tex);
        let ua = |o: bool, s: bool, t: bool| {
            Address::Unified(
                UnifiedAddress::from_receivers(
                    o.then_some(orch_addr),
                    s.then_some(sap_addr),
                    t.then_some(TransparentAddress::PublicKeyHash(pkh2)),
                )
                .expect("a unified address with a shielded receiver"),
            )
            .to_zcash_address(&net)
        };
        let mut addrs = HashMap::new();
        addrs.insert("t", Address::Transparent(TransparentAddress::PublicKeyHash(pkh2)).to_zcash_address(&net));
        addrs.insert("tex", Address::Tex(tex).to_zcash_address(&net));
        addrs.insert("zs", Address::Sapling(sap_addr).to_zcash_address(&net));
        addrs.insert("uSO", ua(true, true, false));
        addrs.insert("uO", ua(true, false, false));
        addrs.insert("uTS", ua(false, true, true));
        let policies = [(1u32, 1u32), (3, 10), (1, 3), (10, 10), (2, 5)];
        let (tr, un) = policies[(seed % policies.len() as u64) as usize];
        let policy = ConfirmationsPolicy::new(
            NonZeroU32::new(tr).unwrap(),
            NonZeroU32::new(un).unwrap(),
            #[cfg(feature = "transparent")]
            (seed % 3 == 0),
        )
        .expect("a valid confirmations policy");
        World {
            unit: MAX_MONEY / m,
            salt: rng.next_u64(),
            net,
            nu63,
            policy,
            sap_addr,
            orch_addr,
            taddr,
            addrs,
            notes: HashMap::new(),
            next_id: 1,
        }
    }

    fn zat(&self, v: u64) -> Zatoshis {
        Zatoshis::from_u64(v * self.unit).expect("lattice amounts are within MAX_MONEY")
    }

    fn txid(&self, tx: u64) -> [u8; 32] {
        h32(self.salt, "txid", tx, 0, 0)
    }

    fn pool(p: &str) -> PoolType {
        match p {
            "T" => PoolType::TRANSPARENT,
            "S" => PoolType::SAPLING,
            "O" => PoolType::ORCHARD,
            "I" => PoolType::IRONWOOD,
            _ => panic!("harness: unknown pool {p}"),
        }
    }

    fn target(&self, iw: bool, variant: u64) -> u32 {
        // the activation boundary itself on even cases, further away on odd ones
        let d = if variant % 2 == 0 { 0 } else { 1 + (self.salt % 5000) as u32 };
        if iw { self.nu63 + d } else { self.nu63 - 1 - d }
    }

    /// A real note of the given pool and value; one note per (tx, pool, index, value).
    fn note(&mut self, tx: u64, p: &str, n: u64, v: u64) -> ReceivedNote<u32, Note> {
        let key = (tx, p.to_string(), n, v);
        if let Some(r) = self.notes.get(&key) {
            return r.clone();
        }
        let pcode = match p {
            "S" => 1,
            "O" => 2,
            _ => 3,
        };
        let value = v * self.unit;
        let note = match p {
            "S" => Note::Sapling(sapling::Note::from_parts(
                self.sap_addr,
                sapling::value::NoteValue::from_raw(value),
                sapling::Rseed::AfterZip212(h32(self.salt, "rseed", tx, pcode, n)),
            )),
            "O" | "I" => {
                let (version, pool) = if p == "O" {
                    (orchard::note::NoteVersion::V2, orchard::ValuePool::Orchard)
                } else {
                    (orchard::note::NoteVersion::V3, orchard::ValuePool::Ironwood)
                };
                let mut ctr = 0u64;
                let note = loop {
                    ctr += 1;
                    let rho = Option::from(orchard::note::Rho::from_bytes(&h32(self.salt, "rho", tx * 8 + pcode, n, ctr)));
                    let rho: orchard::note::Rho = match rho {
                        Some(r) => r,
                        None => continue,
                    };
                    let rseed = Option::from(orchard::note::RandomSeed::from_bytes(
                        h32(self.salt, "orseed", tx * 8 + pcode, n, ctr),
                        &rho,
                    ));
                    let rseed: orchard::note::RandomSeed = match rseed {
                        Some(r) => r,
                        None => continue,
                    };
                    let nt: Option<orchard::Note> = Option::from(orchard::Note::from_parts(
                        self.orch_addr,
                        orchard::value::NoteValue::from_raw(value),
                        rho,
                        rseed,
                        version,
                    ));
                    if let Some(nt) = nt {
                        break nt;
                    }
                };
                Note::Orchard { note, pool }
            }
            _ => panic!("harness: unknown shielded pool {p}"),
        };
        let id = self.next_id;
        self.next_id += 1;
        let r = ReceivedNote::from_parts(
            id,
            TxId::from_bytes(self.txid(tx)),
            n as u16,
            note,
            zip32::Scope::External,
            Position::from(1000 + id as u64),
            Some(BlockHeight::from_u32(self.nu63 - 20_000 + id)),
            None,
        );
        self.notes.insert(key, r.clone());
        r
    }

    fn coin_parts(&self, tx: u64, n: u64, v: u64) -> (OutPoint, TxOut, BlockHeight) {
        (
            OutPoint::new(self.txid(tx), n as u32),
            TxOut::new(self.zat(v), self.taddr.script().into()),
            BlockHeight::from_u32(self.nu63 - 30_000 + (tx as u32) * 7 + n as u32),
        )
    }

    fn coin(&self, tx: u64, n: u64, v: u64) -> WalletTransparentOutput<()> {
        let (op, txout, h) = self.coin_parts(tx, n, v);
        WalletTransparentOutput::from_parts(op, txout, Some(h), Some(()), Some(TransparentKeyScope::EXTERNAL), None)
            .expect("a P2PKH output has a recipient address")
    }
}

// ------------------------------------------------------------------------------------------------
// the wallet the decode path looks inputs up in

struct Src {
    notes: HashMap<([u8; 32], u8, u32), ReceivedNote<u32, Note>>,
    #[cfg(feature = "transparent")]
    coins: HashMap<([u8; 32], u32), WalletTransparentOutput<u32>>,
}

fn sp_code(p: ShieldedPool) -> u8 {
    match p {
        ShieldedPool::Sapling => 1,
        ShieldedPool::Orchard => 2,
        ShieldedPool::Ironwood => 3,
    }
}

impl InputSource for Src {
    type Error = String;
    type AccountId = u32;
    type NoteRef = u32;

    fn get_spendable_note(
        &self,
        txid: &TxId,
        protocol: ShieldedPool,
        index: u32,
        _target_height: TargetHeight,
        _lock_filter: LockFilter<'_>,
    ) -> Result<Option<ReceivedNote<u32, Note>>, String> {
        Ok(self.notes.get(&(*txid.as_ref(), sp_code(protocol), index)).cloned())
    }

    fn anchor_computable(&self, _protocol: ShieldedPool, _height: BlockHeight) -> Result<bool, String> {
        Ok(true)
    }

    fn select_spendable_notes(
        &self,
        _account: u32,
        _target_value: TargetValue,
        _sources: &[ShieldedPool],
        _target_height: TargetHeight,
        _confirmations_policy: ConfirmationsPolicy,
        _exclude: &[u32],
        _lock_filter: LockFilter<'_>,
    ) -> Result<ReceivedNotes<u32>, String> {
        Err("harness: selection is not part of the decode path".into())
    }

    fn select_unspent_notes(
        &self,
        _account: u32,
        _sources: &[ShieldedPool],
        _target_height: TargetHeight,
        _exclude: &[u32],
        _lock_filter: LockFilter<'_>,
    ) -> Result<ReceivedNotes<u32>, String> {
        Err("harness: selection is not part of the decode path".into())
    }

    fn get_account_metadata(
        &self,
        _account: u32,
        _selector: &NoteFilter,
        _target_height: TargetHeight,
        _exclude: &[u32],
        _lock_filter: LockFilter<'_>,
    ) -> Result<AccountMeta, String> {
        Err("harness: metadata is not part of the decode path".into())
    }

    #[cfg(feature = "transparent")]
    fn get_unspent_transparent_output(
        &self,
        outpoint: &OutPoint,
        _target_height: TargetHeight,
    ) -> Result<Option<WalletTransparentOutput<u32>>, String> {
        Ok(self.coins.get(&(*outpoint.hash(), outpoint.n())).cloned())
    }
}

// ------------------------------------------------------------------------------------------------
// classes

fn class_of(e: &ProposalError) -> &'static str {
    match e {
        ProposalError::RequestTotalInvalid => "RequestTotalInvalid",
        ProposalError::Overflow => "Overflow",
        ProposalError::BalanceError { .. } => "BalanceError",
        ProposalError::ShieldingInvalid => "ShieldingInvalid",
        ProposalError::AnchorNotFound(_) => "AnchorNotFound",
        ProposalError::MissingShieldedAnchor => "MissingShieldedAnchor",
        ProposalError::ReferenceError(_) => "ReferenceError",
        ProposalError::StepDoubleSpend(_) => "StepDoubleSpend",
        ProposalError::ChainDoubleSpend(_) => "ChainDoubleSpend",
        ProposalError::InputsLocked(_) => "InputsLocked",
        ProposalError::PaymentPoolsMismatch => "PaymentPoolsMismatch",
        ProposalError::SpendsChange(_) => "SpendsChange",
        ProposalError::Zip321(_) => "Zip321",
        ProposalError::PaymentAmountMissing(_) => "PaymentAmountMissing",
        ProposalError::IncompatibleTxVersion(_) => "IncompatibleTxVersion",
        ProposalError::OrchardReceiverRequiresIronwood(_) => "OrchardReceiverRequiresIronwood",
        ProposalError::OrchardPoolValueCreation { .. } => "OrchardPoolValueCreation",
        ProposalError::OrchardPoolPayment(_) => "OrchardPoolPayment",
        ProposalError::TransactionTooLarge { .. } => "TransactionTooLarge",
        #[cfg(feature = "transparent")]
        ProposalError::EphemeralOutputLeftUnspent(_) => "EphemeralOutputLeftUnspent",
        #[cfg(feature = "transparent")]
        ProposalError::PaysTexFromShielded => "PaysTexFromShielded",
        #[cfg(feature = "transparent")]
        ProposalError::EphemeralOutputsInvalid => "EphemeralOutputsInvalid",
        #[cfg(feature = "transparent")]
        ProposalError::EphemeralAddressLinkability => "EphemeralAddressLinkability",
        _ => "Other",
    }
}

const EPHEMERAL_RULE_CLASSES: [&str; 5] =
    ["SpendsChange", "EphemeralOutputLeftUnspent", "PaysTexFromShielded", "EphemeralOutputsInvalid", "EphemeralAddressLinkability"];

/// (class, whether the class is one the rule names for the decode path)
fn decode_class(e: &ProposalDecodingError<String>) -> (String, bool) {
    match e {
        ProposalDecodingError::ProposalInvalid(pe) => (class_of(pe).to_string(), true),
        ProposalDecodingError::OrchardPaymentProhibited => ("OrchardPoolPayment".into(), true),
        ProposalDecodingError::MissingShieldedAnchor => ("MissingShieldedAnchor".into(), true),
        ProposalDecodingError::BalanceInvalid => ("BalanceInvalid".into(), true),
        ProposalDecodingError::NoSteps => ("decode:NoSteps".into(), false),
        ProposalDecodingError::Zip321(_) => ("decode:Zip321".into(), false),
        ProposalDecodingError::NullInput(_) => ("decode:NullInput".into(), false),
        ProposalDecodingError::TxIdInvalid(_) => ("decode:TxIdInvalid".into(), false),
        ProposalDecodingError::ValuePoolNotSupported(_) => ("decode:ValuePoolNotSupported".into(), false),
        ProposalDecodingError::InputRetrieval(_) => ("decode:InputRetrieval".into(), false),
        ProposalDecodingError::InputNotFound(..) => ("decode:InputNotFound".into(), false),
        ProposalDecodingError::MemoInvalid(_) => ("decode:MemoInvalid".into(), false),
        ProposalDecodingError::VersionInvalid(_) => ("decode:VersionInvalid".into(), false),
        ProposalDecodingError::FeeRuleNotSupported(_) => ("decode:FeeRuleNotSupported".into(), false),
        ProposalDecodingError::EmptyShieldedInputs(_) => ("decode:EmptyShieldedInputs".into(), false),
        ProposalDecodingError::TransparentMemo => ("decode:TransparentMemo".into(), false),
        ProposalDecodingError::InvalidChangeRecipient(_) => ("decode:InvalidChangeRecipient".into(), false),
        ProposalDecodingError::InvalidEphemeralRecipient(_) => ("decode:InvalidEphemeralRecipient".into(), false),
        ProposalDecodingError::ConfirmationsPolicyInvalid => ("decode:ConfirmationsPolicyInvalid".into(), false),
        ProposalDecodingError::ProposedVersionInvalid(_) => ("decode:ProposedVersionInvalid".into(), false),
        _ => ("decode:Other".into(), false),
    }
}

// ------------------------------------------------------------------------------------------------
// materialisation of one abstract step

fn u(v: &Value) -> u64 {
    v.as_u64().unwrap_or_else(|| panic!("harness: expected a natural number, got {v}"))
}
fn arr(v: &Value) -> &Vec<Value> {
    v.as_array().unwrap_or_else(|| panic!("harness: expected an array, got {v}"))
}
fn s(v: &Value) -> &str {
    v.as_str().unwrap_or_else(|| panic!("harness: expected a string, got {v}"))
}

struct Parts {
    request: TransactionRequest,
    pools: BTreeMap<usize, PoolType>,
    tin: Vec<WalletTransparentOutput<()>>,
    sin: Option<ShieldedInputs<u32>>,
    anchor: Option<BlockHeight>,
    prior: Vec<StepOutput>,
    change: Vec<ChangeValue>,
    fee: Zatoshis,
    sh: bool,
}

#[allow(dead_code)] // constructed only without the `transparent` feature
enum Unsupported {
    TransparentChange,
}

fn request_of(w: &World, st: &Value) -> TransactionRequest {
    let mut payments = BTreeMap::new();
    for p in arr(&st["req"]) {
        let amount = if p["a"].as_i64() == Some(-1) { None } else { Some(w.zat(u(&p["a"]))) };
        let pay = Payment::new(w.addrs[s(&p["k"])].clone(), amount, None, None, None, vec![])
            .expect("the lattice holds no payment ZIP 321 forbids");
        payments.insert(u(&p["i"]) as usize, pay);
    }
    TransactionRequest::from_indexed(payments).expect("payment indices are small")
}

fn anchor_height(w: &World, target: u32, k: usize) -> u32 {
    target - 3 - (k as u32) - (w.salt % 40) as u32
}

fn parts_of(w: &mut World, st: &Value, target: u32, k: usize) -> Result<Parts, Unsupported> {
    let request = request_of(w, st);
    let pools = arr(&st["pools"]).iter().map(|e| (u(&e["i"]) as usize, World::pool(s(&e["p"])))).collect();
    let tin = arr(&st["tin"]).iter().map(|c| w.coin(u(&c["tx"]), u(&c["n"]), u(&c["v"]))).collect();
    let notes: Vec<_> = arr(&st["sin"]).iter().map(|n| w.note(u(&n["tx"]), s(&n["p"]), u(&n["n"]), u(&n["v"]))).collect();
    let sin = NonEmpty::from_vec(notes).map(ShieldedInputs::from_parts);
    let anchor = st["anchor"].as_bool().unwrap().then(|| BlockHeight::from_u32(anchor_height(w, target, k)));
    let prior = arr(&st["prior"])
        .iter()
        .map(|r| {
            let j = u(&r["j"]) as usize;
            StepOutput::new(u(&r["s"]) as usize, if s(&r["o"]) == "P" { StepOutputIndex::Payment(j) } else { StepOutputIndex::Change(j) })
        })
        .collect();
    let mut change = vec![];
    for c in arr(&st["change"]) {
        let v = w.zat(u(&c["v"]));
        let eph = c["e"].as_bool().unwrap();
        change.push(match (s(&c["p"]), eph) {
            ("S", false) => ChangeValue::sapling(v, None),
            ("O", false) => ChangeValue::orchard(v, None),
            ("I", false) => ChangeValue::ironwood(v, None),
            #[cfg(feature = "transparent")]
            ("T", false) => ChangeValue::transparent(v),
            #[cfg(feature = "transparent")]
            ("T", true) => ChangeValue::ephemeral_transparent(v),
            #[cfg(not(feature = "transparent"))]
            ("T", _) => return Err(Unsupported::TransparentChange),
            (p, e) => panic!("harness: change pool {p} ephemeral {e} is not constructible"),
        });
    }
    Ok(Parts { request, pools, tin, sin, anchor, prior, change, fee: w.zat(u(&st["fee"])), sh: st["sh"].as_bool().unwrap() })
}

/// Outcome of running the validators on one case.
#[derive(Debug, Clone, PartialEq)]
enum Obs {
    Build { at: usize, class: String },
    Multi { class: String },
    Ok,
    Panic { at: String, msg: String },
}

impl Obs {
    fn json(&self) -> Value {
        match self {
            Obs::Build { at, class } => json!({"stage": "build", "at": at, "class": class}),
            Obs::Multi { class } => json!({"stage": "multi", "class": class}),
            Obs::Ok => json!({"stage": "ok"}),
            Obs::Panic { at, msg } => json!({"stage": "panic", "in": at, "msg": msg}),
        }
    }
}

fn build_step(p: &Parts, prev: &[Step<u32>], iw: bool) -> Result<Result<Step<u32>, String>, String> {
    guarded(|| {
        let balance = match TransactionBalance::new(p.change.clone(), p.fee) {
            Ok(b) => b,
            Err(_) => return Err("BalanceInvalid".to_string()),
        };
        Step::from_parts(
            prev,
            p.request.clone(),
            p.pools.clone(),
            p.tin.clone(),
            p.sin.clone(),
            p.anchor,
            p.prior.clone(),
            balance,
            p.sh,
            iw,
        )
        .map_err(|e| class_of(&e).to_string())
    })
}

// ------------------------------------------------------------------------------------------------
// the harness's own protobuf encoder (independent of from_standard_proposal)

fn pb_pool(p: &str) -> i32 {
    (match p {
        "T" => pb::ValuePool::Transparent,
        "S" => pb::ValuePool::Sapling,
        "O" => pb::ValuePool::Orchard,
        "I" => pb::ValuePool::Ironwood,
        _ => panic!("harness: unknown pool {p}"),
    }) as i32
}

fn hand_encode(w: &World, case: &Value, target: u32) -> pb::Proposal {
    let steps = arr(&case["steps"])
        .iter()
        .enumerate()
        .map(|(k, st)| {
            let mut inputs = vec![];
            for c in arr(&st["tin"]) {
                inputs.push(pb::ProposedInput {
                    value: Some(pb::proposed_input::Value::ReceivedOutput(pb::ReceivedOutput {
                        txid: w.txid(u(&c["tx"])).to_vec(),
                        value_pool: pb_pool("T"),
                        index: u(&c["n"]) as u32,
                        value: u(&c["v"]) * w.unit,
                    })),
                });
            }
            for n in arr(&st["sin"]) {
                inputs.push(pb::ProposedInput {
                    value: Some(pb::proposed_input::Value::ReceivedOutput(pb::ReceivedOutput {
                        txid: w.txid(u(&n["tx"])).to_vec(),
                        value_pool: pb_pool(s(&n["p"])),
                        index: u(&n["n"]) as u32,
                        value: u(&n["v"]) * w.unit,
                    })),
                });
            }
            for r in arr(&st["prior"]) {
                let (si, j) = (u(&r["s"]) as u32, u(&r["j"]) as u32);
                inputs.push(pb::ProposedInput {
                    value: Some(if s(&r["o"]) == "P" {
                        pb::proposed_input::Value::PriorStepOutput(pb::PriorStepOutput { step_index: si, payment_index: j })
                    } else {
                        pb::proposed_input::Value::PriorStepChange(pb::PriorStepChange { step_index: si, change_index: j })
                    }),
                });
            }
            pb::ProposalStep {
                transaction_request: request_of(w, st).to_uri(),
                payment_output_pools: arr(&st["pools"])
                    .iter()
                    .map(|e| pb::PaymentOutputPool { payment_index: u(&e["i"]) as u32, value_pool: pb_pool(s(&e["p"])) })
                    .collect(),
                anchor_height: if st["anchor"].as_bool().unwrap() { anchor_height(w, target, k) } else { 0 },
                inputs,
                balance: Some(pb::TransactionBalance {
                    proposed_change: arr(&st["change"])
                        .iter()
                        .map(|c| pb::ChangeValue {
                            value: u(&c["v"]) * w.unit,
                            value_pool: pb_pool(s(&c["p"])),
                            memo: None,
                            is_ephemeral: c["e"].as_bool().unwrap(),
                        })
                        .collect(),
                    fee_required: u(&st["fee"]) * w.unit,
                    dummy_outputs: None,
                }),
                is_shielding: st["sh"].as_bool().unwrap(),
            }
        })
        .collect();
    pb::Proposal {
        proto_version: 1,
        fee_rule: pb::FeeRule::Zip317 as i32,
        min_target_height: target,
        steps,
        confirmations_policy: Some(pb::ConfirmationsPolicy {
            trusted: w.policy.trusted().into(),
            untrusted: w.policy.untrusted().into(),
            #[cfg(feature = "transparent")]
            allow_zero_conf_shielding: w.policy.allow_zero_conf_shielding(),
            #[cfg(not(feature = "transparent"))]
            allow_zero_conf_shielding: true,
        }),
        proposed_version: None,
    }
}

/// bytes -> message -> try_into_standard_proposal
fn decode(w: &World, src: &Src, msg: &pb::Proposal) -> Result<Result<Prop, (String, bool)>, String> {
    guarded(|| {
        let bytes = msg.encode_to_vec();
        let parsed = pb::Proposal::decode(&bytes[..]).map_err(|e| (format!("decode:Protobuf({e})"), false))?;
        parsed.try_into_standard_proposal(&w.net, src).map_err(|e| decode_class(&e))
    })
}

fn source_for(w: &mut World, case: &Value) -> Src {
    let mut notes = HashMap::new();
    #[cfg(feature = "transparent")]
    let mut coins = HashMap::new();
    for st in arr(&case["steps"]) {
        for n in arr(&st["sin"]) {
            let r = w.note(u(&n["tx"]), s(&n["p"]), u(&n["n"]), u(&n["v"]));
            notes.insert((*r.txid().as_ref(), sp_code(r.note().pool()), u32::from(r.output_index())), r);
        }
        #[cfg(feature = "transparent")]
        for c in arr(&st["tin"]) {
            let (op, txout, h) = w.coin_parts(u(&c["tx"]), u(&c["n"]), u(&c["v"]));
            let key = (*op.hash(), op.n());
            let out = WalletTransparentOutput::from_parts(op, txout, Some(h), Some(7u32), Some(TransparentKeyScope::EXTERNAL), Some(9u32))
                .expect("a P2PKH output has a recipient address");
            coins.insert(key, out);
        }
    }
    Src {
        notes,
        #[cfg(feature = "transparent")]
        coins,
    }
}

// ------------------------------------------------------------------------------------------------

#[derive(Default)]
struct Stats {
    cases: u64,
    judged: u64,
    unjudged: u64,
    skipped_transparent_change: u64,
    accepted: u64,
    rejected_build: u64,
    rejected_multi: u64,
    exact_class: u64,
    member_class: u64,
    first_agree: u64,
    first_differs: u64,
    first_differs_kinds: BTreeMap<String, u64>,
    single_step_calls: u64,
    decode_cases: u64,
    decode_skipped_transparent: u64,
    decode_accept: u64,
    decode_reject: u64,
    decode_reject_other_class: u64,
    roundtrips: u64,
    corruptions: u64,
    corruption_kinds: BTreeMap<String, u64>,
    value_field_ignored: u64,
    value_field_rejected: u64,
    unjudged_outcomes: BTreeMap<String, u64>,
    distinct: BTreeSet<String>,
}

struct Runner {
    w: World,
    st: Stats,
    mismatches: Vec<Value>,
    n_mismatch: u64,
}

impl Runner {
    fn mismatch(&mut self, case: &Value, kind: &str, expected: Value, got: Value) {
        self.n_mismatch += 1;
        if self.mismatches.len() < 12 {
            self.mismatches.push(json!({"case": case, "kind": kind, "expected": expected, "got": got}));
        }
    }

    fn run_case(&mut self, rec: &Value, idx: u64) {
        let case = &rec["c"];
        let exp = &rec["exp"];
        let iw = case["iw"].as_bool().unwrap();
        let target = self.w.target(iw, idx);
        let stage = s(&exp["stage"]).to_string();
        let classes: BTreeSet<String> = arr(&exp["classes"]).iter().map(|c| s(c).to_string()).collect();
        self.st.cases += 1;

        // materialise
        let mut parts = vec![];
        for (k, st) in arr(&case["steps"]).iter().enumerate() {
            match parts_of(&mut self.w, st, target, k) {
                Ok(p) => parts.push(p),
                Err(Unsupported::TransparentChange) => {
                    self.st.skipped_transparent_change += 1;
                    return;
                }
            }
        }

        // Step::from_parts, one step after the other
        let mut built: Vec<Step<u32>> = vec![];
        let mut obs = None;
        for (k, p) in parts.iter().enumerate() {
            match build_step(p, &built, iw) {
                Err(msg) => {
                    obs = Some(Obs::Panic { at: format!("Step::from_parts (step {})", k + 1), msg });
                    break;
                }
                Ok(Err(class)) => {
                    obs = Some(Obs::Build { at: k + 1, class });
                    break;
                }
                Ok(Ok(step)) => built.push(step),
            }
        }
        // Proposal::multi_step on the picked list
        let pick: Vec<usize> = arr(&case["pick"]).iter().map(|x| u(x) as usize - 1).collect();
        let identity = pick.iter().copied().eq(0..parts.len());
        let mut proposal: Option<Prop> = None;
        if obs.is_none() {
            let picked: Vec<Step<u32>> = pick.iter().map(|i| built[*i].clone()).collect();
            let policy = self.w.policy;
            let r = guarded(|| {
                Proposal::multi_step(
                    StandardFeeRule::Zip317,
                    TargetHeight::from(target),
                    policy,
                    NonEmpty::from_vec(picked).expect("a case has at least one step"),
                )
                .map_err(|e| class_of(&e).to_string())
            });
            obs = Some(match r {
                Err(msg) => Obs::Panic { at: "Proposal::multi_step".into(), msg },
                Ok(Err(class)) => Obs::Multi { class },
                Ok(Ok(p)) => {
                    proposal = Some(p);
                    Obs::Ok
                }
            });
        }
        let obs = obs.unwrap();
        self.st.distinct.insert(format!("{}|{}", stage, obs.json()));

        // judge
        if let Obs::Panic { .. } = obs {
            self.mismatch(rec, "panic", exp.clone(), obs.json());
            return;
        }
        // The ZIP 320 / ephemeral-output rules are enforced when the transactions are created, not by these
        // validators, and are not part of the rule; should a validator start to apply one of them, that is a
        // refusal the rule has no opinion on.
        if let Obs::Build { class, .. } | Obs::Multi { class } = &obs {
            if EPHEMERAL_RULE_CLASSES.contains(&class.as_str()) && !classes.contains(class) {
                self.st.unjudged += 1;
                *self.st.unjudged_outcomes.entry(obs.json().to_string()).or_default() += 1;
                return;
            }
        }
        match stage.as_str() {
            "unjudged" => {
                self.st.unjudged += 1;
                *self.st.unjudged_outcomes.entry(obs.json().to_string()).or_default() += 1;
                return;
            }
            "ok" => {
                self.st.judged += 1;
                if obs != Obs::Ok {
                    self.mismatch(rec, "valid proposal refused", exp.clone(), obs.json());
                    return;
                }
                self.st.accepted += 1;
            }
            "build" | "multi" => {
                self.st.judged += 1;
                let (ok_stage, class) = match &obs {
                    Obs::Build { at, class } => (stage == "build" && *at as u64 == u(&exp["at"]), class.clone()),
                    Obs::Multi { class } => (stage == "multi", class.clone()),
                    _ => (false, String::new()),
                };
                if !ok_stage {
                    let kind = if obs == Obs::Ok { "invalid proposal accepted" } else { "refused at another stage" };
                    self.mismatch(rec, kind, exp.clone(), obs.json());
                    return;
                }
                if !classes.contains(&class) {
                    self.mismatch(rec, "error class", exp.clone(), obs.json());
                    return;
                }
                if stage == "build" {
                    self.st.rejected_build += 1;
                } else {
                    self.st.rejected_multi += 1;
                }
                if classes.len() == 1 {
                    self.st.exact_class += 1;
                } else {
                    self.st.member_class += 1;
                    if s(&exp["first"]) == class {
                        self.st.first_agree += 1
                    } else {
                        self.st.first_differs += 1;
                        *self.st.first_differs_kinds.entry(format!("{} reported, {} first in CodeOrder", class, s(&exp["first"]))).or_default() += 1;
                    }
                }
            }
            other => panic!("harness: unknown expected stage {other}"),
        }

        // Proposal::single_step where it applies: one step, an anchor, no prior-step inputs
        if parts.len() == 1 && parts[0].anchor.is_some() && parts[0].prior.is_empty() {
            let p = &parts[0];
            let policy = self.w.policy;
            self.st.single_step_calls += 1;
            let r = guarded(|| {
                let balance = match TransactionBalance::new(p.change.clone(), p.fee) {
                    Ok(b) => b,
                    Err(_) => return Err("BalanceInvalid".to_string()),
                };
                Proposal::<StandardFeeRule, u32>::single_step(
                    p.request.clone(),
                    p.pools.clone(),
                    p.tin.clone(),
                    p.sin.clone(),
                    p.anchor.unwrap(),
                    balance,
                    StandardFeeRule::Zip317,
                    TargetHeight::from(target),
                    policy,
                    p.sh,
                    iw,
                )
                .map_err(|e| class_of(&e).to_string())
            });
            match (r, &proposal) {
                (Err(msg), _) => self.mismatch(rec, "panic", exp.clone(), json!({"stage": "panic", "in": "Proposal::single_step", "msg": msg})),
                (Ok(Ok(sp)), Some(mp)) => {
                    if &sp != mp {
                        self.mismatch(rec, "single_step differs from multi_step", exp.clone(), json!("unequal proposals"));
                    }
                }
                (Ok(Ok(_)), None) => self.mismatch(rec, "invalid proposal accepted", exp.clone(), json!({"stage": "ok", "by": "Proposal::single_step"})),
                (Ok(Err(class)), Some(_)) => self.mismatch(rec, "valid proposal refused", exp.clone(), json!({"stage": "build", "by": "Proposal::single_step", "class": class})),
                (Ok(Err(class)), None) => {
                    if !classes.contains(&class) {
                        self.mismatch(rec, "error class", exp.clone(), json!({"stage": "build", "by": "Proposal::single_step", "class": class}));
                    }
                }
            }
        }

        // the untrusted decode path (builds the steps in order: identity picks only)
        if !identity {
            return;
        }
        let has_tin = arr(&case["steps"]).iter().any(|st| !arr(&st["tin"]).is_empty());
        if has_tin && !cfg!(feature = "transparent") {
            self.st.decode_skipped_transparent += 1;
            return;
        }
        let src = source_for(&mut self.w, case);
        let msg = hand_encode(&self.w, case, target);
        self.st.decode_cases += 1;
        match decode(&self.w, &src, &msg) {
            Err(m) => {
                self.mismatch(rec, "panic", exp.clone(), json!({"stage": "panic", "in": "try_into_standard_proposal", "msg": m}));
                return;
            }
            Ok(Ok(dp)) => {
                self.st.decode_accept += 1;
                match &proposal {
                    None => {
                        self.mismatch(rec, "invalid proposal accepted", exp.clone(), json!({"stage": "ok", "by": "try_into_standard_proposal"}));
                        return;
                    }
                    Some(p) => {
                        if &dp != p {
                            self.mismatch(rec, "decoded proposal differs", exp.clone(), json!("the proposal decoded from the harness's encoding is not the one built directly"));
                            return;
                        }
                    }
                }
            }
            Ok(Err((class, named))) => {
                self.st.decode_reject += 1;
                if proposal.is_some() && EPHEMERAL_RULE_CLASSES.contains(&class.as_str()) {
                    return;
                }
                if proposal.is_some() {
                    self.mismatch(rec, "valid proposal refused", exp.clone(), json!({"stage": "reject", "by": "try_into_standard_proposal", "class": class}));
                    return;
                }
                if named {
                    if !classes.contains(&class) {
                        self.mismatch(rec, "error class", exp.clone(), json!({"stage": "reject", "by": "try_into_standard_proposal", "class": class}));
                        return;
                    }
                } else {
                    self.st.decode_reject_other_class += 1;
                }
            }
        }

        // accepted: the library's own encoder, and corruptions of its output
        if let Some(p) = proposal {
            let versions = [None, Some(TxVersion::V5), Some(TxVersion::V6)];
            let p = p.with_proposed_version(versions[(idx % 3) as usize]);
            self.roundtrip_and_corrupt(rec, &p, &src, iw);
        }
    }

    fn roundtrip_and_corrupt(&mut self, rec: &Value, p: &Prop, src: &Src, iw: bool) {
        let case = &rec["c"];
        let enc = match guarded(|| pb::Proposal::from_standard_proposal(p)) {
            Ok(e) => e,
            Err(m) => {
                self.mismatch(rec, "panic", json!("an encoding"), json!({"stage": "panic", "in": "from_standard_proposal", "msg": m}));
                return;
            }
        };
        self.st.roundtrips += 1;
        match decode(&self.w, src, &enc) {
            Ok(Ok(dp)) if &dp == p => {}
            Ok(Ok(_)) => {
                self.mismatch(rec, "round trip differs", json!("equal proposal"), json!("from_standard_proposal -> try_into_standard_proposal gave a different proposal"));
                return;
            }
            Ok(Err((class, _))) => {
                self.mismatch(rec, "round trip refused", json!("equal proposal"), json!({"class": class}));
                return;
            }
            Err(m) => {
                self.mismatch(rec, "panic", json!("equal proposal"), json!({"stage": "panic", "in": "try_into_standard_proposal", "msg": m}));
                return;
            }
        }

        // --- corruptions: each breaks one rule by construction
        let unit = self.w.unit;
        let nsteps = enc.steps.len();
        let mut muts: Vec<(String, pb::Proposal, Vec<&str>)> = vec![];
        for k in 0..nsteps {
            let stj = &arr(&case["steps"])[k];
            let bal = enc.steps[k].balance.clone().unwrap();
            let shielded_bundle = !arr(&stj["sin"]).is_empty()
                || arr(&stj["pools"]).iter().any(|e| s(&e["p"]) != "T")
                || arr(&stj["change"]).iter().any(|c| s(&c["p"]) != "T");
            // fee off by one zatoshi, either way
            let out_all = bal.fee_required
                + bal.proposed_change.iter().map(|c| c.value).sum::<u64>()
                + arr(&stj["req"]).iter().map(|p| u(&p["a"]) * unit).sum::<u64>();
            if out_all < MAX_MONEY {
                let mut m = enc.clone();
                m.steps[k].balance.as_mut().unwrap().fee_required += 1;
                muts.push((format!("fee+1zat@{k}"), m, vec!["BalanceError"]));
            }
            if bal.fee_required > 0 {
                let mut m = enc.clone();
                m.steps[k].balance.as_mut().unwrap().fee_required -= 1;
                muts.push((format!("fee-1zat@{k}"), m, vec!["BalanceError"]));
            }
            // a change value off by one zatoshi
            if let Some(c0) = bal.proposed_change.first() {
                if c0.value > 0 {
                    let mut m = enc.clone();
                    m.steps[k].balance.as_mut().unwrap().proposed_change[0].value -= 1;
                    let mut allowed = vec!["BalanceError"];
                    if iw && s(&arr(&stj["change"])[0]["p"]) == "O" {
                        allowed.push("OrchardPoolValueCreation");
                    }
                    muts.push((format!("change-1zat@{k}"), m, allowed));
                }
            }
            // a duplicated input, the fee raised by its value so that the step still balances
            if let Some(first) = enc.steps[k].inputs.first().cloned() {
                let (dup_value, class) = match first.value.as_ref().unwrap() {
                    pb::proposed_input::Value::ReceivedOutput(o) => (Some(o.value), "ChainDoubleSpend"),
                    pb::proposed_input::Value::PriorStepOutput(r) => {
                        let prev = &arr(&case["steps"])[r.step_index as usize];
                        (arr(&prev["req"]).iter().find(|p| u(&p["i"]) == r.payment_index as u64).map(|p| u(&p["a"]) * unit), "StepDoubleSpend")
                    }
                    pb::proposed_input::Value::PriorStepChange(r) => {
                        let prev = &arr(&case["steps"])[r.step_index as usize];
                        (Some(u(&arr(&prev["change"])[r.change_index as usize]["v"]) * unit), "StepDoubleSpend")
                    }
                };
                if let Some(v) = dup_value {
                    let total_in: u64 = arr(&stj["tin"]).iter().chain(arr(&stj["sin"]).iter()).map(|x| u(&x["v"]) * unit).sum();
                    let out_total = bal.fee_required + bal.proposed_change.iter().map(|c| c.value).sum::<u64>();
                    // keep every sum in range so that the double spend is the only violated rule
                    if total_in + 2 * v <= MAX_MONEY / 2 && out_total + v <= MAX_MONEY / 2 {
                        let mut m = enc.clone();
                        // shielded inputs are looked up by the wallet one by one: a duplicate next to the original
                        let pos = if matches!(first.value, Some(pb::proposed_input::Value::ReceivedOutput(_))) { 1 } else { m.steps[k].inputs.len() };
                        m.steps[k].inputs.insert(pos, first.clone());
                        m.steps[k].balance.as_mut().unwrap().fee_required += v;
                        muts.push((format!("duplicate-input@{k}"), m, vec![class]));
                    }
                }
            }
            // a dangling prior-step reference: to this very step, and to an output no earlier step has
            {
                let mut m = enc.clone();
                m.steps[k].inputs.push(pb::ProposedInput {
                    value: Some(pb::proposed_input::Value::PriorStepOutput(pb::PriorStepOutput { step_index: k as u32, payment_index: 0 })),
                });
                muts.push((format!("self-reference@{k}"), m, vec!["ReferenceError"]));
                if k > 0 {
                    let mut m = enc.clone();
                    m.steps[k].inputs.push(pb::ProposedInput {
                        value: Some(pb::proposed_input::Value::PriorStepChange(pb::PriorStepChange { step_index: 0, change_index: 7 })),
                    });
                    muts.push((format!("dangling-change-reference@{k}"), m, vec!["ReferenceError"]));
                }
            }
            // the payment map: a pool the recipient cannot receive in, an entry missing, an entry too many
            if let Some(p0) = arr(&stj["req"]).first() {
                let wrong = match s(&p0["k"]) {
                    "t" | "tex" => "S",
                    "zs" | "uSO" | "uO" => "T",
                    "uTS" => "O",
                    k => panic!("harness: unknown address kind {k}"),
                };
                let mut m = enc.clone();
                let ix = m.steps[k].payment_output_pools.iter().position(|e| e.payment_index as u64 == u(&p0["i"])).unwrap();
                m.steps[k].payment_output_pools[ix].value_pool = pb_pool(wrong);
                let mut allowed = vec!["PaymentPoolsMismatch"];
                if wrong != "T" && !stj["anchor"].as_bool().unwrap() {
                    allowed.push("MissingShieldedAnchor");
                }
                if wrong == "O" && iw {
                    allowed.push("OrchardPoolPayment");
                }
                muts.push((format!("wrong-pool@{k}"), m, allowed));
                let mut m = enc.clone();
                m.steps[k].payment_output_pools.remove(ix);
                muts.push((format!("pool-entry-missing@{k}"), m, vec!["PaymentPoolsMismatch"]));
            }
            {
                let mut m = enc.clone();
                m.steps[k].payment_output_pools.push(pb::PaymentOutputPool { payment_index: 5, value_pool: pb_pool("T") });
                muts.push((format!("pool-entry-extra@{k}"), m, vec!["PaymentPoolsMismatch"]));
            }
            // the anchor of a step with a shielded bundle zeroed
            if shielded_bundle && enc.steps[k].anchor_height != 0 {
                let mut m = enc.clone();
                m.steps[k].anchor_height = 0;
                muts.push((format!("anchor-zeroed@{k}"), m, vec!["MissingShieldedAnchor"]));
            }
            // an input the wallet does not hold
            if let Some(pos) = enc.steps[k].inputs.iter().position(|i| matches!(i.value, Some(pb::proposed_input::Value::ReceivedOutput(_)))) {
                let mut m = enc.clone();
                if let Some(pb::proposed_input::Value::ReceivedOutput(o)) = m.steps[k].inputs[pos].value.as_mut() {
                    o.index += 11;
                }
                muts.push((format!("unknown-input@{k}"), m, vec!["decode:InputNotFound"]));
            }
        }
        {
            let mut m = enc.clone();
            m.proto_version = 2;
            muts.push(("version".into(), m, vec!["decode:VersionInvalid"]));
            let mut m = enc.clone();
            m.steps.clear();
            muts.push(("no-steps".into(), m, vec!["decode:NoSteps"]));
        }
        for (name, m, allowed) in muts {
            self.st.corruptions += 1;
            *self.st.corruption_kinds.entry(name.split('@').next().unwrap().to_string()).or_default() += 1;
            match decode(&self.w, src, &m) {
                Err(msg) => self.mismatch(rec, "panic", json!({"corruption": name}), json!({"stage": "panic", "in": "try_into_standard_proposal", "msg": msg})),
                Ok(Ok(_)) => self.mismatch(rec, "corrupted encoding accepted", json!({"corruption": name, "reject_with": allowed}), json!({"stage": "ok", "by": "try_into_standard_proposal"})),
                Ok(Err((class, _))) => {
                    if !allowed.contains(&class.as_str()) {
                        self.mismatch(rec, "error class", json!({"corruption": name, "reject_with": allowed}), json!({"stage": "reject", "by": "try_into_standard_proposal", "class": class}));
                    }
                }
            }
        }
        // information only: the `value` field of an encoded input is not authoritative (the wallet's
        // record of the note is); the decoded proposal must still be the balanced original
        if let Some(pos) = enc.steps[0].inputs.iter().position(|i| matches!(i.value, Some(pb::proposed_input::Value::ReceivedOutput(_)))) {
            let mut m = enc.clone();
            if let Some(pb::proposed_input::Value::ReceivedOutput(o)) = m.steps[0].inputs[pos].value.as_mut() {
                o.value += 1;
            }
            match decode(&self.w, src, &m) {
                Ok(Ok(dp)) => {
                    self.st.value_field_ignored += 1;
                    if &dp != p {
                        self.mismatch(rec, "decoded proposal differs", json!({"corruption": "input-value-field+1"}), json!("accepted, but not as the original proposal"));
                    }
                }
                Ok(Err(_)) => self.st.value_field_rejected += 1,
                Err(msg) => self.mismatch(rec, "panic", json!({"corruption": "input-value-field+1"}), json!({"stage": "panic", "in": "try_into_standard_proposal", "msg": msg})),
            }
        }
    }
}

fn main() {
    quiet_panics();
    let args: Vec<String> = std::env::args().collect();
    if args.len() < 3 {
        eprintln!("usage: c08_validators <cases.ndjson> <M>");
        std::process::exit(2);
    }
    let cases = read_ndjson(&args[1]);
    let m: u64 = args[2].parse().expect("M");
    let seed = seed_from_env();
    let mut r = Runner { w: World::new(seed, m), st: Stats::default(), mismatches: vec![], n_mismatch: 0 };
    for (i, rec) in cases.iter().enumerate() {
        // `idx` (the position in the emitted case list) selects the target height and version variant
        let idx = rec.get("idx").and_then(|v| v.as_u64()).unwrap_or(i as u64);
        r.run_case(rec, idx);
    }
    let st = &r.st;
    println!(
        "{}",
        json!({
            "cases": st.cases, "judged": st.judged, "unjudged": st.unjudged,
            "skipped_transparent_change": st.skipped_transparent_change,
            "accepted": st.accepted, "rejected_build": st.rejected_build, "rejected_multi": st.rejected_multi,
            "exact_class": st.exact_class, "member_class": st.member_class,
            "first_agree": st.first_agree, "first_differs": st.first_differs, "first_differs_kinds": st.first_differs_kinds,
            "single_step_calls": st.single_step_calls,
            "decode_cases": st.decode_cases, "decode_skipped_transparent": st.decode_skipped_transparent,
            "decode_accept": st.decode_accept, "decode_reject": st.decode_reject,
            "decode_reject_other_class": st.decode_reject_other_class,
            "roundtrips": st.roundtrips, "corruptions": st.corruptions, "corruption_kinds": st.corruption_kinds,
            "value_field_ignored": st.value_field_ignored, "value_field_rejected": st.value_field_rejected,
            "unjudged_outcomes": st.unjudged_outcomes,
            "distinct_outcomes": st.distinct.len(),
            "transparent_build": cfg!(feature = "transparent"),
            "network": format!("{:?}", r.w.net), "unit_zat": r.w.unit,
            "n_mismatch": r.n_mismatch, "mismatches": r.mismatches,
        })
    );
}
