//! C15 spec -> code replay: every edge TLC emitted from ScanQueue.tla (a prefix of insertions, one
//! more insertion, the Layer-A vector the specification predicts) is executed on the real
//! `SpanningTree` and `into_vec()` compared with the prediction.
//!
//! usage: c15_replay <edges.ndjson> <base-height>
//! stdout: one JSON summary object.
use h_wallet::util::{guarded, quiet_panics, read_ndjson};
use serde_json::{Value, json};
use zcash_client_backend::data_api::scanning::{ScanPriority, ScanRange, spanning_tree::SpanningTree};
use zcash_protocol::consensus::BlockHeight;

const PRIOS: [ScanPriority; 7] = [
    ScanPriority::Ignored,
    ScanPriority::Scanned,
    ScanPriority::Historic,
    ScanPriority::OpenAdjacent,
    ScanPriority::FoundNote,
    ScanPriority::ChainTip,
    ScanPriority::Verify,
];

fn prio_code(p: ScanPriority) -> i64 {
    PRIOS.iter().position(|q| *q == p).unwrap() as i64
}

fn range(step: &Value, base: u32) -> (ScanRange, bool) {
    let s = step[0].as_u64().unwrap() as u32 + base;
    let e = step[1].as_u64().unwrap() as u32 + base;
    let p = PRIOS[step[2].as_u64().unwrap() as usize];
    let f = step[3].as_bool().unwrap();
    (ScanRange::from_parts(BlockHeight::from(s)..BlockHeight::from(e), p), f)
}

fn shape(t: &SpanningTree, base: u32) -> Value {
    match t {
        SpanningTree::Leaf(r) => json!({
            "k": "L",
            "s": u32::from(r.block_range().start) - base,
            "e": u32::from(r.block_range().end) - base,
            "p": prio_code(r.priority()),
        }),
        SpanningTree::Parent { span, left, right } => json!({
            "k": "P",
            "s": u32::from(span.start) - base,
            "e": u32::from(span.end) - base,
            "l": shape(left, base),
            "r": shape(right, base),
        }),
    }
}

fn main() {
    quiet_panics();
    let args: Vec<String> = std::env::args().collect();
    let edges = read_ndjson(&args[1]);
    let base: u32 = args[2].parse().unwrap();
    let mut mismatches = vec![];
    let (mut n, mut panics_seen, mut panics_predicted, mut shape_agree, mut shape_differs) = (0u64, 0u64, 0u64, 0u64, 0u64);
    let mut distinct = std::collections::HashSet::new();
    for edge in &edges {
        n += 1;
        let pre = edge["pre"].as_array().unwrap();
        let may_panic = edge["mayPanic"].as_bool().unwrap();
        let predicted_panic = edge["panics"].as_bool().unwrap();
        if predicted_panic {
            panics_predicted += 1;
        }
        let steps: Vec<&Value> = pre.iter().chain(std::iter::once(&edge["step"])).collect();
        let outcome = guarded(|| {
            let mut tree: Option<SpanningTree> = None;
            for st in &steps {
                let (r, f) = range(st, base);
                tree = Some(match tree {
                    None => SpanningTree::Leaf(r),
                    Some(t) => t.insert(r, f),
                });
            }
            let tree = tree.unwrap();
            let sh = shape(&tree, base);
            let vec: Vec<Value> = tree
                .into_vec()
                .iter()
                .map(|r| {
                    json!([
                        u32::from(r.block_range().start) - base,
                        u32::from(r.block_range().end) - base,
                        prio_code(r.priority())
                    ])
                })
                .collect();
            (Value::Array(vec), sh)
        });
        match outcome {
            Err(msg) => {
                panics_seen += 1;
                if !may_panic {
                    mismatches.push(json!({"edge": edge, "got": {"panic": msg}}));
                }
            }
            Ok((vec, sh)) => {
                distinct.insert(vec.to_string());
                if vec != edge["vec"] {
                    mismatches.push(json!({"edge": edge, "got": {"vec": vec}}));
                } else if !predicted_panic {
                    if sh == edge["shape"] { shape_agree += 1 } else { shape_differs += 1 }
                }
            }
        }
    }
    mismatches.truncate(20);
    println!(
        "{}",
        json!({"edges": n, "mismatches": mismatches, "panics_seen": panics_seen,
               "panics_predicted": panics_predicted, "shape_agree": shape_agree,
               "shape_differs": shape_differs, "distinct_results": distinct.len()})
    );
}
