//! C05 spec -> code replay. Abstract compact blocks (ScanBlock.tla: per transaction and pool a list
//! of spends and of outputs labelled by owner; continuity / metadata fields; the prior block's
//! metadata) come with the result the specification predicts. Each is MATERIALISED here with real
//! note encryption (Sapling: sapling-crypto's note encryption; Orchard / Ironwood: the crates'
//! public `TestFvk` helpers), real nullifiers of earlier notes, and the requested corruptions of the
//! protobuf fields, and is run
//!
//!   block  <cases.ndjson> <out.json>     through `zcash_client_backend::scanning::scan_block`
//!                                         (inline trial decryption), comparing every accessor of the
//!                                         `ScannedBlock` / the error class with the prediction;
//!   wallet <scenarios.ndjson> <out.json> through `data_api::chain::scan_cached_blocks` on the real
//!                                         SQLite wallet (batched decryption on the rayon pool,
//!                                         RAYON_NUM_THREADS is set by the caller), comparing the rows
//!                                         of the wallet with the prediction; a rejected range must
//!                                         leave the dump of every table unchanged;
//!   sched  <cases.ndjson> <out.json>     the schedule clause: every case is a small history (setup
//!                                         ranges, then the range under test) whose batch tasks
//!                                         BatchRunner.tla / Emit_BatchRunner.tla partition and whose
//!                                         completion orders TLC enumerated. The range under test is
//!                                         scanned (i) block by block through `scan_block` (inline
//!                                         decryption), (ii) through `scan_cached_blocks` on a fresh
//!                                         wallet with the tasks on the rayon pool (reference), and
//!                                         (iii) once per completion order on a fresh wallet each,
//!                                         with the verification hook `scan::verif::capture` running
//!                                         the queued tasks in exactly that order; every result must
//!                                         equal the prediction (and the reference rows).
//!
//! Expected values never come from the code under test: positions, accounts, scopes, change flags,
//! retentions, sizes and error classes are TLC's evaluation of the definition; nullifiers are
//! computed here from the notes this harness created (sapling-crypto / orchard, the trusted base) at
//! the position the specification predicts; commitments are read back from the bytes of the block.
use std::collections::{BTreeMap, HashMap};
use std::sync::{Arc, Mutex};

use h_wallet::chain::{Blk, Chain, Keys, OrchFrontier, SapFrontier};
use h_wallet::util::{guarded, quiet_panics, read_ndjson, seed_from_env};
use h_wallet::wallet::W;
use incrementalmerkletree::{Marking, Retention};
use orchard::tree::MerkleHashOrchard;
use rand::{Rng, RngCore, SeedableRng};
use rand_chacha::ChaChaRng;
use sapling::note_encryption::{SaplingDomain, sapling_note_encryption};
use serde_json::{Value, json};
use zcash_client_backend::{
    data_api::{
        BlockMetadata, ScannedBlock,
        testing::{AddressType, IronwoodFvk, TestFvk},
    },
    proto::compact_formats::{ChainMetadata, CompactBlock, CompactSaplingOutput, CompactSaplingSpend, CompactTx},
    scanning::{Nullifiers, ScanError, ScanningKey, ScanningKeyOps, ScanningKeys, scan_block},
};
use zcash_keys::keys::UnifiedSpendingKey;
use zcash_note_encryption::Domain;
use zcash_primitives::{block::BlockHash, transaction::components::sapling::zip212_enforcement};
use zcash_protocol::{
    consensus::{BlockHeight, Parameters},
    local_consensus::LocalNetwork,
    memo::MemoBytes,
    value::Zatoshis,
};
use zip32::Scope;

const POOLS: [&str; 3] = ["S", "O", "I"];

fn pool_idx(p: &str) -> usize {
    POOLS.iter().position(|q| *q == p).expect("pool code")
}

/// A note this harness created for a wallet account: its pool and its nullifier (at the position
/// the specification predicted for it).
#[derive(Clone)]
struct RealNote {
    pool: usize,
    nf: [u8; 32],
}

#[derive(Clone, Default)]
struct MatOut {
    /// the commitment bytes as placed in the block
    cm: Vec<u8>,
    /// for an output addressed to a wallet key: the nullifier of the note
    nf: Option<[u8; 32]>,
}

#[derive(Clone, Default)]
struct MatTx {
    txid: [u8; 32],
    index: u64,
    outs: [Vec<MatOut>; 3],
    /// nullifier bytes as placed in the block, per pool
    spends: [Vec<Vec<u8>>; 3],
}

struct MatBlock {
    cb: CompactBlock,
    txs: Vec<MatTx>,
    height: u32,
    hash: [u8; 32],
}

struct Mat {
    accounts: Vec<Keys>,
    foreign: Keys,
    rng: ChaChaRng,
    notes: HashMap<u64, RealNote>,
    /// shared txids: abstract tag -> bytes
    txid_tags: HashMap<u64, [u8; 32]>,
    /// block mode only: encrypted outputs are reused across cases (never inside one block: the
    /// value of an output is unique in its block), keyed by everything the ciphertext depends on
    cache_on: bool,
    sap_cache: HashMap<String, (CompactSaplingOutput, sapling::Note)>,
    act_cache: HashMap<String, (zcash_client_backend::proto::compact_formats::CompactOrchardAction, [u8; 32])>,
}

fn tag_hash(tag: u64) -> [u8; 32] {
    let mut h = [0u8; 32];
    h[..8].copy_from_slice(&tag.to_le_bytes());
    h[8] = 0xc5;
    h[31] = 0x5a;
    h
}

fn flip_bit(mut h: [u8; 32], rng: &mut ChaChaRng) -> [u8; 32] {
    let bit = rng.gen_range(0..256);
    h[bit / 8] ^= 1 << (bit % 8);
    h
}

fn random_orchard_nf(rng: &mut ChaChaRng) -> orchard::note::Nullifier {
    loop {
        let mut b = [0u8; 32];
        rng.fill_bytes(&mut b);
        b[31] &= 0x3f;
        let nf = orchard::note::Nullifier::from_bytes(&b);
        if nf.is_some().into() {
            return nf.unwrap();
        }
    }
}

fn malformed_nf(rng: &mut ChaChaRng, orchard_like: bool, good: &[u8]) -> Vec<u8> {
    match rng.gen_range(0..if orchard_like { 4 } else { 3 }) {
        0 => good[..31].to_vec(),
        1 => {
            let mut v = good.to_vec();
            v.push(7);
            v
        }
        2 => vec![],
        _ => vec![0xff; 32], // not a canonical Pallas base element
    }
}

/// Corrupts one field of a well-formed compact output: (cmu/cmx, epk, ciphertext).
fn malform_output(rng: &mut ChaChaRng, cm: &mut Vec<u8>, epk: &mut Vec<u8>, ct: &mut Vec<u8>) {
    let kinds: &[u32] = match std::env::var("C05_MALFORM").ok().as_deref() {
        Some("nolen") => &[1, 2, 3, 4],
        _ => &[0, 1, 2, 3, 4, 5],
    };
    match kinds[rng.gen_range(0..kinds.len())] {
        0 => {
            cm.truncate(31);
        }
        1 => *cm = vec![0xff; 32], // not a canonical field element
        2 => {
            epk.truncate(31);
        }
        3 => {
            ct.truncate(51);
        }
        4 => ct.push(0),
        _ => cm.push(0),
    }
}

fn sapling_output<P: Parameters>(
    params: &P,
    height: BlockHeight,
    dfvk: &sapling::zip32::DiversifiableFullViewingKey,
    at: AddressType,
    value: u64,
    rng: &mut ChaChaRng,
) -> (CompactSaplingOutput, sapling::Note) {
    let recipient = match at {
        AddressType::DefaultExternal => dfvk.default_address().1,
        AddressType::DiversifiedExternal(j) => dfvk.find_address(j).expect("diversified address").1,
        AddressType::Internal => dfvk.change_address().1,
    };
    let rseed = sapling::util::generate_random_rseed(zip212_enforcement(params, height), rng);
    let note = sapling::Note::from_parts(recipient, sapling::value::NoteValue::from_raw(value), rseed);
    let enc = sapling_note_encryption(None, note.clone(), MemoBytes::empty().into_bytes(), rng);
    let cmu = note.cmu().to_bytes().to_vec();
    let epk = SaplingDomain::epk_bytes(enc.epk()).0.to_vec();
    let ct = enc.encrypt_note_plaintext();
    (CompactSaplingOutput { cmu, ephemeral_key: epk, ciphertext: ct[..52].to_vec() }, note)
}

impl Mat {
    fn new(accounts: Vec<Keys>, seed: u64) -> Self {
        let mut rng = ChaChaRng::seed_from_u64(seed);
        let foreign = Keys::random(&mut rng);
        Mat { accounts, foreign, rng, notes: HashMap::new(), txid_tags: HashMap::new(), cache_on: false, sap_cache: HashMap::new(), act_cache: HashMap::new() }
    }

    fn owner(&self, o: &str) -> (Keys, Option<(u32, Scope)>) {
        match o {
            "a1e" => (self.accounts[0].clone(), Some((1, Scope::External))),
            "a1i" => (self.accounts[0].clone(), Some((1, Scope::Internal))),
            "a2e" => (self.accounts[1].clone(), Some((2, Scope::External))),
            "a2i" => (self.accounts[1].clone(), Some((2, Scope::Internal))),
            _ => (self.foreign.clone(), None),
        }
    }

    fn address_type(&mut self, scope: Option<Scope>) -> AddressType {
        match scope {
            Some(Scope::Internal) => AddressType::Internal,
            _ => {
                if self.rng.gen_range(0..3) == 0 {
                    AddressType::DiversifiedExternal(zip32::DiversifierIndex::from(self.rng.gen_range(1u32..40)))
                } else {
                    AddressType::DefaultExternal
                }
            }
        }
    }

    /// The nullifier bytes an abstract spend reveals.
    fn spend_bytes(&mut self, sp: &Value, pool: usize) -> (Vec<u8>, bool) {
        let k = sp["k"].as_str().unwrap();
        let good: Vec<u8> = match (k, self.notes.get(&sp["n"].as_u64().unwrap_or(0))) {
            ("t", Some(rn)) if (rn.pool == 0) == (pool == 0) => rn.nf.to_vec(),
            _ => {
                if pool == 0 {
                    let mut b = [0u8; 32];
                    self.rng.fill_bytes(&mut b);
                    b.to_vec()
                } else {
                    random_orchard_nf(&mut self.rng).to_bytes().to_vec()
                }
            }
        };
        (good, k == "m")
    }

    /// Builds the compact block for an abstract block. `positions` gives, for the outputs the
    /// specification reports as received, the predicted tree position (Sapling nullifiers depend
    /// on it).
    #[allow(clippy::too_many_arguments)]
    fn block<P: Parameters>(
        &mut self,
        params: &P,
        ab: &Value,
        height: u32,
        cb_height: u64,
        hash: [u8; 32],
        prev_hash: [u8; 32],
        positions: &HashMap<(usize, usize, usize), u64>,
    ) -> MatBlock {
        let bh = BlockHeight::from(height);
        let mut cb = CompactBlock { height: cb_height, hash: hash.to_vec(), prev_hash: prev_hash.to_vec(), time: 1_700_000_000 + height, ..Default::default() };
        let mut txs = vec![];
        for (ti, atx) in ab["txs"].as_array().unwrap().iter().enumerate() {
            let t = ti + 1;
            let mut ctx = CompactTx::default();
            let mut mt = MatTx::default();
            let xtag = atx.get("x").and_then(|v| v.as_u64()).unwrap_or(0);
            mt.txid = if xtag > 0 {
                if let Some(b) = self.txid_tags.get(&xtag) {
                    *b
                } else {
                    let mut b = [0u8; 32];
                    self.rng.fill_bytes(&mut b);
                    self.txid_tags.insert(xtag, b);
                    b
                }
            } else {
                let mut b = [0u8; 32];
                self.rng.fill_bytes(&mut b);
                b
            };
            mt.index = ti as u64;
            ctx.txid = mt.txid.to_vec();
            ctx.index = mt.index;

            // Sapling: independent lists of spends and outputs
            for sp in atx["S"]["sp"].as_array().unwrap() {
                let (good, bad) = self.spend_bytes(sp, 0);
                let bytes = if bad { malformed_nf(&mut self.rng, false, &good) } else { good };
                ctx.spends.push(CompactSaplingSpend { nf: bytes.clone() });
                mt.spends[0].push(bytes);
            }
            for (i, out) in atx["S"]["out"].as_array().unwrap().iter().enumerate() {
                let o = out["o"].as_str().unwrap();
                let (keys, who) = self.owner(o);
                let ck = format!("{o}|{}|{:?}", out["v"], zip212_enforcement(params, bh));
                let (mut cout, note) = match self.sap_cache.get(&ck) {
                    Some(c) if self.cache_on => c.clone(),
                    _ => {
                        let at = self.address_type(who.map(|w| w.1));
                        let c = sapling_output(params, bh, &keys.sapling, at, out["v"].as_u64().unwrap(), &mut self.rng);
                        if self.cache_on {
                            self.sap_cache.insert(ck, c.clone());
                        }
                        c
                    }
                };
                let mut mo = MatOut::default();
                if o == "m" {
                    malform_output(&mut self.rng, &mut cout.cmu, &mut cout.ephemeral_key, &mut cout.ciphertext);
                }
                if let Some((_, scope)) = who {
                    let pos = positions.get(&(t, 0, i)).copied().unwrap_or(0);
                    let nf = note.nf(&keys.sapling.to_nk(scope), pos).0;
                    mo.nf = Some(nf);
                    let id = out["n"].as_u64().unwrap_or(0);
                    if id > 0 {
                        self.notes.insert(id, RealNote { pool: 0, nf });
                    }
                }
                mo.cm = cout.cmu.clone();
                ctx.outputs.push(cout);
                mt.outs[0].push(mo);
            }
            // Orchard / Ironwood: actions (spend i and output i share an action)
            for pool in [1usize, 2] {
                let p = POOLS[pool];
                let sps = atx[p]["sp"].as_array().unwrap();
                let outs = atx[p]["out"].as_array().unwrap();
                assert_eq!(sps.len(), outs.len(), "harness: abstract {p} transaction is not action-shaped");
                for (i, (sp, out)) in sps.iter().zip(outs.iter()).enumerate() {
                    let o = out["o"].as_str().unwrap();
                    let (keys, who) = self.owner(o);
                    let bad = sp["k"].as_str() == Some("m");
                    let ck = format!("{p}|{}|{}|{o}|{}", sp["k"], sp["n"], out["v"]);
                    let cached = if self.cache_on { self.act_cache.get(&ck).cloned() } else { None };
                    let (good, nf_new) = match cached {
                        Some((a, nf_new)) => {
                            let good = a.nullifier.clone();
                            if pool == 1 { ctx.actions.push(a) } else { ctx.ironwood_actions.push(a) }
                            (good, nf_new)
                        }
                        None => {
                            let (good, _) = self.spend_bytes(sp, pool);
                            let nf_old = orchard::note::Nullifier::from_bytes(&good.clone().try_into().unwrap()).unwrap();
                            let at = self.address_type(who.map(|w| w.1));
                            let value = Zatoshis::from_u64(out["v"].as_u64().unwrap()).unwrap();
                            let nf_new = if pool == 1 {
                                keys.orchard.add_logical_action(&mut ctx, params, bh, nf_old, None, at, value, 0, &mut self.rng)
                            } else {
                                IronwoodFvk(keys.orchard.clone()).add_logical_action(&mut ctx, params, bh, nf_old, None, at, value, 0, &mut self.rng)
                            }
                            .to_bytes();
                            if self.cache_on {
                                let a = if pool == 1 { ctx.actions.last().unwrap().clone() } else { ctx.ironwood_actions.last().unwrap().clone() };
                                self.act_cache.insert(ck, (a, nf_new));
                            }
                            (good, nf_new)
                        }
                    };
                    let act = if pool == 1 { ctx.actions.last_mut().unwrap() } else { ctx.ironwood_actions.last_mut().unwrap() };
                    if bad {
                        act.nullifier = malformed_nf(&mut self.rng, true, &good);
                    }
                    if o == "m" {
                        malform_output(&mut self.rng, &mut act.cmx, &mut act.ephemeral_key, &mut act.ciphertext);
                    }
                    let mut mo = MatOut { cm: act.cmx.clone(), nf: None };
                    mt.spends[pool].push(act.nullifier.clone());
                    if who.is_some() {
                        let nf = nf_new;
                        mo.nf = Some(nf);
                        let id = out["n"].as_u64().unwrap_or(0);
                        if id > 0 {
                            self.notes.insert(id, RealNote { pool, nf });
                        }
                    }
                    let _ = i;
                    mt.outs[pool].push(mo);
                }
            }
            cb.vtx.push(ctx);
            txs.push(mt);
        }
        if ab["meta"]["k"].as_str() == Some("given") {
            let sz = &ab["meta"]["sz"];
            cb.chain_metadata = Some(ChainMetadata {
                sapling_commitment_tree_size: sz["S"].as_u64().unwrap() as u32,
                orchard_commitment_tree_size: sz["O"].as_u64().unwrap() as u32,
                ironwood_commitment_tree_size: sz["I"].as_u64().unwrap() as u32,
            });
        }
        // header-level fields that cannot be parsed
        match ab.get("bad").and_then(|v| v.as_str()).unwrap_or("none") {
            "txid_len" => {
                if let Some(tx) = cb.vtx.first_mut() {
                    if self.rng.gen_range(0..2) == 0 { tx.txid.truncate(31) } else { tx.txid.push(9) }
                }
            }
            "hash_len" => {
                if self.rng.gen_range(0..2) == 0 { cb.hash.truncate(31) } else { cb.hash.push(9) }
            }
            "prev_len" => {
                if self.rng.gen_range(0..2) == 0 { cb.prev_hash.truncate(31) } else { cb.prev_hash.push(9) }
            }
            "height_big" => cb.height += 1u64 << 32,
            "txindex_big" => {
                if let Some(tx) = cb.vtx.last_mut() {
                    tx.index += 1u64 << 16;
                }
            }
            _ => {}
        }
        MatBlock { cb, txs, height, hash }
    }
}

/// Panics on blocks with a header-level malformation are collected apart from the mismatches: the
/// check decides (known_findings.json) whether they are excused.
#[derive(Default)]
struct HeaderPanics(BTreeMap<String, (u64, Vec<String>, Value)>);
impl HeaderPanics {
    fn add(&mut self, kind: &str, msg: &str, input: &Value) {
        let e = self.0.entry(kind.to_string()).or_insert_with(|| (0, vec![], input.clone()));
        e.0 += 1;
        let m: String = msg.chars().take(160).collect();
        if !e.1.contains(&m) && e.1.len() < 6 {
            e.1.push(m);
        }
    }
    fn merge(&mut self, other: HeaderPanics) {
        for (k, (n, msgs, ex)) in other.0 {
            let e = self.0.entry(k).or_insert_with(|| (0, vec![], ex));
            e.0 += n;
            for m in msgs {
                if !e.1.contains(&m) && e.1.len() < 6 {
                    e.1.push(m);
                }
            }
        }
    }
    fn json(&self) -> Value {
        Value::Object(self.0.iter().map(|(k, (n, msgs, ex))| (k.clone(), json!({"count": n, "messages": msgs, "example": ex}))).collect())
    }
}

fn bad_kind(ab: &Value) -> Option<&str> {
    ab.get("bad").and_then(|v| v.as_str()).filter(|s| *s != "none")
}

/// Predicted positions of the received outputs of a block result.
fn positions_of(exp: &Value) -> HashMap<(usize, usize, usize), u64> {
    let mut m = HashMap::new();
    if exp["ok"].as_bool() == Some(true) {
        for r in exp["recv"].as_array().unwrap() {
            m.insert(
                (r["t"].as_u64().unwrap() as usize, pool_idx(r["p"].as_str().unwrap()), r["i"].as_u64().unwrap() as usize),
                r["pos"].as_u64().unwrap(),
            );
        }
    }
    m
}

fn err_class(e: &ScanError) -> &'static str {
    match e {
        ScanError::EncodingInvalid { .. } => "EncodingInvalid",
        ScanError::PrevHashMismatch { .. } => "PrevHashMismatch",
        ScanError::BlockHeightDiscontinuity { .. } => "BlockHeightDiscontinuity",
        ScanError::TreeSizeMismatch { .. } => "TreeSizeMismatch",
        ScanError::TreeSizeUnknown { .. } => "TreeSizeUnknown",
        ScanError::TreeSizeInvalid { .. } => "TreeSizeInvalid",
        ScanError::TreeSizeOverflow { .. } => "TreeSizeOverflow",
        _ => "Other",
    }
}

fn ret_code<C>(r: &Retention<C>) -> &'static str {
    match r {
        Retention::Ephemeral => "E",
        Retention::Marked => "M",
        Retention::Checkpoint { marking: Marking::Marked, .. } => "CM",
        Retention::Checkpoint { marking: Marking::None, .. } => "C",
        _ => "?",
    }
}

fn scope_code(s: Option<Scope>) -> &'static str {
    match s {
        Some(Scope::External) => "ext",
        Some(Scope::Internal) => "int",
        None => "none",
    }
}

/// Projection of a `ScannedBlock` onto the shape of the specification's result, through its public
/// accessors only. `notes` collects discrepancies that have no place in that shape.
fn project(sb: &ScannedBlock<u32>, mb: &MatBlock, notes: &mut Vec<String>) -> Value {
    let tx_of = |txid: [u8; 32], index: u64| -> i64 {
        mb.txs.iter().position(|t| t.txid == txid && t.index == index).map(|i| i as i64 + 1).unwrap_or(-1)
    };
    if u32::from(sb.height()) != mb.height {
        notes.push(format!("height() = {} for block {}", u32::from(sb.height()), mb.height));
    }
    if sb.block_hash().0 != mb.hash {
        notes.push("block_hash() differs from the block's hash".into());
    }
    if sb.block_time() != mb.cb.time {
        notes.push("block_time() differs from the block's time".into());
    }
    let md = sb.to_block_metadata();
    if md.block_height() != sb.height()
        || md.block_hash() != sb.block_hash()
        || md.sapling_tree_size() != Some(sb.sapling().final_tree_size())
        || md.orchard_tree_size() != Some(sb.orchard().final_tree_size())
        || md.ironwood_tree_size() != Some(sb.ironwood().final_tree_size())
    {
        notes.push("to_block_metadata() disagrees with the block's height/hash/final sizes".into());
    }
    let mut recv = vec![];
    let mut spent = vec![];
    let mut wtx = vec![];
    for tx in sb.transactions() {
        let txid: [u8; 32] = *tx.txid().as_ref();
        let t = tx_of(txid, u64::from(u16::from(tx.block_index())));
        wtx.push(t);
        if t < 0 {
            notes.push("a reported transaction is not in the block (txid / index)".into());
            continue;
        }
        let mt = &mb.txs[(t - 1) as usize];
        for s in tx.sapling_spends() {
            spent.push(json!({"t": t, "p": "S", "i": s.index(), "a": *s.account_id(), "nf": hex::encode(s.nf().0)}));
        }
        for s in tx.orchard_spends() {
            spent.push(json!({"t": t, "p": "O", "i": s.index(), "a": *s.account_id(), "nf": hex::encode(s.nf().to_bytes())}));
        }
        for s in tx.ironwood_spends() {
            spent.push(json!({"t": t, "p": "I", "i": s.index(), "a": *s.account_id(), "nf": hex::encode(s.nf().to_bytes())}));
        }
        for o in tx.sapling_outputs() {
            let nf_ok = match (o.nf(), mt.outs[0].get(o.index()).and_then(|m| m.nf)) {
                (Some(a), Some(b)) => a.0 == b,
                _ => false,
            };
            recv.push(json!({"t": t, "p": "S", "i": o.index(), "a": *o.account_id(), "sc": scope_code(o.recipient_key_scope()),
                "v": o.note().value().inner(), "pos": u64::from(o.note_commitment_tree_position()), "chg": o.is_change(), "nf_ok": nf_ok}));
        }
        for o in tx.orchard_outputs() {
            let nf_ok = match (o.nf(), mt.outs[1].get(o.index()).and_then(|m| m.nf)) {
                (Some(a), Some(b)) => a.to_bytes() == b,
                _ => false,
            };
            if o.note().1 != orchard::ValuePool::Orchard {
                notes.push("an Orchard output is tagged with another value pool".into());
            }
            recv.push(json!({"t": t, "p": "O", "i": o.index(), "a": *o.account_id(), "sc": scope_code(o.recipient_key_scope()),
                "v": o.note().0.value().inner(), "pos": u64::from(o.note_commitment_tree_position()), "chg": o.is_change(), "nf_ok": nf_ok}));
        }
        for o in tx.ironwood_outputs() {
            let nf_ok = match (o.nf(), mt.outs[2].get(o.index()).and_then(|m| m.nf)) {
                (Some(a), Some(b)) => a.to_bytes() == b,
                _ => false,
            };
            if o.note().1 != orchard::ValuePool::Ironwood {
                notes.push("an Ironwood output is tagged with another value pool".into());
            }
            recv.push(json!({"t": t, "p": "I", "i": o.index(), "a": *o.account_id(), "sc": scope_code(o.recipient_key_scope()),
                "v": o.note().0.value().inner(), "pos": u64::from(o.note_commitment_tree_position()), "chg": o.is_change(), "nf_ok": nf_ok}));
        }
    }
    // commitments: the k-th returned commitment of a pool must be the k-th commitment of the block
    let mut cms = serde_json::Map::new();
    let in_order = |pool: usize| -> Vec<(usize, usize, Vec<u8>)> {
        let mut v = vec![];
        for (ti, t) in mb.txs.iter().enumerate() {
            for (i, o) in t.outs[pool].iter().enumerate() {
                v.push((ti + 1, i, o.cm.clone()));
            }
        }
        v
    };
    let mut cm_pool = |pool: usize, got: Vec<([u8; 32], &'static str, Option<u32>)>, notes: &mut Vec<String>| {
        let want = in_order(pool);
        let mut arr = vec![];
        for (k, (bytes, ret, ck)) in got.iter().enumerate() {
            match want.get(k) {
                Some((t, i, cm)) if cm.as_slice() == bytes.as_slice() => arr.push(json!({"t": t, "i": i, "ret": ret})),
                _ => arr.push(json!({"t": -1, "i": -1, "ret": ret})),
            }
            if let Some(h) = ck {
                if *h != mb.height {
                    notes.push(format!("checkpoint id {} on a commitment of block {}", h, mb.height));
                }
            }
        }
        cms.insert(POOLS[pool].to_string(), Value::Array(arr));
    };
    fn ck<C: Copy + Into<u32>>(r: &Retention<C>) -> Option<u32> {
        match r {
            Retention::Checkpoint { id, .. } => Some((*id).into()),
            _ => None,
        }
    }
    cm_pool(0, sb.sapling().commitments().iter().map(|(n, r)| (n.to_bytes(), ret_code(r), ck(r))).collect(), notes);
    cm_pool(1, sb.orchard().commitments().iter().map(|(n, r)| (n.to_bytes(), ret_code(r), ck(r))).collect(), notes);
    cm_pool(2, sb.ironwood().commitments().iter().map(|(n, r)| (n.to_bytes(), ret_code(r), ck(r))).collect(), notes);

    // unlinked nullifiers: per pool one entry per transaction, holding spend indices
    let mut unl = serde_json::Map::new();
    let mut unl_pool = |pool: usize, got: Vec<(u64, [u8; 32], Vec<[u8; 32]>)>, notes: &mut Vec<String>| {
        let mut arr = vec![];
        for (k, (index, txid, nfs)) in got.iter().enumerate() {
            let Some(mt) = mb.txs.get(k) else {
                notes.push("nullifier_map has more entries than the block has transactions".into());
                break;
            };
            if mt.txid != *txid || mt.index != *index {
                notes.push(format!("nullifier_map entry {} of pool {} names another transaction", k, POOLS[pool]));
            }
            // map each nullifier back to the spend index that carries it (in order)
            let mut idxs = vec![];
            let mut from = 0usize;
            for nf in nfs {
                match (from..mt.spends[pool].len()).find(|j| mt.spends[pool][*j].as_slice() == nf.as_slice()) {
                    Some(j) => {
                        idxs.push(j as i64);
                        from = j + 1;
                    }
                    None => idxs.push(-1),
                }
            }
            arr.push(json!(idxs));
        }
        unl.insert(POOLS[pool].to_string(), Value::Array(arr));
    };
    unl_pool(0, sb.sapling().nullifier_map().iter().map(|(i, t, v)| (u64::from(u16::from(*i)), *t.as_ref(), v.iter().map(|n| n.0).collect())).collect(), notes);
    unl_pool(1, sb.orchard().nullifier_map().iter().map(|(i, t, v)| (u64::from(u16::from(*i)), *t.as_ref(), v.iter().map(|n| n.to_bytes()).collect())).collect(), notes);
    unl_pool(2, sb.ironwood().nullifier_map().iter().map(|(i, t, v)| (u64::from(u16::from(*i)), *t.as_ref(), v.iter().map(|n| n.to_bytes()).collect())).collect(), notes);

    json!({
        "ok": true,
        "final": {"S": sb.sapling().final_tree_size(), "O": sb.orchard().final_tree_size(), "I": sb.ironwood().final_tree_size()},
        "recv": recv, "spent": spent, "wtx": wtx, "cms": Value::Object(cms), "unl": Value::Object(unl),
    })
}

/// Differences between the projection of the real result and the prediction.
fn diff_block(exp: &Value, got: &Value, mb: &MatBlock, why: &mut Vec<String>) {
    for p in POOLS {
        if exp["final"][p] != got["final"][p] {
            why.push(format!("final {p} tree size: expected {} got {}", exp["final"][p], got["final"][p]));
        }
    }
    let er = exp["recv"].as_array().unwrap();
    let gr = got["recv"].as_array().unwrap();
    if er.len() != gr.len() {
        why.push(format!("received outputs: expected {} got {}", er.len(), gr.len()));
    }
    for (e, g) in er.iter().zip(gr.iter()) {
        for f in ["t", "p", "i", "a", "sc", "v", "pos", "chg"] {
            if e[f] != g[f] {
                why.push(format!("received output (tx {}, {} #{}): {f} expected {} got {}", e["t"], e["p"], e["i"], e[f], g[f]));
            }
        }
        if g["nf_ok"] != json!(true) {
            why.push(format!("received output (tx {}, {} #{}): nullifier is not that of the note at the predicted position", e["t"], e["p"], e["i"]));
        }
    }
    let es = exp["spent"].as_array().unwrap();
    let gs = got["spent"].as_array().unwrap();
    if es.len() != gs.len() {
        why.push(format!("wallet spends: expected {} got {}", es.len(), gs.len()));
    }
    for (e, g) in es.iter().zip(gs.iter()) {
        for f in ["t", "p", "i", "a"] {
            if e[f] != g[f] {
                why.push(format!("wallet spend (tx {}, {} #{}): {f} expected {} got {}", e["t"], e["p"], e["i"], e[f], g[f]));
            }
        }
        // the reported nullifier is the one the block carries at that index
        let (t, p, i) = (e["t"].as_u64().unwrap() as usize, pool_idx(e["p"].as_str().unwrap()), e["i"].as_u64().unwrap() as usize);
        if Some(hex::encode(&mb.txs[t - 1].spends[p][i])) != g["nf"].as_str().map(|s| s.to_string()) {
            why.push(format!("wallet spend (tx {t}, {} #{i}): reported nullifier differs from the block's", POOLS[p]));
        }
    }
    if exp["wtx"] != got["wtx"] {
        why.push(format!("reported transactions: expected {} got {}", exp["wtx"], got["wtx"]));
    }
    for p in POOLS {
        if exp["cms"][p] != got["cms"][p] {
            why.push(format!("{p} commitments / retentions: expected {} got {}", exp["cms"][p], got["cms"][p]));
        }
        if exp["unl"][p] != got["unl"][p] {
            why.push(format!("{p} unlinked nullifiers per transaction: expected {} got {}", exp["unl"][p], got["unl"][p]));
        }
    }
}

/// Compares an error outcome. Returns (mismatch?, order_differs?).
fn diff_error(exp: &Value, class: &str, why: &mut Vec<String>) -> bool {
    let all: Vec<&str> = exp["all"].as_array().unwrap().iter().map(|v| v.as_str().unwrap()).collect();
    // a header-level malformation: any error class is acceptable
    if all.contains(&"MalformedHeader") {
        return false;
    }
    if !all.contains(&class) {
        why.push(format!("rejected with {class}, but the block's defects are {:?}", all));
        return false;
    }
    class != exp["err"].as_str().unwrap()
}

// ------------------------------------------------------------------------------------------------
// mode "block": scanning::scan_block

fn era_network() -> LocalNetwork {
    LocalNetwork {
        overwinter: Some(BlockHeight::from_u32(1)),
        sapling: Some(BlockHeight::from_u32(100_000)),
        blossom: Some(BlockHeight::from_u32(100_000)),
        heartwood: Some(BlockHeight::from_u32(100_000)),
        canopy: Some(BlockHeight::from_u32(100_000)),
        nu5: Some(BlockHeight::from_u32(200_000)),
        nu6: Some(BlockHeight::from_u32(300_000)),
        nu6_1: Some(BlockHeight::from_u32(300_000)),
        nu6_2: Some(BlockHeight::from_u32(300_000)),
        nu6_3: Some(BlockHeight::from_u32(300_000)),
    }
}

type SKeys = ScanningKeys<u32, (u32, Scope)>;

fn scanning_keys(accounts: &[(Keys, zcash_keys::keys::UnifiedFullViewingKey)], labels: &[String]) -> SKeys {
    let mut l: Vec<&str> = labels.iter().map(|s| s.as_str()).collect();
    l.sort();
    // whole accounts: the production constructor
    if l == ["a1e", "a1i", "a2e", "a2i"] {
        return ScanningKeys::from_account_ufvks([(1u32, accounts[0].1.clone()), (2u32, accounts[1].1.clone())]);
    }
    if l == ["a1e", "a1i"] {
        return ScanningKeys::from_account_ufvks([(1u32, accounts[0].1.clone())]);
    }
    // arbitrary subsets of (account, scope): assembled key by key
    let mut s: HashMap<(u32, Scope), Box<dyn ScanningKeyOps<SaplingDomain, u32, sapling::Nullifier> + Send + Sync>> = HashMap::new();
    let mut o: HashMap<(u32, Scope), Box<dyn ScanningKeyOps<orchard::note_encryption::OrchardDomain, u32, orchard::note::Nullifier> + Send + Sync>> = HashMap::new();
    let mut iw: HashMap<(u32, Scope), Box<dyn ScanningKeyOps<orchard::note_encryption::IronwoodDomain, u32, orchard::note::Nullifier> + Send + Sync>> = HashMap::new();
    for lab in l {
        let (a, scope) = match lab {
            "a1e" => (1u32, Scope::External),
            "a1i" => (1, Scope::Internal),
            "a2e" => (2, Scope::External),
            "a2i" => (2, Scope::Internal),
            _ => panic!("harness: key label {lab}"),
        };
        let k = &accounts[(a - 1) as usize].0;
        s.insert((a, scope), Box::new(ScanningKey::new(k.sapling.to_ivk(scope), Some(k.sapling.to_nk(scope)), a, Some(scope))));
        o.insert((a, scope), Box::new(ScanningKey::new(k.orchard.to_ivk(scope), Some(k.orchard.clone()), a, Some(scope))));
        iw.insert((a, scope), Box::new(ScanningKey::new(k.orchard.to_ivk(scope), Some(k.orchard.clone()), a, Some(scope))));
    }
    ScanningKeys::new(s, o, iw)
}

/// Runs the cases with index = `part` (mod `parts`); returns (cases run, mismatches, stats).
fn block_worker(cases: &[Value], part: usize, parts: usize, seed: u64) -> (u64, Vec<Value>, BTreeMap<String, u64>, HeaderPanics) {
    let mut hp = HeaderPanics::default();
    let net = era_network();
    let mut accounts = vec![];
    for a in 0..2u32 {
        let mut s = [0u8; 32];
        s[0] = 0xc0;
        s[1] = 5;
        s[2] = a as u8;
        s[3] = seed as u8;
        let usk = UnifiedSpendingKey::from_seed(&net, &s, zip32::AccountId::try_from(a).unwrap()).expect("usk");
        let ufvk = usk.to_unified_full_viewing_key();
        accounts.push((Keys::from_ufvk(&ufvk), ufvk));
    }
    let mut mat = Mat::new(accounts.iter().map(|a| a.0.clone()).collect(), seed.wrapping_mul(1000).wrapping_add(part as u64));
    let all_keys: Vec<String> = ["a1e", "a1i", "a2e", "a2i"].iter().map(|s| s.to_string()).collect();
    let k12 = scanning_keys(&accounts, &all_keys);

    let mut mismatches: Vec<Value> = vec![];
    let mut stats: BTreeMap<String, u64> = BTreeMap::new();
    let bump = |k: &str, stats: &mut BTreeMap<String, u64>| *stats.entry(k.to_string()).or_insert(0) += 1;

    // The tracked nullifiers: the public route is to scan a block that creates the notes and feed
    // the result to `Nullifiers::update_with`. One note per pool and account, ids 10*pool + account.
    let setup = json!({"txs": [{
        "S": {"sp": [], "out": [{"o": "a1e", "v": 50_011, "n": 11}, {"o": "a2e", "v": 50_012, "n": 12}]},
        "O": {"sp": [{"k": "u", "n": 0}, {"k": "u", "n": 0}], "out": [{"o": "a1e", "v": 50_021, "n": 21}, {"o": "a2e", "v": 50_022, "n": 22}]},
        "I": {"sp": [{"k": "u", "n": 0}, {"k": "u", "n": 0}], "out": [{"o": "a1e", "v": 50_031, "n": 31}, {"o": "a2e", "v": 50_032, "n": 32}]},
    }], "meta": {"k": "given", "sz": {"S": 2, "O": 2, "I": 2}}});
    let mut pos0 = HashMap::new();
    for p in 0..3 {
        pos0.insert((1usize, p, 0usize), 0u64);
        pos0.insert((1usize, p, 1usize), 1u64);
    }
    let sb0 = mat.block(&net, &setup, 350_001, 350_001, tag_hash(9001), tag_hash(9000), &pos0);
    mat.cache_on = true;
    let mut nullifiers: Nullifiers<u32> = Nullifiers::empty();
    let setup_res = guarded(|| scan_block(&net, sb0.cb.clone(), &k12, &nullifiers, None));
    let mut setup_ok = false;
    if let Ok(Ok(sb)) = &setup_res {
        nullifiers.update_with(sb);
        let want = |pool: usize| -> Vec<(u32, [u8; 32])> { (0..2).map(|i| (i as u32 + 1, sb0.txs[0].outs[pool][i].nf.unwrap())).collect() };
        let mut gs: Vec<(u32, [u8; 32])> = nullifiers.sapling().iter().map(|(a, n)| (*a, n.0)).collect();
        let mut go: Vec<(u32, [u8; 32])> = nullifiers.orchard().iter().map(|(a, n)| (*a, n.to_bytes())).collect();
        let mut gi: Vec<(u32, [u8; 32])> = nullifiers.ironwood().iter().map(|(a, n)| (*a, n.to_bytes())).collect();
        gs.sort();
        go.sort();
        gi.sort();
        setup_ok = gs == want(0) && go == want(1) && gi == want(2);
    }
    if !setup_ok {
        mismatches.push(json!({"case": -1, "kind": "setup", "input": setup, "got": {}, "why": [format!(
            "scanning a block with one plain output per pool and account and feeding it to Nullifiers::update_with did not yield exactly those six (account, nullifier) pairs: {}",
            match &setup_res { Ok(Ok(_)) => "wrong set".to_string(), Ok(Err(e)) => format!("{e:?}"), Err(p) => format!("panic: {p}") })]}));
        return (0, mismatches, stats, hp);
    }

    let era_base = [50_000u32, 150_000, 250_000, 350_000];
    let mut n = 0u64;
    for (ci, case) in cases.iter().enumerate() {
        if ci % parts != part {
            continue;
        }
        n += 1;
        let exp = &case["exp"];
        let ab = &case["block"];
        // the random choices for a case (which field is malformed how, which bit of the hash flips, ...)
        // depend on the seed and the case only, so that a replay of the case alone repeats them
        let mut hsh: u64 = 0xcbf29ce484222325;
        for b in format!("{}{}", case["prior"], ab).bytes() {
            hsh = (hsh ^ b as u64).wrapping_mul(0x100000001b3);
        }
        mat.rng = ChaChaRng::seed_from_u64(seed.wrapping_mul(0x9e3779b97f4a7c15) ^ hsh);
        let act = POOLS.iter().filter(|p| ab["act"][**p].as_bool().unwrap()).count();
        let base = era_base[act];
        let height = base + ab["h"].as_u64().unwrap() as u32;
        let labels: Vec<String> = case["keys"].as_array().unwrap().iter().map(|v| v.as_str().unwrap().to_string()).collect();
        let custom;
        let keys: &SKeys = if labels.len() == 4 {
            &k12
        } else {
            custom = scanning_keys(&accounts, &labels);
            &custom
        };
        let prior = if case["prior"]["k"].as_str() == Some("some") {
            let pr = &case["prior"];
            let sz = |p: &str| pr["sz"][p].as_i64().and_then(|v| if v < 0 { None } else { Some(v as u32) });
            Some(BlockMetadata::from_parts(
                BlockHeight::from(base + pr["h"].as_u64().unwrap() as u32),
                BlockHash(tag_hash(pr["hash"].as_u64().unwrap())),
                sz("S"),
                sz("O"),
                sz("I"),
            ))
        } else {
            None
        };
        let positions = positions_of(exp);
        // a previous-hash that does not connect differs from the prior block's hash in a single bit
        let prev_bytes = match (&case["prior"]["hash"], &ab["prev"]) {
            (a, b) if a == b || a.is_null() => tag_hash(b.as_u64().unwrap()),
            (a, _) => flip_bit(tag_hash(a.as_u64().unwrap()), &mut mat.rng),
        };
        let mb = mat.block(&net, ab, height, height as u64, tag_hash(ab["hash"].as_u64().unwrap()), prev_bytes, &positions);
        let res = guarded(|| scan_block(&net, mb.cb.clone(), keys, &nullifiers, prior.as_ref()));
        let mut why = vec![];
        let got;
        match &res {
            Err(p) => {
                got = json!({"panic": p.chars().take(200).collect::<String>()});
                bump("panic", &mut stats);
                match bad_kind(ab) {
                    Some(kind) if exp["ok"].as_bool() != Some(true) => hp.add(kind, p, case),
                    _ => why.push(format!("scan_block panicked: {}", p.chars().take(200).collect::<String>())),
                }
            }
            Ok(Err(e)) => {
                let class = err_class(e);
                got = json!({"ok": false, "err": class});
                bump(&format!("err_{class}"), &mut stats);
                if exp["ok"].as_bool() == Some(true) {
                    why.push(format!("a well-formed, connected block was rejected with {e:?}"));
                } else if diff_error(exp, class, &mut why) {
                    bump("order_differs", &mut stats);
                }
            }
            Ok(Ok(sb)) => {
                let mut notes = vec![];
                got = project(sb, &mb, &mut notes);
                bump("accepted", &mut stats);
                if exp["ok"].as_bool() != Some(true) {
                    why.push(format!("a block with defects {} was accepted", exp["all"]));
                } else {
                    diff_block(exp, &got, &mb, &mut why);
                    why.extend(notes);
                    if !exp["recv"].as_array().unwrap().is_empty() {
                        bump("with_receipts", &mut stats);
                    }
                    if !exp["spent"].as_array().unwrap().is_empty() {
                        bump("with_spends", &mut stats);
                    }
                }
            }
        }
        if !why.is_empty() && mismatches.len() < 8 {
            mismatches.push(json!({"case": ci, "kind": "block", "input": case, "got": got, "why": why}));
        } else if !why.is_empty() {
            bump("more_mismatches", &mut stats);
        }
    }
    (n, mismatches, stats, hp)
}

/// Height continuity at the ends of the height range (ScanBlock.tla HeightErr: the block connects iff its height is the
/// prior block's + 1, as NATURAL numbers): empty blocks whose previous hash and tree sizes connect, prior / block heights
/// around 0 and around u32::MAX. Prints one JSON object per pair: what scan_block answered.
fn mode_heights(out_path: &str) {
    // every upgrade is active from the first block on, so that no height is special for another reason
    let net = LocalNetwork {
        overwinter: Some(BlockHeight::from_u32(0)), sapling: Some(BlockHeight::from_u32(0)), blossom: Some(BlockHeight::from_u32(0)),
        heartwood: Some(BlockHeight::from_u32(0)), canopy: Some(BlockHeight::from_u32(0)), nu5: Some(BlockHeight::from_u32(0)),
        nu6: Some(BlockHeight::from_u32(0)), nu6_1: Some(BlockHeight::from_u32(0)), nu6_2: Some(BlockHeight::from_u32(0)), nu6_3: Some(BlockHeight::from_u32(0)),
    };
    let usk = UnifiedSpendingKey::from_seed(&net, &[0xc5; 32], zip32::AccountId::ZERO).expect("usk");
    let keys: SKeys = ScanningKeys::from_account_ufvks([(1u32, usk.to_unified_full_viewing_key())]);
    let nullifiers = Nullifiers::empty();
    let m = u32::MAX;
    let mut out = vec![];
    for base in [0u32, 1, 2, 1000, m - 2, m - 1, m] {
        for d in [-2i64, -1, 0, 1, 2, 3] {
            let bh = base as i64 + d;
            if bh < 0 || bh > m as i64 { continue; }
            let prior = BlockMetadata::from_parts(BlockHeight::from(base), BlockHash(tag_hash(7000)), Some(0), Some(0), Some(0));
            let cb = CompactBlock {
                height: bh as u64, hash: tag_hash(7001).to_vec(), prev_hash: tag_hash(7000).to_vec(), time: 1_700_000_000,
                chain_metadata: Some(ChainMetadata { sapling_commitment_tree_size: 0, orchard_commitment_tree_size: 0, ironwood_commitment_tree_size: 0 }),
                ..Default::default()
            };
            let res = guarded(|| scan_block(&net, cb.clone(), &keys, &nullifiers, Some(&prior)));
            let got = match &res {
                Err(p) => json!({"k": "panic", "what": p.chars().take(160).collect::<String>()}),
                Ok(Ok(sb)) => json!({"k": "ok", "h": u32::from(sb.height())}),
                Ok(Err(e)) => json!({"k": "err", "what": format!("{e:?}").chars().take(160).collect::<String>()}),
            };
            out.push(json!({"prior": base, "block": bh, "got": got}));
        }
    }
    std::fs::write(out_path, serde_json::to_string(&out).unwrap()).expect("write");
    println!("{}", json!({"pairs": out.len()}));
}

fn mode_block(cases_path: &str, out_path: &str) {
    let seed = seed_from_env();
    let cases = Arc::new(read_ndjson(cases_path));
    let parts: usize = std::env::var("C05_THREADS").ok().and_then(|s| s.parse().ok()).unwrap_or(8).max(1);
    let mut handles = vec![];
    for part in 0..parts {
        let cases = cases.clone();
        handles.push(std::thread::spawn(move || block_worker(&cases, part, parts, seed)));
    }
    let mut n = 0u64;
    let mut mismatches: Vec<Value> = vec![];
    let mut stats: BTreeMap<String, u64> = BTreeMap::new();
    let mut hp = HeaderPanics::default();
    for h in handles {
        let (k, mm, st, hp1) = h.join().expect("harness: worker thread");
        hp.merge(hp1);
        n += k;
        mismatches.extend(mm);
        for (key, v) in st {
            *stats.entry(key).or_insert(0) += v;
        }
    }
    mismatches.sort_by_key(|m| m["case"].as_i64().unwrap_or(-1));
    mismatches.truncate(25);
    let out = json!({"mode": "block", "cases": n, "mismatches": mismatches, "stats": stats, "header_panics": hp.json()});
    std::fs::write(out_path, serde_json::to_string(&out).unwrap()).expect("write out");
    println!("{}", json!({"cases": n, "mismatches": out["mismatches"].as_array().unwrap().len(), "stats": out["stats"]}));
}

// ------------------------------------------------------------------------------------------------
// mode "wallet": data_api::chain::scan_cached_blocks on the SQLite wallet

/// Every table of the wallet database, row by row (rowid order), as text.
fn dump_all(w: &W) -> String {
    let conn = w.st.wallet().conn();
    let mut names: Vec<String> = conn
        .prepare("SELECT name FROM sqlite_master WHERE type = 'table' AND name NOT LIKE 'sqlite_%' ORDER BY name")
        .unwrap()
        .query_map([], |r| r.get::<_, String>(0))
        .unwrap()
        .map(|r| r.unwrap())
        .collect();
    names.sort();
    let mut out = String::new();
    for t in names {
        out.push_str(&format!("== {t}\n"));
        let mut stmt = conn.prepare(&format!("SELECT * FROM \"{t}\" ORDER BY 1, 2")).or_else(|_| conn.prepare(&format!("SELECT * FROM \"{t}\" ORDER BY 1"))).unwrap();
        let ncol = stmt.column_count();
        let mut rows = stmt.query([]).unwrap();
        while let Some(r) = rows.next().unwrap() {
            for c in 0..ncol {
                let v: rusqlite::types::Value = r.get(c).unwrap();
                match v {
                    rusqlite::types::Value::Null => out.push_str("NULL|"),
                    rusqlite::types::Value::Integer(i) => out.push_str(&format!("{i}|")),
                    rusqlite::types::Value::Real(f) => out.push_str(&format!("{f}|")),
                    rusqlite::types::Value::Text(s) => out.push_str(&format!("{s}|")),
                    rusqlite::types::Value::Blob(b) => out.push_str(&format!("x{}|", hex::encode(b))),
                }
            }
            out.push('\n');
        }
    }
    out
}

/// The wallet's note rows: (txid, pool, index) -> fields, and its scanned-block rows.
fn wallet_rows(w: &W, acct_ids: &[i64]) -> (BTreeMap<(String, usize, u64), Value>, BTreeMap<u32, Value>) {
    let conn = w.st.wallet().conn();
    let mut notes = BTreeMap::new();
    for (pi, table) in ["sapling", "orchard", "ironwood"].iter().enumerate() {
        let idx = if pi == 0 { "output_index" } else { "action_index" };
        let mut stmt = conn
            .prepare(&format!(
                "SELECT rn.id, t.txid, rn.{idx}, rn.account_id, rn.value, rn.commitment_tree_position, rn.recipient_key_scope,
                        rn.is_change, rn.nf, t.mined_height, t.tx_index
                 FROM {table}_received_notes rn JOIN transactions t ON t.id_tx = rn.transaction_id"
            ))
            .unwrap();
        let rows: Vec<(i64, Vec<u8>, u64, i64, i64, Option<i64>, Option<i64>, i64, Option<Vec<u8>>, Option<i64>, Option<i64>)> = stmt
            .query_map([], |r| Ok((r.get(0)?, r.get(1)?, r.get(2)?, r.get(3)?, r.get(4)?, r.get(5)?, r.get(6)?, r.get(7)?, r.get(8)?, r.get(9)?, r.get(10)?)))
            .unwrap()
            .map(|r| r.unwrap())
            .collect();
        for (id, txid, index, acct, value, pos, scope, chg, nf, mined, txi) in rows {
            let mut sp = conn
                .prepare(&format!(
                    "SELECT st.txid FROM {table}_received_note_spends s JOIN transactions st ON st.id_tx = s.transaction_id
                     WHERE s.{table}_received_note_id = ?1"
                ))
                .unwrap();
            let mut spenders: Vec<String> = sp.query_map([id], |r| r.get::<_, Vec<u8>>(0)).unwrap().map(|r| hex::encode(r.unwrap())).collect();
            spenders.sort();
            let a = acct_ids.iter().position(|x| *x == acct).map(|i| i as i64 + 1).unwrap_or(-1);
            notes.insert(
                (hex::encode(&txid), pi, index),
                json!({"a": a, "v": value, "pos": pos, "sc": match scope { Some(0) => "ext", Some(1) => "int", _ => "none" }, "chg": chg != 0,
                       "nf": nf.map(hex::encode), "mined": mined, "txi": txi, "sp": spenders}),
            );
        }
    }
    let mut blocks = BTreeMap::new();
    let mut stmt = conn
        .prepare("SELECT height, hash, sapling_commitment_tree_size, orchard_commitment_tree_size, ironwood_commitment_tree_size, sapling_output_count, orchard_action_count, ironwood_action_count FROM blocks")
        .unwrap();
    let rows: Vec<(u32, Vec<u8>, Option<i64>, Option<i64>, Option<i64>, Option<i64>, Option<i64>, Option<i64>)> = stmt
        .query_map([], |r| Ok((r.get(0)?, r.get(1)?, r.get(2)?, r.get(3)?, r.get(4)?, r.get(5)?, r.get(6)?, r.get(7)?)))
        .unwrap()
        .map(|r| r.unwrap())
        .collect();
    for (h, hash, s, o, i, sc, oc, ic) in rows {
        blocks.insert(h, json!({"hash": hex::encode(hash), "S": s, "O": o, "I": i, "nS": sc, "nO": oc, "nI": ic}));
    }
    (notes, blocks)
}

fn sap_node(cmu: &[u8]) -> Option<sapling::Node> {
    let arr: [u8; 32] = cmu.try_into().ok()?;
    Option::from(sapling::note::ExtractedNoteCommitment::from_bytes(&arr)).map(|c| sapling::Node::from_cmu(&c))
}
fn orch_node(cmx: &[u8]) -> Option<MerkleHashOrchard> {
    let arr: [u8; 32] = cmx.try_into().ok()?;
    Option::from(orchard::note::ExtractedNoteCommitment::from_bytes(&arr)).map(|c| MerkleHashOrchard::from_cmx(&c))
}

fn wallet_err_class(e: &str) -> String {
    // Debug of data_api::chain::error::Error: Scan(<ScanError variant> { .. }) | Wallet(..) | BlockSource(..)
    if let Some(rest) = e.strip_prefix("Scan(") {
        rest.chars().take_while(|c| c.is_alphanumeric()).collect()
    } else {
        e.chars().take_while(|c| c.is_alphanumeric()).collect()
    }
}

fn mode_wallet(scen_path: &str, out_path: &str) {
    let seed = seed_from_env();
    let scenarios = read_ndjson(scen_path);
    let hang_secs: u64 = std::env::var("C05_HANG_SECS").ok().and_then(|s| s.parse().ok()).unwrap_or(90);
    // the wallet comes with two accounts under the test seed (account 1 = the test account)
    let (mut w, accounts) = W::new(true);
    assert_eq!(accounts.len(), 2, "harness: two accounts expected");
    let acct_ids: Vec<i64> = w.acct_rows.clone();
    assert_eq!(acct_ids.len(), 2, "harness: two account rows expected");
    let mut mat = Mat::new(accounts.clone(), seed);
    let net = w.net;
    let mut chain = Chain::new(w.base, accounts, &mut ChaChaRng::seed_from_u64(seed ^ 0x5eed), true);
    let base = w.base;

    // expected cumulative wallet content
    let mut exp_notes: BTreeMap<(String, usize, u64), Value> = BTreeMap::new();
    let mut note_key: HashMap<u64, (String, usize, u64)> = HashMap::new();
    let mut exp_blocks: BTreeMap<u32, Value> = BTreeMap::new();
    let mut hash_tags: HashMap<u64, [u8; 32]> = HashMap::new();
    hash_tags.insert(0, [0u8; 32]);

    let mut mismatches: Vec<Value> = vec![];
    let mut stats: BTreeMap<String, u64> = BTreeMap::new();
    let bump = |k: &str, stats: &mut BTreeMap<String, u64>| *stats.entry(k.to_string()).or_insert(0) += 1;

    // watchdog: a scan that does not return is an outcome ("hang"), reported and the process ends
    let current: Arc<Mutex<Option<(std::time::Instant, Value)>>> = Arc::new(Mutex::new(None));
    let partial: Arc<Mutex<Vec<Value>>> = Arc::new(Mutex::new(vec![]));
    {
        let current = current.clone();
        let partial = partial.clone();
        let out_path = out_path.to_string();
        std::thread::spawn(move || loop {
            std::thread::sleep(std::time::Duration::from_millis(500));
            let g = current.lock().unwrap();
            if let Some((t0, sc)) = &*g {
                if t0.elapsed().as_secs() >= hang_secs {
                    let mut mm = partial.lock().unwrap().clone();
                    mm.push(json!({"case": sc["id"], "kind": "wallet", "input": sc, "got": {"hang": true},
                        "why": [format!("scan_cached_blocks did not return within {hang_secs} s (the batched decryption never delivered a transaction's results)")]}));
                    let out = json!({"mode": "wallet", "scenarios": -1, "mismatches": mm, "stats": {"hang": 1}});
                    std::fs::write(&out_path, serde_json::to_string(&out).unwrap()).expect("write out");
                    println!("{}", json!({"hang": true}));
                    std::process::exit(0);
                }
            }
        });
    }

    let mut done = 0u64;
    let mut hp = HeaderPanics::default();
    for sc in &scenarios {
        let exp = &sc["exp"];
        let blocks = sc["blocks"].as_array().unwrap();
        let from = base + blocks[0]["hreal"].as_u64().unwrap() as u32;
        // materialise
        let (mut sap, mut orch, mut iron, mut sizes) = match chain.blocks.get(&(from - 1)) {
            Some(b) => (b.sap.clone(), b.orch.clone(), b.iron.clone(), b.sizes),
            None => (SapFrontier::empty(), OrchFrontier::empty(), OrchFrontier::empty(), [0u32; 3]),
        };
        let mut mats = vec![];
        let notes_before = mat.notes.clone();
        for (k, ab) in blocks.iter().enumerate() {
            let height = base + ab["hreal"].as_u64().unwrap() as u32;
            assert_eq!(height, from + k as u32, "harness: range heights");
            let positions = exp["res"].get(k).map(positions_of).unwrap_or_default();
            let mut hash = [0u8; 32];
            mat.rng.fill_bytes(&mut hash);
            hash_tags.insert(ab["hash"].as_u64().unwrap(), hash);
            // an unknown tag: a hash that differs from the true predecessor's in a single bit
            let prev = match hash_tags.get(&ab["prev"].as_u64().unwrap()) {
                Some(h) => *h,
                None => flip_bit(chain.hash_at(height - 1), &mut mat.rng),
            };
            // the height field of the block follows the abstract height (which a corruption may shift)
            let cb_height = base as u64 + ab["h"].as_u64().unwrap();
            let mb = mat.block(&net, ab, height, cb_height, hash, prev, &positions);
            for t in &mb.txs {
                for o in &t.outs[0] {
                    if let Some(n) = sap_node(&o.cm) {
                        sap.append(n);
                    }
                    sizes[0] += 1;
                }
                for o in &t.outs[1] {
                    if let Some(n) = orch_node(&o.cm) {
                        orch.append(n);
                    }
                    sizes[1] += 1;
                }
                for o in &t.outs[2] {
                    if let Some(n) = orch_node(&o.cm) {
                        iron.append(n);
                    }
                    sizes[2] += 1;
                }
            }
            chain.blocks.insert(height, Blk { height, uid: 0, hash, cb: mb.cb.clone(), txs: vec![], sap: sap.clone(), orch: orch.clone(), iron: iron.clone(), sizes });
            mats.push(mb);
        }
        let pre = dump_all(&w);
        *current.lock().unwrap() = Some((std::time::Instant::now(), sc.clone()));
        let res = w.scan(&chain, from, blocks.len());
        *current.lock().unwrap() = None;
        let mut why = vec![];
        let got;
        let accepted = matches!(res, Ok(Ok(())));
        match &res {
            Err(p) => {
                got = json!({"panic": p.chars().take(200).collect::<String>()});
                bump("panic", &mut stats);
                match blocks.iter().filter_map(bad_kind).next() {
                    Some(kind) if exp["ok"].as_bool() != Some(true) => hp.add(kind, p, sc),
                    _ => why.push(format!("scan_cached_blocks panicked: {}", p.chars().take(200).collect::<String>())),
                }
            }
            Ok(Err(e)) => {
                let class = wallet_err_class(e);
                got = json!({"ok": false, "err": class, "text": e.chars().take(200).collect::<String>()});
                bump(&format!("err_{class}"), &mut stats);
                if exp["ok"].as_bool() == Some(true) {
                    why.push(format!("a range of well-formed, connected blocks was rejected: {}", e.chars().take(200).collect::<String>()));
                } else {
                    let bad = &exp["res"][exp["at"].as_u64().unwrap() as usize - 1];
                    if diff_error(bad, &class, &mut why) {
                        bump("order_differs", &mut stats);
                    }
                }
            }
            Ok(Ok(())) => {
                got = json!({"ok": true});
                bump("accepted", &mut stats);
                if exp["ok"].as_bool() != Some(true) {
                    let bad = &exp["res"][exp["at"].as_u64().unwrap() as usize - 1];
                    why.push(format!("a range whose block {} has defects {} was accepted", exp["at"], bad["all"]));
                }
            }
        }
        if !accepted {
            // never partially applied: no table of the wallet may have changed
            let post = dump_all(&w);
            if post != pre {
                let diff: Vec<String> = pre.lines().zip(post.lines()).filter(|(a, b)| a != b).take(3).map(|(a, b)| format!("{} -> {}", &a[..a.len().min(120)], &b[..b.len().min(120)])).collect();
                why.push(format!("the rejected range changed the wallet database ({} -> {} bytes; first differing rows: {:?})", pre.len(), post.len(), diff));
            }
            // the blocks of the range are discarded; later scenarios reuse the heights
            chain.truncate(from - 1);
            mat.notes = notes_before;
        }
        if accepted && exp["ok"].as_bool() == Some(true) {
            // fold the prediction into the expected wallet content
            for (k, r) in exp["res"].as_array().unwrap().iter().enumerate() {
                let mb = &mats[k];
                for rv in r["recv"].as_array().unwrap() {
                    let (t, p, i) = (rv["t"].as_u64().unwrap() as usize, pool_idx(rv["p"].as_str().unwrap()), rv["i"].as_u64().unwrap());
                    let mt = &mb.txs[t - 1];
                    let key = (hex::encode(mt.txid), p, i);
                    exp_notes.insert(
                        key.clone(),
                        json!({"a": rv["a"], "v": rv["v"], "pos": rv["pos"], "sc": rv["sc"], "chg": rv["chg"],
                               "nf": mt.outs[p][i as usize].nf.map(hex::encode), "mined": mb.height, "txi": mt.index, "sp": []}),
                    );
                    if rv["n"].as_u64().unwrap_or(0) > 0 {
                        note_key.insert(rv["n"].as_u64().unwrap(), key);
                    }
                }
                for s in r["spent"].as_array().unwrap() {
                    let t = s["t"].as_u64().unwrap() as usize;
                    let spender = hex::encode(mb.txs[t - 1].txid);
                    if let Some(key) = note_key.get(&s["n"].as_u64().unwrap()) {
                        let e = exp_notes.get_mut(key).unwrap();
                        let mut v: Vec<String> = e["sp"].as_array().unwrap().iter().map(|x| x.as_str().unwrap().to_string()).collect();
                        v.push(spender);
                        v.sort();
                        e["sp"] = json!(v);
                    }
                }
                let counts: Vec<usize> = (0..3).map(|p| mb.txs.iter().map(|t| t.outs[p].len()).sum()).collect();
                exp_blocks.insert(mb.height, json!({"hash": hex::encode(mb.hash), "S": r["final"]["S"], "O": r["final"]["O"], "I": r["final"]["I"],
                    "nS": counts[0], "nO": counts[1], "nI": counts[2]}));
            }
            let (notes, blks) = wallet_rows(&w, &acct_ids);
            if notes != exp_notes {
                let mut shown = 0;
                for (k, e) in &exp_notes {
                    match notes.get(k) {
                        None => {
                            why.push(format!("note (tx {}.., pool {}, #{}) expected {} is missing from the wallet", &k.0[..8], POOLS[k.1], k.2, e));
                            shown += 1;
                        }
                        Some(g) if g != e => {
                            why.push(format!("note (tx {}.., pool {}, #{}): expected {} got {}", &k.0[..8], POOLS[k.1], k.2, e, g));
                            shown += 1;
                        }
                        _ => {}
                    }
                    if shown >= 4 {
                        break;
                    }
                }
                for (k, g) in &notes {
                    if !exp_notes.contains_key(k) && shown < 6 {
                        why.push(format!("the wallet holds a note (tx {}.., pool {}, #{}) {} that is not the wallet's", &k.0[..8], POOLS[k.1], k.2, g));
                        shown += 1;
                    }
                }
            }
            if blks != exp_blocks {
                for (h, e) in &exp_blocks {
                    if blks.get(h) != Some(e) {
                        why.push(format!("block row {}: expected {} got {:?}", h - base, e, blks.get(h)));
                        break;
                    }
                }
                if blks.len() != exp_blocks.len() {
                    why.push(format!("{} block rows, expected {}", blks.len(), exp_blocks.len()));
                }
            }
        }
        done += 1;
        if !why.is_empty() {
            let m = json!({"case": sc["id"], "kind": "wallet", "input": sc, "got": got, "why": why});
            partial.lock().unwrap().push(m.clone());
            mismatches.push(m);
            // the wallet and the expectation have diverged: later scenarios would only echo this
            break;
        }
    }
    let out = json!({"mode": "wallet", "scenarios": done, "mismatches": mismatches, "stats": stats, "header_panics": hp.json()});
    std::fs::write(out_path, serde_json::to_string(&out).unwrap()).expect("write out");
    println!("{}", json!({"scenarios": done, "mismatches": out["mismatches"].as_array().unwrap().len(), "stats": out["stats"]}));
}

// ------------------------------------------------------------------------------------------------
// mode "sched": scan_cached_blocks with the batch tasks run in a chosen completion order

/// Every table of the wallet database except the named ones, as text.
fn dump_except(w: &W, skip: &[&str]) -> String {
    let full = dump_all(w);
    let mut out = String::new();
    let mut keep = true;
    for line in full.lines() {
        if let Some(t) = line.strip_prefix("== ") {
            keep = !skip.contains(&t);
        }
        if keep {
            out.push_str(line);
            out.push('\n');
        }
    }
    out
}

/// The permutation a schedule description stands for when `n` tasks are queued.
fn schedule_perm(order: &Value, n: usize, seed: u64) -> Vec<usize> {
    match order["k"].as_str().unwrap_or("id") {
        "perm" => order["p"].as_array().unwrap().iter().map(|v| v.as_u64().unwrap() as usize).collect(),
        "rev" => (0..n).rev().collect(),
        "rot" => {
            let by = order["by"].as_u64().unwrap_or(1) as usize;
            (0..n).map(|i| (i + by) % n.max(1)).collect()
        }
        "rand" => {
            let mut r = ChaChaRng::seed_from_u64(seed ^ order["s"].as_u64().unwrap_or(0).wrapping_mul(0x9e3779b97f4a7c15) ^ ((n as u64) << 48));
            let mut v: Vec<usize> = (0..n).collect();
            for i in (1..n).rev() {
                let j = r.gen_range(0..=i);
                v.swap(i, j);
            }
            v
        }
        _ => (0..n).collect(),
    }
}

type NoteRows = BTreeMap<(String, usize, u64), Value>;
type BlockRows = BTreeMap<u32, Value>;

/// Folds the prediction for an accepted range into the expected wallet content (as `mode_wallet` does).
fn fold_expected(exp: &Value, mats: &[MatBlock], exp_notes: &mut NoteRows, note_key: &mut HashMap<u64, (String, usize, u64)>, exp_blocks: &mut BlockRows) {
    for (k, r) in exp["res"].as_array().unwrap().iter().enumerate() {
        let mb = &mats[k];
        for rv in r["recv"].as_array().unwrap() {
            let (t, p, i) = (rv["t"].as_u64().unwrap() as usize, pool_idx(rv["p"].as_str().unwrap()), rv["i"].as_u64().unwrap());
            let mt = &mb.txs[t - 1];
            let key = (hex::encode(mt.txid), p, i);
            exp_notes.insert(
                key.clone(),
                json!({"a": rv["a"], "v": rv["v"], "pos": rv["pos"], "sc": rv["sc"], "chg": rv["chg"],
                       "nf": mt.outs[p][i as usize].nf.map(hex::encode), "mined": mb.height, "txi": mt.index, "sp": []}),
            );
            if rv["n"].as_u64().unwrap_or(0) > 0 {
                note_key.insert(rv["n"].as_u64().unwrap(), key);
            }
        }
        for s in r["spent"].as_array().unwrap() {
            let t = s["t"].as_u64().unwrap() as usize;
            let spender = hex::encode(mb.txs[t - 1].txid);
            if let Some(key) = note_key.get(&s["n"].as_u64().unwrap()) {
                let e = exp_notes.get_mut(key).unwrap();
                let mut v: Vec<String> = e["sp"].as_array().unwrap().iter().map(|x| x.as_str().unwrap().to_string()).collect();
                v.push(spender);
                v.sort();
                e["sp"] = json!(v);
            }
        }
        let counts: Vec<usize> = (0..3).map(|p| mb.txs.iter().map(|t| t.outs[p].len()).sum()).collect();
        exp_blocks.insert(mb.height, json!({"hash": hex::encode(mb.hash), "S": r["final"]["S"], "O": r["final"]["O"], "I": r["final"]["I"],
            "nS": counts[0], "nO": counts[1], "nI": counts[2]}));
    }
}

/// Differences between the wallet's rows and the expected ones, in words.
fn diff_rows(notes: &NoteRows, blks: &BlockRows, exp_notes: &NoteRows, exp_blocks: &BlockRows, base: u32, against: &str, why: &mut Vec<String>) {
    if notes != exp_notes {
        let mut shown = 0;
        for (k, e) in exp_notes {
            match notes.get(k) {
                None => {
                    why.push(format!("note (tx {}.., pool {}, #{}) {against} {} is missing from the wallet", &k.0[..8], POOLS[k.1], k.2, e));
                    shown += 1;
                }
                Some(g) if g != e => {
                    why.push(format!("note (tx {}.., pool {}, #{}): {against} {} got {}", &k.0[..8], POOLS[k.1], k.2, e, g));
                    shown += 1;
                }
                _ => {}
            }
            if shown >= 4 {
                break;
            }
        }
        for (k, g) in notes {
            if !exp_notes.contains_key(k) && shown < 6 {
                why.push(format!("the wallet holds a note (tx {}.., pool {}, #{}) {} that is not {against}", &k.0[..8], POOLS[k.1], k.2, g));
                shown += 1;
            }
        }
    }
    if blks != exp_blocks {
        for (h, e) in exp_blocks {
            if blks.get(h) != Some(e) {
                why.push(format!("block row {}: {against} {} got {:?}", h - base, e, blks.get(h)));
                break;
            }
        }
        if blks.len() != exp_blocks.len() {
            why.push(format!("{} block rows, {against} {}", blks.len(), exp_blocks.len()));
        }
    }
}

fn keys_equal(a: &[Keys], b: &[Keys]) -> bool {
    a.len() == b.len() && a.iter().zip(b.iter()).all(|(x, y)| x.sapling.to_bytes() == y.sapling.to_bytes() && x.orchard.to_bytes() == y.orchard.to_bytes())
}

/// The outcome of scanning a case's history on one fresh wallet.
struct SchedRun {
    /// "ok" | "err:<class>" | "panic"
    verdict: String,
    text: String,
    notes: NoteRows,
    blocks: BlockRows,
    dump: String,
    /// sizes of the task groups the hook drained (empty for the reference run)
    drained: Vec<usize>,
    /// the permutations the scheduler answered with
    applied: Vec<Vec<usize>>,
    /// harness-level trouble before the range under test (setup range not accepted, ...)
    setup_trouble: Vec<String>,
    /// the database dump changed although the range under test was not accepted
    changed_on_reject: bool,
}

type Current = Arc<Mutex<Option<(std::time::Instant, Value)>>>;

#[allow(clippy::too_many_arguments)]
fn sched_run(chain: &Chain, keys0: &[Keys], ranges: &[Value], froms: &[u32], order: Option<&Value>, seed: u64, current: &Current, tag: &Value) -> SchedRun {
    use zcash_client_backend::scan::verif;
    let (mut w, keys) = W::new(true);
    assert!(keys_equal(&keys, keys0), "harness: a fresh wallet has other keys than the first one");
    assert_eq!(w.base, chain.base, "harness: a fresh wallet has another base height");
    let acct_ids: Vec<i64> = w.acct_rows.clone();
    let mut setup_trouble = vec![];
    let last = ranges.len() - 1;
    // the watchdog covers the setup scans as well (a scan that never returns is an outcome, wherever it happens)
    *current.lock().unwrap() = Some((std::time::Instant::now(), tag.clone()));
    for (ri, rg) in ranges.iter().enumerate().take(last) {
        let n = rg["blocks"].as_array().unwrap().len();
        match w.scan(chain, froms[ri], n) {
            Ok(Ok(())) => {}
            other => setup_trouble.push(format!("setup range {} was not accepted: {:?}", ri + 1, other)),
        }
    }
    let pre = dump_all(&w);
    let n = ranges[last]["blocks"].as_array().unwrap().len();
    let applied: Arc<Mutex<Vec<Vec<usize>>>> = Arc::new(Mutex::new(vec![]));
    if let Some(o) = order {
        let o = o.clone();
        let applied = applied.clone();
        verif::capture(Box::new(move |k| {
            let p = schedule_perm(&o, k, seed);
            applied.lock().unwrap().push(p.clone());
            p
        }));
    }
    let res = w.scan(chain, froms[last], n);
    *current.lock().unwrap() = None;
    let drained = if order.is_some() { guarded(verif::release).unwrap_or_else(|_| vec![usize::MAX]) } else { vec![] };
    let (verdict, text) = match &res {
        Ok(Ok(())) => ("ok".to_string(), String::new()),
        Ok(Err(e)) => (format!("err:{}", wallet_err_class(e)), e.chars().take(200).collect()),
        Err(p) => ("panic".to_string(), p.chars().take(200).collect()),
    };
    let changed_on_reject = verdict != "ok" && dump_all(&w) != pre;
    let (notes, blocks) = wallet_rows(&w, &acct_ids);
    let dump = dump_except(&w, &["accounts"]);
    let applied = applied.lock().unwrap().clone();
    SchedRun { verdict, text, notes, blocks, dump, drained, applied, setup_trouble, changed_on_reject }
}

fn mode_sched(cases_path: &str, out_path: &str) {
    let seed = seed_from_env();
    let cases = read_ndjson(cases_path);
    let hang_secs: u64 = std::env::var("C05_HANG_SECS").ok().and_then(|s| s.parse().ok()).unwrap_or(90);
    let mut mismatches: Vec<Value> = vec![];
    let mut stats: BTreeMap<String, u64> = BTreeMap::new();
    let bump = |k: &str, by: u64, stats: &mut BTreeMap<String, u64>| *stats.entry(k.to_string()).or_insert(0) += by;
    let mut per_case: Vec<Value> = vec![];

    // watchdog: a scan that does not return is an outcome ("hang")
    let current: Current = Arc::new(Mutex::new(None));
    let partial: Arc<Mutex<(Vec<Value>, Vec<Value>)>> = Arc::new(Mutex::new((vec![], vec![])));
    {
        let current = current.clone();
        let partial = partial.clone();
        let out_path = out_path.to_string();
        std::thread::spawn(move || loop {
            std::thread::sleep(std::time::Duration::from_millis(500));
            let g = current.lock().unwrap();
            if let Some((t0, tag)) = &*g {
                if t0.elapsed().as_secs() >= hang_secs {
                    let (mut mm, pc) = partial.lock().unwrap().clone();
                    mm.push(json!({"case": tag["case"], "kind": "sched", "order": tag["order"], "input": tag["input"], "got": {"hang": true},
                        "why": [format!("scan_cached_blocks did not return within {hang_secs} s ({}): the batched decryption never delivered a transaction's results", tag["what"])]}));
                    let out = json!({"mode": "sched", "cases": -1, "mismatches": mm, "stats": {"hang": 1}, "per_case": pc});
                    std::fs::write(&out_path, serde_json::to_string(&out).unwrap()).expect("write out");
                    println!("{}", json!({"hang": true}));
                    std::process::exit(0);
                }
            }
        });
    }

    let (w0, keys0) = W::new(true);
    let net = w0.net;
    let base = w0.base;
    // the accounts' viewing keys as the wallet reports them, numbered as the specification numbers accounts
    let ufvks: Vec<(u32, zcash_keys::keys::UnifiedFullViewingKey)> = {
        use zcash_client_backend::data_api::WalletRead;
        let m = w0.st.wallet().get_unified_full_viewing_keys().expect("ufvks");
        w0.acct_ids.iter().enumerate().map(|(i, id)| (i as u32 + 1, m.get(id).expect("ufvk of account").clone())).collect()
    };
    drop(w0);
    let inline_keys: SKeys = ScanningKeys::from_account_ufvks(ufvks.clone());

    let mut done = 0u64;
    for case in &cases {
        let cid = case["id"].clone();
        let ranges: Vec<Value> = case["ranges"].as_array().unwrap().clone();
        let last = ranges.len() - 1;
        // the random choices of a case depend on the seed and the case only (replay of the case alone repeats them)
        let mut hsh: u64 = 0xcbf29ce484222325;
        for b in format!("{}{}", case["conf"], case["id"]).bytes() {
            hsh = (hsh ^ b as u64).wrapping_mul(0x100000001b3);
        }
        let cseed = seed.wrapping_mul(0x9e3779b97f4a7c15) ^ hsh;
        let mut mat = Mat::new(keys0.clone(), cseed);
        let mut chain = Chain::new(base, keys0.clone(), &mut ChaChaRng::seed_from_u64(cseed ^ 0x5eed), true);

        // materialise the whole history once; every wallet of this case scans the same blocks
        let mut hash_tags: HashMap<u64, [u8; 32]> = HashMap::new();
        hash_tags.insert(0, [0u8; 32]);
        let mut all_mats: Vec<Vec<MatBlock>> = vec![];
        let mut froms: Vec<u32> = vec![];
        for rg in &ranges {
            let exp = &rg["exp"];
            let blocks = rg["blocks"].as_array().unwrap();
            let from = base + blocks[0]["hreal"].as_u64().unwrap() as u32;
            froms.push(from);
            let (mut sap, mut orch, mut iron, mut sizes) = match chain.blocks.get(&(from - 1)) {
                Some(b) => (b.sap.clone(), b.orch.clone(), b.iron.clone(), b.sizes),
                None => (SapFrontier::empty(), OrchFrontier::empty(), OrchFrontier::empty(), [0u32; 3]),
            };
            let mut mats = vec![];
            for (k, ab) in blocks.iter().enumerate() {
                let height = base + ab["hreal"].as_u64().unwrap() as u32;
                assert_eq!(height, from + k as u32, "harness: range heights");
                let positions = exp["res"].get(k).map(positions_of).unwrap_or_default();
                let mut hash = [0u8; 32];
                mat.rng.fill_bytes(&mut hash);
                hash_tags.insert(ab["hash"].as_u64().unwrap(), hash);
                let prev = match hash_tags.get(&ab["prev"].as_u64().unwrap()) {
                    Some(h) => *h,
                    None => flip_bit(chain.hash_at(height - 1), &mut mat.rng),
                };
                let cb_height = base as u64 + ab["h"].as_u64().unwrap();
                let mb = mat.block(&net, ab, height, cb_height, hash, prev, &positions);
                for t in &mb.txs {
                    for o in &t.outs[0] {
                        if let Some(n) = sap_node(&o.cm) {
                            sap.append(n);
                        }
                        sizes[0] += 1;
                    }
                    for o in &t.outs[1] {
                        if let Some(n) = orch_node(&o.cm) {
                            orch.append(n);
                        }
                        sizes[1] += 1;
                    }
                    for o in &t.outs[2] {
                        if let Some(n) = orch_node(&o.cm) {
                            iron.append(n);
                        }
                        sizes[2] += 1;
                    }
                }
                chain.blocks.insert(height, Blk { height, uid: 0, hash, cb: mb.cb.clone(), txs: vec![], sap: sap.clone(), orch: orch.clone(), iron: iron.clone(), sizes });
                mats.push(mb);
            }
            all_mats.push(mats);
        }
        // expected wallet content: after the setup ranges, and after the range under test
        let mut exp_notes: NoteRows = BTreeMap::new();
        let mut note_key = HashMap::new();
        let mut exp_blocks: BlockRows = BTreeMap::new();
        for (ri, rg) in ranges.iter().enumerate() {
            assert!(ri == last || rg["exp"]["ok"].as_bool() == Some(true), "harness: a setup range must be an accepted one");
            if rg["exp"]["ok"].as_bool() == Some(true) {
                fold_expected(&rg["exp"], &all_mats[ri], &mut exp_notes, &mut note_key, &mut exp_blocks);
            }
        }
        let exp_ok = ranges[last]["exp"]["ok"].as_bool() == Some(true);

        let mut case_why: Vec<(Value, Vec<String>, Value)> = vec![];

        // (i) inline: block by block through scan_block, no batch runner at all
        {
            let mut why = vec![];
            let mut nullifiers: Nullifiers<u32> = Nullifiers::empty();
            let mut prior: Option<BlockMetadata> = None;
            'outer: for (ri, rg) in ranges.iter().enumerate() {
                for (k, mb) in all_mats[ri].iter().enumerate() {
                    let e = &rg["exp"]["res"][k];
                    if e.is_null() {
                        break 'outer;
                    }
                    match guarded(|| scan_block(&net, mb.cb.clone(), &inline_keys, &nullifiers, prior.as_ref())) {
                        Err(p) => {
                            why.push(format!("scan_block (inline) panicked on block {} of range {}: {}", k + 1, ri + 1, p.chars().take(160).collect::<String>()));
                            break 'outer;
                        }
                        Ok(Err(err)) => {
                            if e["ok"].as_bool() == Some(true) {
                                why.push(format!("scan_block (inline) rejected block {} of range {}: {err:?}", k + 1, ri + 1));
                            } else {
                                diff_error(e, err_class(&err), &mut why);
                            }
                            break 'outer;
                        }
                        Ok(Ok(sb)) => {
                            if e["ok"].as_bool() != Some(true) {
                                why.push(format!("scan_block (inline) accepted block {} of range {} with defects {}", k + 1, ri + 1, e["all"]));
                                break 'outer;
                            }
                            let mut notes = vec![];
                            let got = project(&sb, mb, &mut notes);
                            let mut w1 = vec![];
                            diff_block(e, &got, mb, &mut w1);
                            w1.extend(notes);
                            why.extend(w1.into_iter().take(6).map(|s| format!("scan_block (inline), block {} of range {}: {s}", k + 1, ri + 1)));
                            nullifiers.update_with(&sb);
                            prior = Some(sb.to_block_metadata());
                            bump("inline_blocks", 1, &mut stats);
                        }
                    }
                }
            }
            if !why.is_empty() {
                case_why.push((json!("inline"), why, json!({})));
            }
        }

        // (ii) the reference: the tasks on the rayon pool (the caller sets RAYON_NUM_THREADS)
        let judge = |run: &SchedRun, reference: Option<&SchedRun>, why: &mut Vec<String>| {
            why.extend(run.setup_trouble.iter().cloned());
            match (run.verdict.as_str(), exp_ok) {
                ("ok", true) => {
                    diff_rows(&run.notes, &run.blocks, &exp_notes, &exp_blocks, base, "expected", why);
                }
                ("ok", false) => {
                    let e = &ranges[last]["exp"];
                    why.push(format!("a range whose block {} has defects {} was accepted", e["at"], e["res"][e["at"].as_u64().unwrap() as usize - 1]["all"]));
                }
                ("panic", _) => why.push(format!("scan_cached_blocks panicked: {}", run.text)),
                (v, true) => why.push(format!("a range of well-formed, connected blocks was rejected ({v}): {}", run.text)),
                (v, false) => {
                    let e = &ranges[last]["exp"];
                    let bad = &e["res"][e["at"].as_u64().unwrap() as usize - 1];
                    diff_error(bad, v.trim_start_matches("err:"), why);
                }
            }
            if run.changed_on_reject {
                why.push("the rejected range changed the wallet database".into());
            }
            if let Some(r) = reference {
                if r.verdict != run.verdict && !(r.verdict.starts_with("err:") && run.verdict.starts_with("err:")) {
                    why.push(format!("verdict {} differs from the reference run's {}", run.verdict, r.verdict));
                }
                if run.notes != r.notes || run.blocks != r.blocks {
                    diff_rows(&run.notes, &run.blocks, &r.notes, &r.blocks, base, "the reference run has", why);
                }
            }
        };
        let tag = json!({"case": cid, "order": "reference", "input": case, "what": "tasks on the rayon pool"});
        let reference = sched_run(&chain, &keys0, &ranges, &froms, None, cseed, &current, &tag);
        {
            let mut why = vec![];
            judge(&reference, None, &mut why);
            if !why.is_empty() {
                case_why.push((json!("reference"), why, json!({"verdict": reference.verdict, "text": reference.text})));
            }
        }
        bump("reference_runs", 1, &mut stats);

        // (iii) every completion order, the queued tasks run by the hook in exactly that order
        let orders = case["orders"].as_array().cloned().unwrap_or_default();
        let mut drained_counts: Vec<Value> = vec![];
        let mut distinct_applied: std::collections::BTreeSet<Vec<usize>> = Default::default();
        let mut dump_differs = 0u64;
        for o in &orders {
            let tag = json!({"case": cid, "order": o, "input": case, "what": format!("tasks captured, order {o}")});
            let run = sched_run(&chain, &keys0, &ranges, &froms, Some(o), cseed, &current, &tag);
            let mut why = vec![];
            judge(&run, Some(&reference), &mut why);
            let total: usize = run.drained.iter().filter(|x| **x != usize::MAX).sum();
            drained_counts.push(json!(run.drained));
            for p in &run.applied {
                distinct_applied.insert(p.clone());
            }
            bump("captured_runs", 1, &mut stats);
            bump("tasks_drained", total as u64, &mut stats);
            if total >= 2 {
                bump("captured_runs_with_2plus_tasks", 1, &mut stats);
            }
            if run.applied.iter().any(|p| p.iter().enumerate().any(|(i, x)| i != *x)) {
                bump("non_identity_orders_applied", 1, &mut stats);
            }
            if run.dump != reference.dump {
                dump_differs += 1;
            }
            if !why.is_empty() {
                case_why.push((o.clone(), why, json!({"verdict": run.verdict, "text": run.text, "drained": run.drained, "applied": run.applied})));
                if case_why.len() >= 4 {
                    break;
                }
            }
        }
        bump("dump_differs_from_reference", dump_differs, &mut stats);
        let pc = json!({"id": cid, "expected_tasks": case["conf"]["n"], "drained": drained_counts, "orders": orders.len(),
            "distinct_orders_applied": distinct_applied.len(), "dump_differs": dump_differs, "mismatch": !case_why.is_empty()});
        per_case.push(pc.clone());
        partial.lock().unwrap().1.push(pc);
        done += 1;
        if let Some((o, why, got)) = case_why.first() {
            let mut all: Vec<String> = why.clone();
            for (o2, w2, _) in case_why.iter().skip(1) {
                all.push(format!("[also under {o2}] {}", w2.first().cloned().unwrap_or_default()));
            }
            let m = json!({"case": cid, "kind": "sched", "order": o, "input": case, "got": got, "why": all});
            partial.lock().unwrap().0.push(m.clone());
            if mismatches.len() < 6 {
                mismatches.push(m);
            } else {
                bump("more_mismatches", 1, &mut stats);
            }
        }
    }
    let out = json!({"mode": "sched", "cases": done, "mismatches": mismatches, "stats": stats, "per_case": per_case});
    std::fs::write(out_path, serde_json::to_string(&out).unwrap()).expect("write out");
    println!("{}", json!({"cases": done, "mismatches": out["mismatches"].as_array().unwrap().len(), "stats": out["stats"]}));
}

fn main() {
    quiet_panics();
    let args: Vec<String> = std::env::args().collect();
    match args.get(1).map(|s| s.as_str()) {
        Some("block") => mode_block(&args[2], &args[3]),
        Some("wallet") => mode_wallet(&args[2], &args[3]),
        Some("sched") => mode_sched(&args[2], &args[3]),
        Some("heights") => mode_heights(&args[2]),
        _ => {
            eprintln!("usage: c05_replay block|wallet|sched <in.ndjson> <out.json>");
            std::process::exit(2);
        }
    }
}
