fn main() { println!("h_wallet ok"); }
