//! C18 spec -> code replay.  Every edge TLC emitted from MC_Migration.tla
//! `[pre, ev, post, ret, obs]` is executed on the real `MigrationState`:
//!
//! * `pre` is built with the public `MigrationState::from_parts` / `MigrationTransaction::from_parts`;
//! * `ev` is applied with the public mutators, or `advance_migration` over a scripted store that
//!   implements `PoolMigrationRead`/`PoolMigrationWrite` and answers exactly what the edge's
//!   environment chose;
//! * the resulting state is compared (`MigrationState: PartialEq`) with the state the specification
//!   predicts (`post`, every unmodelled field carried over unchanged), the returned step / bool with
//!   `ret`, and the observers (`is_terminal`, `replan_required`, `expired_transactions`,
//!   `transaction_statuses`) with `obs`;
//! * independently of the model's prediction the property's safety clauses are evaluated DIRECTLY
//!   on what the real code returned (a broadcast offered => proved, dependencies mined, due, not
//!   expired, ...);
//! * the real state is saved and loaded through `zcash_pool_migration_memory::MockBackend` and
//!   (`--sqlite`) `zcash_client_sqlite`'s `PoolMigrations` over a real wallet database, and must
//!   come back equal.
//!
//! usage: c18_replay <edges.ndjson> [--sqlite <every>] [--arb <n>]
//! stdout: one JSON summary object (last line).
use std::collections::{BTreeMap, BTreeSet, HashSet};
use std::num::NonZeroU32;

use h_wallet::util::{guarded, quiet_panics, read_ndjson, seed_from_env};
use rand::SeedableRng;
use rand_chacha::ChaCha8Rng;
use serde_json::{Value, json};

use zcash_pool_migration::denomination::DenominationPlan;
use zcash_pool_migration::engine::{
    MigrationLockOwner, MigrationState, MigrationStatus, MigrationTransaction, MigrationTransferId,
    MigrationTxKind, MigrationTxState, PoolMigrationRead, PoolMigrationWrite, ProvedTransaction,
};
use zcash_pool_migration::preparation::{PrepInput, PrepOutput, PrepTransaction, PreparationPlan};
use zcash_pool_migration::satisfiability::{
    AdvanceConfig, DuenessTargets, ReorgSettleDepth, ReplanThreshold, StepSatisfiability,
    UnsatisfiableCause, UnsatisfiableKind, advance_migration,
};
use zcash_pool_migration::scheduling::AnchorBucketInterval;
use zcash_pool_migration::state::{AdvanceStep, Blocker, NextAction};
use zcash_pool_migration_memory::MockBackend;
use zcash_protocol::TxId;
use zcash_protocol::consensus::BlockHeight;
use zcash_protocol::value::Zatoshis;

/// Abstract height h of the model is the real height BASE + h.  BASE is chosen so that every
/// height in play lies strictly inside one bucket of both anchor grids used (144 and 288 blocks):
/// the overdue shift's anchor redraw then has no candidate and keeps the boundary, which is what
/// ShiftScheduleOp in the specification says.
const BASE: u32 = 1_008_000 + 20;
const ANCHOR_DEPTH: u32 = 10;

fn real_h(h: i64) -> BlockHeight {
    BlockHeight::from_u32((BASE as i64 + h) as u32)
}
fn opt_h(h: i64) -> Option<BlockHeight> {
    if h < 0 { None } else { Some(real_h(h)) }
}
fn abs_h(h: BlockHeight) -> i64 {
    u32::from(h) as i64 - BASE as i64
}
fn expiry_real(e: i64) -> BlockHeight {
    if e == 0 { BlockHeight::from_u32(0) } else { real_h(e) }
}
fn expiry_abs(e: BlockHeight) -> i64 {
    if u32::from(e) == 0 { 0 } else { abs_h(e) }
}
fn tid(i: usize) -> MigrationTransferId {
    MigrationTransferId::new(i as u32 - 1)
}
fn row_of(id: MigrationTransferId) -> usize {
    u32::from(id) as usize + 1
}
fn txid_of(i: usize) -> TxId {
    TxId::from_bytes([i as u8; 32])
}
fn zat(v: u64) -> Zatoshis {
    Zatoshis::from_u64(v).expect("valid amount")
}

/// The unmodelled payload of a row (bytes the state machine carries but never reads).
#[derive(Clone)]
struct Payload {
    pczt: Vec<u8>,
    lock: Option<MigrationLockOwner>,
}

fn default_payload(state_j: &Value) -> Vec<Payload> {
    let rows = state_j["tx"].as_array().unwrap();
    rows.iter()
        .enumerate()
        .map(|(k, r)| {
            let i = k + 1;
            let st = r[2].as_str().unwrap();
            Payload {
                pczt: vec![0xA0 + i as u8; 5 + i],
                // a row holds a lock token from proving on
                lock: if matches!(st, "P" | "B" | "M") { Some(MigrationLockOwner::from_bytes([0x10 + i as u8; 32])) } else { None },
            }
        })
        .collect()
}

fn kind_of(s: &str) -> UnsatisfiableKind {
    match s {
        "spent" => UnsatisfiableKind::InputsSpent,
        "inval" => UnsatisfiableKind::InputsInvalidated,
        "anchor" => UnsatisfiableKind::AnchorInvalidated,
        "inherited" => UnsatisfiableKind::Inherited,
        other => panic!("bad mark kind {other}"),
    }
}
fn kind_name(k: UnsatisfiableKind) -> &'static str {
    match k {
        UnsatisfiableKind::InputsSpent => "spent",
        UnsatisfiableKind::InputsInvalidated => "inval",
        UnsatisfiableKind::AnchorInvalidated => "anchor",
        UnsatisfiableKind::Inherited => "inherited",
        _ => "unknown",
    }
}
fn status_of(s: &str) -> MigrationStatus {
    MigrationStatus::try_from(s).unwrap_or_else(|_| panic!("bad status {s}"))
}

fn interval_for(tol: u64) -> AnchorBucketInterval {
    match tol {
        16 => AnchorBucketInterval::ZIP_318,
        33 => AnchorBucketInterval::custom(NonZeroU32::new(288).unwrap()),
        other => panic!("no interval for tolerance {other}"),
    }
}

/// Builds the real state a model state stands for.
fn build_state(sj: &Value, payload: &[Payload]) -> MigrationState {
    let rows = sj["tx"].as_array().unwrap();
    let cv: Vec<u64> = sj["cv"].as_array().unwrap().iter().map(|v| v.as_u64().unwrap() * 100_000).collect();
    let total: u64 = cv.iter().sum();
    let denominations = DenominationPlan::from_stored_parts(
        cv.iter().copied().map(zat).collect(),
        zat(15_000),
        Some(zat(777)),
        zat(30_000),
        zat(total + 15_000 * cv.len() as u64 + 30_777),
        zat(total),
    )
    .expect("consistent stored plan");
    let preparation = PreparationPlan::from_parts(
        vec![vec![PrepTransaction::from_parts(
            vec![PrepInput::Wallet { index: 0, value: zat(total + 50_000) }],
            vec![PrepOutput::Funding(zat(total)), PrepOutput::Change(zat(777))],
        )]],
        vec![(1, zat(115_000))],
    );
    let mut txs = Vec::new();
    for (k, r) in rows.iter().enumerate() {
        let i = k + 1;
        let kind = match r[0].as_str().unwrap() {
            "prep" => MigrationTxKind::Preparation { layer: 0, index: k },
            "xfer" => MigrationTxKind::Transfer { crossing: k },
            other => panic!("bad kind {other}"),
        };
        let deps: Vec<MigrationTransferId> = r[1].as_array().unwrap().iter().map(|d| tid(d.as_u64().unwrap() as usize)).collect();
        let txid = txid_of(i);
        let state = match r[2].as_str().unwrap() {
            "A" => MigrationTxState::AwaitingSignature,
            "S" => MigrationTxState::Signed,
            "P" => MigrationTxState::Proved,
            "B" => MigrationTxState::Broadcast { txid },
            "M" => MigrationTxState::Mined { txid, height: real_h(r[3].as_i64().unwrap()) },
            other => panic!("bad state {other}"),
        };
        let uh = r[7].as_i64().unwrap();
        let unsat = if uh < 0 { None } else { Some((real_h(uh), kind_of(r[8].as_str().unwrap()))) };
        txs.push(MigrationTransaction::from_parts(
            tid(i),
            kind,
            payload[k].pczt.clone(),
            deps,
            real_h(r[4].as_i64().unwrap()),
            expiry_real(r[5].as_i64().unwrap()),
            opt_h(r[6].as_i64().unwrap()),
            txid,
            state,
            payload[k].lock,
            unsat,
            vec![[i as u8; 32], [0x40 + i as u8; 32]],
            opt_h(r[9].as_i64().unwrap()),
        ));
    }
    MigrationState::from_parts(
        status_of(sj["status"].as_str().unwrap()),
        denominations,
        preparation,
        txs,
        interval_for(sj["tol"].as_u64().unwrap()),
        ReplanThreshold::new(sj["pct"].as_u64().unwrap() as u8).expect("pct <= 100"),
    )
}

/// The model-shaped projection of a real state (for diagnostics and for the direct checks).
fn project(s: &MigrationState) -> Value {
    let rows: Vec<Value> = s
        .transactions()
        .iter()
        .map(|t| {
            let (st, mh) = match t.state() {
                MigrationTxState::AwaitingSignature => ("A", -1),
                MigrationTxState::Signed => ("S", -1),
                MigrationTxState::Proved => ("P", -1),
                MigrationTxState::Broadcast { .. } => ("B", -1),
                MigrationTxState::Mined { height, .. } => ("M", abs_h(height)),
            };
            json!([
                if matches!(t.kind(), MigrationTxKind::Transfer { .. }) { "xfer" } else { "prep" },
                t.depends_on().iter().map(|d| row_of(*d)).collect::<Vec<_>>(),
                st,
                mh,
                abs_h(t.scheduled_height()),
                expiry_abs(t.expiry_height()),
                t.anchor_boundary().map(abs_h).unwrap_or(-1),
                t.unsatisfiable_at().map(abs_h).unwrap_or(-1),
                t.unsatisfiable_kind().map(kind_name).unwrap_or("none"),
                t.broadcast_failure_at().map(abs_h).unwrap_or(-1),
            ])
        })
        .collect();
    json!({"status": s.status().wire_name(), "pct": s.replan_threshold().percent(), "tx": rows})
}

// ------------------------------------------------------------------------------------------------
// the scripted store: the environment of one drive call

struct ScriptedStore {
    as_of: BlockHeight,
    ans: Vec<String>,         // per row (0-based)
    mined: Vec<Option<BlockHeight>>,
    stored: Option<MigrationState>,
    replaced: usize,
    asked: std::cell::RefCell<Vec<usize>>,        // rows put to the oracle, in order
    asked_mined: std::cell::RefCell<Vec<usize>>,
}

impl ScriptedStore {
    fn answer(&self, k: usize) -> StepSatisfiability {
        let as_of_height = self.as_of;
        match self.ans[k].as_str() {
            "sat" => StepSatisfiability::Satisfiable { as_of_height },
            "notyet" => StepSatisfiability::NotYetSatisfiable { as_of_height },
            "spent" => StepSatisfiability::Unsatisfiable { cause: UnsatisfiableCause::InputsSpent { nullifiers: vec![[9; 32]] }, as_of_height },
            "inval" => StepSatisfiability::Unsatisfiable { cause: UnsatisfiableCause::InputsInvalidated { anchor: [7; 32] }, as_of_height },
            "anchor" => StepSatisfiability::Unsatisfiable { cause: UnsatisfiableCause::AnchorInvalidated, as_of_height },
            "expired" => StepSatisfiability::Unsatisfiable { cause: UnsatisfiableCause::Expired, as_of_height },
            other => panic!("bad answer {other}"),
        }
    }
}

impl PoolMigrationRead for ScriptedStore {
    type Error = String;
    fn get_migration(&self) -> Result<Option<MigrationState>, String> {
        Ok(self.stored.clone().filter(|s| !s.is_terminal()))
    }
    fn check_step_satisfiability(&self, tx: &MigrationTransaction, _settle: ReorgSettleDepth) -> Result<StepSatisfiability, String> {
        let k = u32::from(tx.id()) as usize;
        self.asked.borrow_mut().push(k + 1);
        Ok(self.answer(k))
    }
    fn mined_height(&self, txid: TxId) -> Result<Option<BlockHeight>, String> {
        let b: &[u8; 32] = txid.as_ref();
        let i = b[0] as usize;
        if i == 0 || i > self.mined.len() || b.iter().any(|x| *x as usize != i) {
            return Ok(None);
        }
        self.asked_mined.borrow_mut().push(i);
        Ok(self.mined[i - 1])
    }
}

impl PoolMigrationWrite for ScriptedStore {
    fn replace_migration(&mut self, state: &MigrationState) -> Result<(), String> {
        self.replaced += 1;
        self.stored = Some(state.clone());
        Ok(())
    }
    fn update_transaction(&mut self, _id: MigrationTransferId, _state: MigrationTxState) -> Result<(), String> {
        Err("update_transaction is not part of the drive call".into())
    }
    fn store_proved_transaction(&mut self, state: &mut MigrationState, proven: ProvedTransaction) -> Result<(), String> {
        proven.apply(state);
        self.replace_migration(state)
    }
}

// ------------------------------------------------------------------------------------------------
// the property's clauses, evaluated directly on real values

fn is_mined(t: &MigrationTransaction) -> bool {
    matches!(t.state(), MigrationTxState::Mined { .. })
}
fn find<'a>(s: &'a MigrationState, id: MigrationTransferId) -> Option<&'a MigrationTransaction> {
    s.transactions().iter().find(|t| t.id() == id)
}
fn deps_all_mined(s: &MigrationState, t: &MigrationTransaction) -> bool {
    t.depends_on().iter().all(|d| find(s, *d).map(is_mined).unwrap_or(false))
}
fn expired_at(t: &MigrationTransaction, target: BlockHeight) -> bool {
    !is_mined(t) && u32::from(t.expiry_height()) != 0 && t.expiry_height() < target
}
/// rows that can never mine: marked or expired at the scanned target, closed over dependents
fn cannot_mine(s: &MigrationState, scanned: BlockHeight) -> BTreeSet<MigrationTransferId> {
    let mut dead: BTreeSet<MigrationTransferId> = s
        .transactions()
        .iter()
        .filter(|t| !is_mined(t) && (t.unsatisfiable().is_some() || expired_at(t, scanned)))
        .map(|t| t.id())
        .collect();
    loop {
        let more: Vec<MigrationTransferId> = s
            .transactions()
            .iter()
            .filter(|t| !is_mined(t) && !dead.contains(&t.id()) && t.depends_on().iter().any(|d| dead.contains(d)))
            .map(|t| t.id())
            .collect();
        if more.is_empty() {
            return dead;
        }
        dead.extend(more);
    }
}
fn rank(st: MigrationTxState) -> u8 {
    match st {
        MigrationTxState::AwaitingSignature => 1,
        MigrationTxState::Signed => 2,
        MigrationTxState::Proved => 3,
        MigrationTxState::Broadcast { .. } => 4,
        MigrationTxState::Mined { .. } => 5,
    }
}
fn policy_terminal(s: MigrationStatus) -> bool {
    matches!(s, MigrationStatus::Failed | MigrationStatus::Superseded | MigrationStatus::Cancelled)
}

struct Env {
    scanned: BlockHeight,
    effective: BlockHeight,
    as_of: BlockHeight,
    ans: Vec<String>,
}

/// Clauses about the step a drive call surfaced; returns the names of the broken ones.
fn advance_clauses(pre: &MigrationState, post: &MigrationState, step: &AdvanceStep, env: &Env, store: &ScriptedStore) -> Vec<String> {
    let mut bad = vec![];
    let dead = cannot_mine(post, env.scanned);
    let vouched = |id: MigrationTransferId| matches!(env.ans[u32::from(id) as usize].as_str(), "sat" | "expired");
    let asked = |id: MigrationTransferId| store.asked.borrow().contains(&row_of(id));
    match step {
        AdvanceStep::Broadcast { id } => match find(post, *id) {
            None => bad.push("BroadcastSafe:unknown-id".into()),
            Some(t) => {
                if !matches!(t.state(), MigrationTxState::Proved) { bad.push("BroadcastSafe:not-proved".into()) }
                if !deps_all_mined(post, t) { bad.push("BroadcastSafe:deps-unmined".into()) }
                if t.scheduled_height() > env.effective { bad.push("BroadcastSafe:not-due".into()) }
                if expired_at(t, env.effective) { bad.push("BroadcastSafe:expired".into()) }
                if t.broadcast_failure_at().is_some() { bad.push("BroadcastSafe:report-stands".into()) }
                if t.unsatisfiable().is_some() || dead.contains(id) { bad.push("BroadcastSafe:dead".into()) }
                if post.is_terminal() { bad.push("BroadcastSafe:terminal".into()) }
                if !asked(*id) || !vouched(*id) { bad.push("BroadcastSafe:not-vouched".into()) }
            }
        },
        AdvanceStep::Prove { transactions } => {
            if transactions.is_empty() { bad.push("ProveSafe:empty".into()) }
            let ids: HashSet<_> = transactions.iter().map(|p| p.id()).collect();
            if ids.len() != transactions.len() { bad.push("ProveSafe:duplicate".into()) }
            if post.is_terminal() { bad.push("ProveSafe:terminal".into()) }
            for p in transactions {
                match find(post, p.id()) {
                    None => bad.push("ProveSafe:unknown-id".into()),
                    Some(t) => {
                        if p.kind() != t.kind() { bad.push("ProveSafe:kind".into()) }
                        if !matches!(t.state(), MigrationTxState::Signed) { bad.push("ProveSafe:not-signed".into()) }
                        if !deps_all_mined(post, t) { bad.push("ProveSafe:deps-unmined".into()) }
                        if dead.contains(&t.id()) { bad.push("ProveSafe:dead".into()) }
                        if expired_at(t, env.effective) { bad.push("ProveSafe:expired".into()) }
                        match (t.kind(), t.anchor_boundary()) {
                            (MigrationTxKind::Transfer { .. }, Some(b)) => {
                                if u32::from(b) + ANCHOR_DEPTH >= u32::from(env.scanned) { bad.push("ProveSafe:boundary-unsettled".into()) }
                            }
                            _ => {
                                if t.scheduled_height() > env.effective { bad.push("ProveSafe:not-due".into()) }
                            }
                        }
                        if !asked(t.id()) || !vouched(t.id()) { bad.push("ProveSafe:not-vouched".into()) }
                    }
                }
            }
        }
        AdvanceStep::Rebuild { id } => match find(post, *id) {
            None => bad.push("RebuildSafe:unknown-id".into()),
            Some(t) => {
                if !matches!(t.kind(), MigrationTxKind::Transfer { .. }) { bad.push("RebuildSafe:not-transfer".into()) }
                if !expired_at(t, env.scanned) { bad.push("RebuildSafe:not-expired-at-scanned".into()) }
                if t.unsatisfiable().is_some() { bad.push("RebuildSafe:marked".into()) }
                if t.depends_on().iter().any(|d| dead.contains(d)) { bad.push("RebuildSafe:dead-dependency".into()) }
                if post.is_terminal() { bad.push("RebuildSafe:terminal".into()) }
                if !asked(*id) || !vouched(*id) { bad.push("RebuildSafe:not-vouched".into()) }
            }
        },
        AdvanceStep::Reevaluate => {
            if !post.transactions().iter().any(|t| t.broadcast_failure_at().is_some_and(|r| env.as_of < r)) {
                bad.push("ReevaluateOnlyOnReport".into())
            }
        }
        AdvanceStep::Complete => {
            if !post.is_terminal() { bad.push("CompleteOnlyWhenDone".into()) }
        }
        AdvanceStep::Waiting | AdvanceStep::Replan => {}
    }
    // never silently holding value that can no longer move
    let unmined: Vec<&MigrationTransaction> = post.transactions().iter().filter(|t| !is_mined(t)).collect();
    let none_deferred = !store.asked.borrow().iter().any(|i| env.ans[*i - 1] == "notyet");
    if !post.is_terminal()
        && !unmined.is_empty()
        && unmined.iter().all(|t| dead.contains(&t.id()))
        && none_deferred
        && unmined.iter().all(|t| t.broadcast_failure_at().is_none())
        && !matches!(step, AdvanceStep::Replan | AdvanceStep::Rebuild { .. })
    {
        bad.push("NoSilentStrand".into());
    }
    // everything discovered is durable before the step is surfaced
    if post != pre {
        if store.stored.as_ref() != Some(post) { bad.push("PersistedBeforeSurfaced".into()) }
    }
    bad
}

/// Clauses every event must respect (life cycle direction, terminal statuses, clean mined rows, marks).
fn step_clauses(pre: &MigrationState, post: &MigrationState, ev: &Value, env: Option<&Env>) -> Vec<String> {
    let mut bad = vec![];
    let op = ev["op"].as_str().unwrap();
    let trunc = if op == "truncate" { Some(real_h_trunc(ev["h"].as_i64().unwrap())) } else { None };
    if pre.transactions().len() != post.transactions().len() {
        bad.push("Frame:row-count".into());
        return bad;
    }
    let mut unmined_by_rollback = false;
    for (a, b) in pre.transactions().iter().zip(post.transactions().iter()) {
        if a.id() != b.id() || a.kind() != b.kind() || a.depends_on() != b.depends_on() || a.expiry_height() != b.expiry_height()
            || a.txid() != b.txid() || a.spend_nullifiers() != b.spend_nullifiers()
        {
            bad.push("Frame:static-field".into());
        }
        let rolled_back = match (trunc, a.state()) {
            (Some(h), MigrationTxState::Mined { height, .. }) => height > h,
            _ => false,
        };
        if rolled_back {
            unmined_by_rollback = true;
            if !matches!(b.state(), MigrationTxState::Broadcast { txid } if txid == a.txid()) { bad.push("Forward:rollback-must-unmine".into()) }
        } else {
            if rank(b.state()) < rank(a.state()) { bad.push("Forward:moved-backwards".into()) }
            if let (MigrationTxState::Mined { height: h1, .. }, MigrationTxState::Mined { height: h2, .. }) = (a.state(), b.state()) {
                if h1 != h2 { bad.push("Forward:mined-height-changed".into()) }
            }
        }
        if is_mined(b) && (b.unsatisfiable().is_some() || b.broadcast_failure_at().is_some()) && !(is_mined(a) && (a.unsatisfiable().is_some() || a.broadcast_failure_at().is_some())) {
            bad.push("MinedClean".into());
        }
        // marks
        match (a.unsatisfiable(), b.unsatisfiable()) {
            (None, Some((h, k))) => {
                if !matches!(op, "record" | "advance") || is_mined(b) {
                    bad.push("MarksBacked:unexpected-mark".into());
                } else if let Some(env) = env {
                    if k == UnsatisfiableKind::Inherited {
                        let backed = b.depends_on().iter().filter_map(|d| find(post, *d)).any(|d| {
                            !is_mined(d) && (d.unsatisfiable_at() == Some(h) || (expired_at(d, env.scanned) && d.expiry_height() == h))
                        });
                        if !backed { bad.push("MarksBacked:inherited-unbacked".into()) }
                    } else {
                        let row = u32::from(b.id()) as usize;
                        if h != env.as_of || kind_name(k) != env.ans[row] { bad.push("MarksBacked:direct-stamp".into()) }
                    }
                }
            }
            (Some(m1), Some(m2)) => {
                if m1 != m2 { bad.push("MarksBacked:restamped".into()) }
            }
            (Some((h, _)), None) => {
                let by_mining = is_mined(b) && !is_mined(a);
                let by_rollback = trunc.is_some_and(|t| h > t);
                if !by_mining && !by_rollback { bad.push("MarksBacked:mark-lost".into()) }
            }
            (None, None) => {}
        }
        if let (Some(t), Some((h, _))) = (trunc, a.unsatisfiable()) {
            if h > t && b.unsatisfiable().is_some() { bad.push("MarksBacked:rollback-keeps-mark".into()) }
        }
        if let (Some(t), Some(r)) = (trunc, a.broadcast_failure_at()) {
            if (r > t) != b.broadcast_failure_at().is_none() { bad.push("MarksBacked:rollback-report".into()) }
        }
        if a.scheduled_height() != b.scheduled_height() && (op != "advance" || b.scheduled_height() < a.scheduled_height()) {
            bad.push("Frame:schedule".into());
        }
    }
    // terminal statuses
    if policy_terminal(pre.status()) && post.status() != pre.status() { bad.push("TerminalSticky:policy".into()) }
    if pre.status() == MigrationStatus::Complete && post.status() != MigrationStatus::Complete {
        if !(trunc.is_some() && unmined_by_rollback && post.status() == MigrationStatus::InProgress) {
            bad.push("TerminalSticky:complete".into());
        }
    }
    if pre.denominations() != post.denominations() || pre.preparation() != post.preparation()
        || pre.anchor_bucket_interval() != post.anchor_bucket_interval() || pre.replan_threshold() != post.replan_threshold()
    {
        bad.push("Frame:plan".into());
    }
    bad
}

fn real_h_trunc(h: i64) -> BlockHeight {
    real_h(h)
}

// ------------------------------------------------------------------------------------------------
// persistence

struct Sqlite {
    _dir: tempfile::TempDir,
    conn: rusqlite::Connection,
    account: zcash_client_sqlite::AccountUuid,
    /// model of the table: statuses of the rows persisted so far, oldest first
    rows: Vec<MigrationStatus>,
    trips: usize,
}

type Net = zcash_protocol::local_consensus::LocalNetwork;
fn network() -> Net {
    zcash_client_backend::data_api::testing::TestBuilder::<(), ()>::DEFAULT_NETWORK
}

impl Sqlite {
    fn open() -> Result<Sqlite, String> {
        use secrecy::SecretVec;
        use zcash_client_backend::data_api::{AccountBirthday, WalletWrite, chain::ChainState};
        use zcash_client_sqlite::{WalletDb, util::SystemClock, wallet::init::init_wallet_db};
        let dir = tempfile::tempdir().map_err(|e| e.to_string())?;
        let path = dir.path().join("wallet.db");
        let mut db = WalletDb::for_path(&path, network(), SystemClock, rand::rngs::OsRng).map_err(|e| e.to_string())?;
        init_wallet_db(&mut db, None).map_err(|e| format!("init: {e:?}"))?;
        let birthday = AccountBirthday::from_parts(
            ChainState::empty(BlockHeight::from_u32(BASE - 100), zcash_primitives::block::BlockHash([0; 32])),
            None,
        );
        let seed = SecretVec::new(vec![7u8; 32]);
        let (account, _usk) = db.create_account("c18", &seed, &birthday, None).map_err(|e| format!("create_account: {e:?}"))?;
        drop(db);
        let conn = rusqlite::Connection::open(&path).map_err(|e| e.to_string())?;
        rusqlite::vtab::array::load_module(&conn).map_err(|e| e.to_string())?;
        Ok(Sqlite { _dir: dir, conn, account, rows: vec![], trips: 0 })
    }

    /// `update_transaction` rewrites one row's life-cycle state in place; `cancel_migration` moves the
    /// pending record to Cancelled (kept as history, nothing else changed) and classifies its rows.
    fn update_then_cancel(&mut self, s: &MigrationState) -> Vec<String> {
        use zcash_client_sqlite::pool_migration::orchard_ironwood::PoolMigrations;
        use zcash_client_sqlite::util::SystemClock;
        let mut bad = vec![];
        let account = self.account;
        let k = self.trips % s.transactions().len();
        let row = &s.transactions()[k];
        let new_state = match row.state() {
            MigrationTxState::Proved => MigrationTxState::Broadcast { txid: row.txid() },
            MigrationTxState::Broadcast { txid } => MigrationTxState::Mined { txid, height: real_h(23) },
            MigrationTxState::Mined { txid, .. } => MigrationTxState::Broadcast { txid },
            other => other,
        };
        let rebuild = |status: MigrationStatus, upd: Option<(usize, MigrationTxState)>| {
            let txs = s
                .transactions()
                .iter()
                .enumerate()
                .map(|(j, t)| {
                    MigrationTransaction::from_parts(
                        t.id(), t.kind(), t.pczt().clone(), t.depends_on().clone(), t.scheduled_height(), t.expiry_height(),
                        t.anchor_boundary(), t.txid(),
                        match upd { Some((u, st)) if u == j => st, _ => t.state() },
                        t.lock_owner(), t.unsatisfiable(), t.spend_nullifiers().clone(), t.broadcast_failure_at(),
                    )
                })
                .collect();
            MigrationState::from_parts(status, s.denominations().clone(), s.preparation().clone(), txs, s.anchor_bucket_interval(), s.replan_threshold())
        };
        let r = guarded(|| -> Result<_, String> {
            let mut store = PoolMigrations::for_account(network(), SystemClock, &mut self.conn, account).map_err(|e| format!("{e:?}"))?;
            store.update_transaction(row.id(), new_state).map_err(|e| format!("update: {e:?}"))?;
            let after_update = store.get_migration().map_err(|e| format!("get: {e:?}"))?;
            let outcome = store.cancel_migration().map_err(|e| format!("cancel: {e:?}"))?;
            let got = store.get_migration().map_err(|e| format!("get: {e:?}"))?;
            let latest = store.latest_migration().map_err(|e| format!("latest: {e:?}"))?;
            let n = store.list_migrations().map_err(|e| format!("list: {e:?}"))?.len();
            Ok((after_update, outcome, got, latest, n))
        });
        match r {
            Err(p) => bad.push(format!("Persist:sqlite-panic:{p}")),
            Ok(Err(e)) => bad.push(format!("Persist:sqlite-error:{e}")),
            Ok(Ok((after_update, outcome, got, latest, n))) => {
                if after_update != Some(rebuild(s.status(), Some((k, new_state)))) { bad.push("Persist:sqlite-update-transaction".into()) }
                if got.is_some() { bad.push("Persist:sqlite-cancel-still-pending".into()) }
                if latest != Some(rebuild(MigrationStatus::Cancelled, Some((k, new_state)))) { bad.push("Persist:sqlite-cancel-record".into()) }
                if n != self.rows.len() { bad.push("Persist:sqlite-cancel-history-rows".into()) }
                let ids = |f: &dyn Fn(MigrationTxState) -> bool| -> Vec<MigrationTransferId> {
                    s.transactions().iter().enumerate().filter(|(j, t)| f(if *j == k { new_state } else { t.state() })).map(|(_, t)| t.id()).collect()
                };
                if outcome.in_flight() != ids(&|st| matches!(st, MigrationTxState::Broadcast { .. })).as_slice()
                    || outcome.mined() != ids(&|st| matches!(st, MigrationTxState::Mined { .. })).as_slice()
                    || outcome.released() != ids(&|st| !matches!(st, MigrationTxState::Broadcast { .. } | MigrationTxState::Mined { .. })).as_slice()
                {
                    bad.push("Persist:sqlite-cancel-outcome".into());
                }
            }
        }
        if let Some(p) = self.rows.iter().position(|st| !st.is_terminal()) {
            self.rows[p] = MigrationStatus::Cancelled;
        }
        bad
    }

    /// Persists `s` and reads it back; returns the names of the broken persistence clauses.
    fn round_trip(&mut self, s: &MigrationState) -> Vec<String> {
        use zcash_client_sqlite::pool_migration::orchard_ironwood::PoolMigrations;
        use zcash_client_sqlite::util::SystemClock;
        let mut bad = vec![];
        let account = self.account;
        let r = guarded(|| -> Result<(Option<MigrationState>, Option<MigrationState>, usize), String> {
            let mut store = PoolMigrations::for_account(network(), SystemClock, &mut self.conn, account).map_err(|e| format!("{e:?}"))?;
            store.replace_migration(s).map_err(|e| format!("replace: {e:?}"))?;
            let got = store.get_migration().map_err(|e| format!("get: {e:?}"))?;
            let latest = store.latest_migration().map_err(|e| format!("latest: {e:?}"))?;
            let n = store.list_migrations().map_err(|e| format!("list: {e:?}"))?.len();
            Ok((got, latest, n))
        });
        // the store's table as MigrationStore.tla describes it: the pending row (if any) is
        // rewritten in place, otherwise a new row is appended; terminal rows are history
        match self.rows.iter().position(|st| !st.is_terminal()) {
            Some(k) => self.rows[k] = s.status(),
            None => self.rows.push(s.status()),
        }
        match r {
            Err(p) => bad.push(format!("Persist:sqlite-panic:{p}")),
            Ok(Err(e)) => bad.push(format!("Persist:sqlite-error:{e}")),
            Ok(Ok((got, latest, n))) => {
                let want = if s.is_terminal() { None } else { Some(s.clone()) };
                if got != want { bad.push("Persist:sqlite-get".into()) }
                if latest.as_ref() != Some(s) && !(s.is_terminal() && false) {
                    // the latest record is the one just written unless an older pending row was rewritten
                    // in place while newer terminal history exists -- impossible: a pending row is always the newest
                    bad.push("Persist:sqlite-latest".into())
                }
                if n != self.rows.len() { bad.push(format!("Persist:sqlite-history-rows:{}!={}", n, self.rows.len())) }
            }
        }
        // Update and Cancel of MigrationStore.tla, now and then, on a pending record
        self.trips += 1;
        if !s.is_terminal() && bad.is_empty() && !s.transactions().is_empty() && self.trips % 5 == 0 {
            bad.extend(self.update_then_cancel(s));
        }
        // at most one non-terminal migration per account, read straight from the table
        let terminal: Vec<String> = MigrationStatus::terminal().map(|s| format!("'{}'", s.wire_name())).collect();
        let q = format!(
            "SELECT COUNT(*) FROM orchard_ironwood_migrations m JOIN accounts a ON a.id = m.account_id WHERE a.uuid = ?1 AND m.status NOT IN ({})",
            terminal.join(", ")
        );
        match self.conn.query_row(&q, rusqlite::params![self.account.expose_uuid()], |r| r.get::<_, i64>(0)) {
            Ok(c) => {
                let want = self.rows.iter().filter(|st| !st.is_terminal()).count() as i64;
                if c > 1 { bad.push("Persist:two-pending-migrations".into()) }
                if c != want { bad.push(format!("Persist:pending-count:{c}!={want}")) }
            }
            Err(e) => bad.push(format!("Persist:sqlite-count:{e}")),
        }
        bad
    }
}

fn memory_round_trip(s: &MigrationState) -> Vec<String> {
    let mut bad = vec![];
    let r = guarded(|| {
        let mut m = MockBackend::new(vec![], BASE);
        m.replace_migration(s).unwrap();
        m.get_migration().unwrap()
    });
    match r {
        Err(p) => bad.push(format!("Persist:memory-panic:{p}")),
        Ok(got) => {
            let want = if s.is_terminal() { None } else { Some(s.clone()) };
            if got != want { bad.push("Persist:memory-get".into()) }
        }
    }
    bad
}

// ------------------------------------------------------------------------------------------------

fn step_json(step: &AdvanceStep) -> (String, Vec<usize>) {
    match step {
        AdvanceStep::Prove { transactions } => ("prove".into(), transactions.iter().map(|p| row_of(p.id())).collect()),
        AdvanceStep::Broadcast { id } => ("broadcast".into(), vec![row_of(*id)]),
        AdvanceStep::Rebuild { id } => ("rebuild".into(), vec![row_of(*id)]),
        AdvanceStep::Replan => ("replan".into(), vec![]),
        AdvanceStep::Reevaluate => ("reevaluate".into(), vec![]),
        AdvanceStep::Waiting => ("waiting".into(), vec![]),
        AdvanceStep::Complete => ("complete".into(), vec![]),
    }
}

fn observers(s: &MigrationState, ts: BlockHeight, te: BlockHeight) -> Value {
    let targets = DuenessTargets::new(ts, te);
    let statuses: Vec<Value> = s
        .transaction_statuses(targets)
        .iter()
        .map(|st| {
            let action = match st.action() {
                None => "none",
                Some(NextAction::Prove) => "prove",
                Some(NextAction::Broadcast) => "broadcast",
            };
            let blocker = match st.blocked_on() {
                None => "none",
                Some(Blocker::Dependencies) => "dependencies",
                Some(Blocker::Schedule) => "schedule",
                Some(Blocker::AnchorBoundary) => "anchor_boundary",
                Some(Blocker::Signature) => "signature",
                Some(Blocker::ExpiryImminent) => "expiry_imminent",
                Some(Blocker::Expired) => "expired",
                Some(Blocker::AwaitingReevaluation) => "awaiting_reevaluation",
                Some(Blocker::Unsatisfiable) => "unsatisfiable",
            };
            json!([st.ready(), action, blocker])
        })
        .collect();
    json!({
        "terminal": s.is_terminal(),
        "replan": s.replan_required(),
        "expired": s.expired_transactions(targets).iter().map(|d| row_of(*d)).collect::<Vec<_>>(),
        "status": statuses,
    })
}

struct Outcome {
    problems: Vec<(String, String)>, // (class, detail)
    step: String,
}

fn run_edge(edge: &Value, sqlite: Option<&mut Sqlite>, seed: u64) -> Outcome {
    let mut problems: Vec<(String, String)> = vec![];
    let ev = &edge["ev"];
    let op = ev["op"].as_str().unwrap().to_string();
    let payload = default_payload(&edge["pre"]);
    let pre = build_state(&edge["pre"], &payload);
    let mut exp_payload = payload.clone();
    let i = ev["i"].as_u64().unwrap() as usize;
    let n = pre.transactions().len();
    let new_bytes = vec![0xEEu8, i as u8, 0x01, 0x02];

    let ts = real_h(ev["ts"].as_i64().unwrap());
    let est = real_h(ev["est"].as_i64().unwrap());
    let targets = DuenessTargets::new(ts, est);
    let as_of = real_h(ev["asOf"].as_i64().unwrap());
    let ans: Vec<String> = ev["ans"].as_array().unwrap().iter().map(|a| a.as_str().unwrap().to_string()).collect();
    let env = Env { scanned: targets.scanned(), effective: targets.effective(), as_of, ans: ans.clone() };
    let mut store = ScriptedStore {
        as_of,
        ans: ans.clone(),
        mined: ev["mined"].as_array().unwrap().iter().map(|m| opt_h(m.as_i64().unwrap())).collect(),
        stored: None,
        replaced: 0,
        asked: Default::default(),
        asked_mined: Default::default(),
    };

    let mut state = pre.clone();
    let mut step_name = "none".to_string();
    let mut got_ret = json!({});
    let mut advance_step: Option<AdvanceStep> = None;
    let res = guarded(|| -> Result<(), String> {
        match op.as_str() {
            "mark_broadcast" => state.mark_broadcast(tid(i)),
            "mark_mined" => state.mark_mined(tid(i), real_h(ev["h"].as_i64().unwrap())),
            "report" => state.report_broadcast_failure(tid(i), real_h(ev["h"].as_i64().unwrap())),
            "truncate" => state.truncate_to_height(real_h(ev["h"].as_i64().unwrap())),
            "sign" => {
                let ok = state.apply_signature(tid(i), new_bytes.clone());
                got_ret = json!({"ok": ok});
            }
            "supersede" => state.mark_superseded(),
            "cancel" => state.mark_cancelled(),
            "recompute" => state.recompute_status(),
            "prove" => {
                // a proof stored through the store seam (ProvedTransaction::apply + persist)
                let mut m = MockBackend::new(vec![], BASE);
                m.store_proved_transaction(&mut state, ProvedTransaction::from_parts(tid(i), new_bytes.clone())).unwrap();
                if m.get_migration().unwrap() != Some(state.clone()).filter(|s| !s.is_terminal()) {
                    return Err("store_proved_transaction did not persist the state it returned".into());
                }
            }
            "record" => {
                let dets: Vec<(MigrationTransferId, StepSatisfiability)> = ev["sel"]
                    .as_array()
                    .unwrap()
                    .iter()
                    .map(|r| {
                        let r = r.as_u64().unwrap() as usize;
                        (tid(r), store.answer(r - 1))
                    })
                    .collect();
                state.record_satisfiability(targets, &dets);
            }
            "advance" => {
                let mut rng = ChaCha8Rng::seed_from_u64(seed);
                let adv = advance_migration(&mut store, &mut state, targets, &AdvanceConfig::new(ReorgSettleDepth::new(10)), &mut rng)?;
                let (k, ids) = step_json(adv.step());
                got_ret = json!({"step": k, "ids": ids, "dirty": store.replaced > 0, "next_none": adv.next().is_none()});
                advance_step = Some(adv.step().clone());
            }
            other => return Err(format!("unknown op {other}")),
        }
        Ok(())
    });
    match res {
        Err(p) => {
            problems.push(("panic".into(), p));
            return Outcome { problems, step: step_name };
        }
        Ok(Err(e)) => {
            problems.push(("error".into(), e));
            return Outcome { problems, step: step_name };
        }
        Ok(Ok(())) => {}
    }

    // (1) the state the specification predicts
    match op.as_str() {
        "sign" => {
            if edge["ret"]["ok"].as_bool().unwrap() { exp_payload[i - 1].pczt = new_bytes.clone() }
            if got_ret["ok"] != edge["ret"]["ok"] {
                problems.push(("conformance".into(), format!("apply_signature returned {} expected {}", got_ret["ok"], edge["ret"]["ok"])));
            }
        }
        "prove" => {
            exp_payload[i - 1].pczt = new_bytes.clone();
            exp_payload[i - 1].lock = None;
        }
        _ => {}
    }
    let expected = build_state(&edge["post"], &exp_payload);
    if state != expected {
        problems.push(("conformance".into(), format!("state after {} differs: got {} expected {}", op, project(&state), project(&expected))));
    }
    if op == "advance" {
        let want = &edge["ret"];
        step_name = got_ret["step"].as_str().unwrap().to_string();
        if got_ret["step"] != want["step"] || got_ret["ids"] != want["ids"] {
            problems.push(("conformance".into(), format!("step {} {} expected {} {}", got_ret["step"], got_ret["ids"], want["step"], want["ids"])));
        }
        if got_ret["dirty"] != want["dirty"] {
            problems.push(("conformance".into(), format!("replace_migration called={} expected dirty={}", got_ret["dirty"], want["dirty"])));
        }
        if store.replaced > 1 {
            problems.push(("conformance".into(), format!("replace_migration called {} times in one call", store.replaced)));
        }
        let st = advance_step.as_ref().unwrap();
        if matches!(st, AdvanceStep::Complete | AdvanceStep::Replan | AdvanceStep::Reevaluate | AdvanceStep::Rebuild { .. }) && got_ret["next_none"] != json!(true) {
            problems.push(("conformance".into(), "a step that decides what follows carried an outlook".into()));
        }
        // (2) the property's clauses directly on what the real code returned
        for c in advance_clauses(&pre, &state, st, &env, &store) {
            problems.push(("safety".into(), c));
        }
        // the same step is offered until the state records its completion
        let mut again = state.clone();
        let mut store2 = ScriptedStore { as_of, ans: ans.clone(), mined: store.mined.clone(), stored: None, replaced: 0, asked: Default::default(), asked_mined: Default::default() };
        let mut rng = ChaCha8Rng::seed_from_u64(seed);
        match guarded(|| advance_migration(&mut store2, &mut again, targets, &AdvanceConfig::new(ReorgSettleDepth::new(10)), &mut rng)) {
            Ok(Ok(adv2)) => {
                if adv2.step() != st || again != state || store2.replaced != 0 {
                    problems.push(("safety".into(), format!("Idempotent: second call gave {:?}", step_json(adv2.step()))));
                }
            }
            Ok(Err(e)) => problems.push(("error".into(), e)),
            Err(p) => problems.push(("panic".into(), p)),
        }
    }
    let env_opt = if matches!(op.as_str(), "advance" | "record") { Some(&env) } else { None };
    for c in step_clauses(&pre, &state, ev, env_opt) {
        problems.push(("safety".into(), c));
    }

    // (3) observers
    let obs = &edge["obs"];
    let ots = real_h(obs["ts"].as_i64().unwrap());
    let ote = real_h(obs["te"].as_i64().unwrap());
    match guarded(|| observers(&state, ots, ote)) {
        Err(p) => problems.push(("panic".into(), p)),
        Ok(got) => {
            for key in ["terminal", "replan", "expired", "status"] {
                if got[key] != obs[key] {
                    problems.push(("conformance".into(), format!("observer {} at ({},{}) = {} expected {}", key, obs["ts"], obs["te"], got[key], obs[key])));
                }
            }
            // a row reported ready to broadcast satisfies the broadcast clauses
            let t = DuenessTargets::new(ots, ote);
            for st in state.transaction_statuses(t) {
                if st.ready() && st.action() == Some(NextAction::Broadcast) {
                    let row = find(&state, st.id()).unwrap();
                    if !matches!(row.state(), MigrationTxState::Proved) || !deps_all_mined(&state, row) || row.scheduled_height() > t.effective()
                        || expired_at(row, t.effective()) || row.unsatisfiable().is_some() || row.broadcast_failure_at().is_some()
                    {
                        problems.push(("safety".into(), "StatusBroadcastReady".into()));
                    }
                }
            }
        }
    }

    // (4) persistence: a save/load cycle of the state at every step
    for c in memory_round_trip(&state) {
        problems.push(("persistence".into(), c));
    }
    if let Some(sq) = sqlite {
        for c in sq.round_trip(&state) {
            problems.push(("persistence".into(), c));
        }
    }
    let _ = n;
    Outcome { problems, step: step_name }
}

/// States no scenario produces: the crate's own generators (inputs only), through both stores.
fn arb_round_trips(n: usize, seed: u64, sqlite: &mut Option<Sqlite>) -> (usize, Vec<Value>) {
    use proptest::strategy::{Strategy, ValueTree};
    use proptest::test_runner::{Config, RngAlgorithm, TestRng, TestRunner};
    let mut seed_bytes = [0u8; 32];
    seed_bytes[..8].copy_from_slice(&seed.to_le_bytes());
    let mut runner = TestRunner::new_with_rng(Config::default(), TestRng::from_seed(RngAlgorithm::ChaCha, &seed_bytes));
    let strat = zcash_pool_migration::testing::arb_migration_state();
    let mut bad = vec![];
    let mut done = 0;
    for k in 0..n {
        let s = match strat.new_tree(&mut runner) {
            Ok(t) => t.current(),
            Err(_) => continue,
        };
        done += 1;
        let mut problems = memory_round_trip(&s);
        if let Some(sq) = sqlite.as_mut() {
            problems.extend(sq.round_trip(&s));
        }
        for p in problems {
            bad.push(json!({"class": "persistence", "detail": p, "arb_index": k, "arb_seed": seed, "state": format!("{:?}", s).chars().take(1500).collect::<String>()}));
        }
    }
    (done, bad)
}

fn main() {
    quiet_panics();
    let args: Vec<String> = std::env::args().collect();
    let edges = read_ndjson(&args[1]);
    let mut sqlite_every = 0usize;
    let mut arb = 0usize;
    let mut k = 2;
    while k < args.len() {
        match args[k].as_str() {
            "--sqlite" => { sqlite_every = args[k + 1].parse().unwrap(); k += 2 }
            "--arb" => { arb = args[k + 1].parse().unwrap(); k += 2 }
            other => panic!("unknown argument {other}"),
        }
    }
    let seed = seed_from_env();
    let mut sqlite = if sqlite_every > 0 || arb > 0 {
        match Sqlite::open() {
            Ok(s) => Some(s),
            Err(e) => {
                println!("{}", json!({"tool_error": format!("cannot create the wallet database: {e}")}));
                std::process::exit(2);
            }
        }
    } else {
        None
    };

    let mut mismatches: Vec<Value> = vec![];
    let mut n_bad = 0u64;
    let mut by_op: BTreeMap<String, u64> = BTreeMap::new();
    let mut by_step: BTreeMap<String, u64> = BTreeMap::new();
    let mut distinct: HashSet<String> = HashSet::new();
    let mut sqlite_trips = 0u64;
    for (idx, edge) in edges.iter().enumerate() {
        let use_sqlite = sqlite_every > 0 && idx % sqlite_every == 0;
        if use_sqlite {
            sqlite_trips += 1;
            // a fresh wallet database now and then keeps the retained history (and the run time) bounded
            if sqlite_trips % 150 == 0 {
                match Sqlite::open() {
                    Ok(s) => sqlite = Some(s),
                    Err(e) => {
                        println!("{}", json!({"tool_error": format!("cannot create the wallet database: {e}")}));
                        std::process::exit(2);
                    }
                }
            }
        }
        let out = run_edge(edge, if use_sqlite { sqlite.as_mut() } else { None }, seed);
        *by_op.entry(edge["ev"]["op"].as_str().unwrap().to_string()).or_default() += 1;
        if edge["ev"]["op"] == "advance" {
            *by_step.entry(out.step.clone()).or_default() += 1;
        }
        if edge["pre"] != edge["post"] || edge["ev"]["op"] == "advance" {
            distinct.insert(format!("{}|{}|{}", edge["pre"], edge["ev"], edge["ret"]));
        }
        if !out.problems.is_empty() {
            n_bad += 1;
            if mismatches.len() < 12 {
                mismatches.push(json!({
                    "edge": edge,
                    "problems": out.problems.iter().map(|(c, d)| json!({"class": c, "detail": d})).collect::<Vec<_>>(),
                }));
            }
        }
    }
    let (arb_done, arb_bad) = if arb > 0 { arb_round_trips(arb, seed, &mut sqlite) } else { (0, vec![]) };
    println!(
        "{}",
        json!({"edges": edges.len(), "bad_edges": n_bad, "mismatches": mismatches, "by_op": by_op, "by_step": by_step,
               "distinct_nontrivial": distinct.len(), "sqlite_round_trips": sqlite_trips, "arb_states": arb_done, "arb_bad": arb_bad})
    );
}
