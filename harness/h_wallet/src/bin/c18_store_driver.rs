//! C18 code -> spec (V): the pool-migration store INSIDE a real wallet database.
//!
//! Each history builds a real SQLite wallet (two accounts) on the harness chain, persists committed
//! migrations for both accounts through `zcash_client_sqlite`'s `PoolMigrations`, and runs a seeded
//! random sequence of
//!   * store events: `replace_migration` (fresh migrations, every life-cycle move made with the real
//!     mutators, policy-terminal persists), `update_transaction`, `store_proved_transaction`,
//!     `cancel_migration`;
//!   * wallet events: fabricated blocks that MINE migration transactions (a compact transaction carrying
//!     the row's transaction id, spending the row's input notes and paying the migrating account),
//!     foreign spends of migration inputs, scans (in order and ahead of a gap), tip updates, note
//!     reservations (`lock_outputs`), and REWINDS -- `truncate_to_height`, `truncate_to_chain_state`,
//!     `rewind_to_chain_state` -- with and without a different continuation of the chain;
//!   * oracle queries: `mined_height` and `check_step_satisfiability` for rows of both accounts.
//! After EVERY event every record of both accounts is loaded back through the public readers
//! (`list_migrations` + `get_migration_by_id`, `get_migration`, `latest_migration`,
//! `migration_lock_owners`, the wallet's `get_locked_outputs` and `block_fully_scanned`) and logged;
//! Trace_WalletStore.tla validates every line against WalletStore.tla.
//!
//! usage: c18_store_driver <out.ndjson> <histories> <events per history> [<histories with a real, proved migration>]
//! stdout: one JSON summary object (last line).
use std::collections::{BTreeMap, BTreeSet, HashMap, HashSet};

use h_wallet::chain::{AbsTx, Chain, Nf, OutReq, Pool, TxReq};
use h_wallet::util::{NdjsonWriter, guarded, quiet_panics, seed_from_env};
use h_wallet::wallet::W;
use incrementalmerkletree::{Hashable as _, Level};
use orchard::tree::MerkleHashOrchard;
use rand::{Rng, SeedableRng, seq::SliceRandom};
use rand_chacha::ChaChaRng;
use serde_json::{Value, json};
use zcash_client_backend::data_api::{OutputLockStore, WalletRead, WalletWrite};
use zcash_client_backend::proto::compact_formats::CompactTx;
use zcash_client_backend::wallet::{LockOwner, OutputRef};
use zcash_client_sqlite::AccountUuid;
use zcash_client_sqlite::pool_migration::orchard_ironwood::{Error as StoreError, PoolMigrations};
use zcash_client_sqlite::util::SystemClock;
use zcash_pool_migration::denomination::DenominationPlan;
use zcash_pool_migration::engine::{
    MigrationLockOwner, MigrationState, MigrationStatus, MigrationTransaction, MigrationTransferId, MigrationTxKind,
    MigrationTxState, PoolMigrationRead, PoolMigrationWrite, ProvedTransaction,
};
use zcash_pool_migration::preparation::{PrepInput, PrepOutput, PrepTransaction, PreparationPlan};
use zcash_pool_migration::satisfiability::{
    ReorgSettleDepth, ReplanThreshold, StepSatisfiability, UnsatisfiableCause, UnsatisfiableKind,
};
use zcash_pool_migration::scheduling::AnchorBucketInterval;
use zcash_pool_migration::state::AdvanceStep;
use zcash_pool_migration::wallet::{WalletMigration, WalletMigrationProver};
use zcash_pool_migration::{engine, satisfiability};
use zcash_protocol::consensus::{BlockHeight, BranchId};
use zcash_protocol::value::Zatoshis;
use zcash_protocol::{PoolType, ShieldedPool, TxId};

fn zat(v: u64) -> Zatoshis {
    Zatoshis::from_u64(v).expect("amount")
}

fn kind_name(k: UnsatisfiableKind) -> &'static str {
    match k {
        UnsatisfiableKind::InputsSpent => "spent",
        UnsatisfiableKind::InputsInvalidated => "inval",
        UnsatisfiableKind::AnchorInvalidated => "anchor",
        UnsatisfiableKind::Inherited => "inherited",
        _ => "unknown",
    }
}

#[derive(Default)]
struct Stats {
    events: BTreeMap<String, u64>,
    rewinds_ok: u64,
    rewinds_demoting: u64,
    rewinds_sparing: u64,
    rewinds_refused_conflict: u64,
    rewinds_refused_wallet: u64,
    rewinds_forked: u64,
    rewinds_wiped: u64,
    rewinds_below_history: u64,
    uncompleted: u64,
    oracle_mined: u64,
    oracle_mined_some: u64,
    oracle_withheld: u64,
    oracle_sat: BTreeMap<String, u64>,
    accounts_used: BTreeSet<usize>,
    releases: u64,
    cancels_pending: u64,
    terminal_persists: u64,
    remined: u64,
    panics: u64,
    scan_errors: u64,
    takes_ok: u64,
    real_proofs: u64,
    real_completed: u64,
}

struct H<'a> {
    w: W,
    chain: Chain,
    rng: ChaChaRng,
    out: &'a mut NdjsonWriter,
    /// transaction id k (1-based) of this history
    uid_bytes: Vec<[u8; 32]>,
    /// the fabricated compact transaction of a migration transaction id (made when it is first mined)
    fab: BTreeMap<i64, (AbsTx, CompactTx)>,
    /// anchor id -> root bytes (0: the empty Orchard tree)
    anchors: Vec<[u8; 32]>,
    /// stored PCZT bytes -> the anchor id they carry
    pczts: HashMap<Vec<u8>, i64>,
    /// record uuid -> identity as logged
    rids: HashMap<[u8; 16], i64>,
    next_token: u8,
    /// notes currently reserved (the harness never reserves a note twice)
    reserved: BTreeSet<u32>,
    stats: &'a mut Stats,
    aborted: bool,
    /// largest start of a successful scan so far: the chain is replaced only at or above the frontier that scan inserted
    /// (a rewind below it leaves a stale annotated frontier behind: the open C06 finding, not this property's subject)
    max_from: u32,
    /// what the readers showed after the last event
    last: Value,
    /// nullifiers of notes that did not exist yet when a row caching them was first seen (the outputs of a migration's
    /// own preparation): they keep the label they were given then
    nf_alias: HashMap<[u8; 32], i64>,
    /// lock-owner tokens the prover derived (logged as 200 + index)
    tokens: Vec<[u8; 32]>,
}

const SALT_TXID: u8 = 0xC1;

impl H<'_> {
    fn rel(&self, h: u32) -> i64 {
        h as i64 - self.w.base as i64
    }
    fn abs(&self, r: i64) -> u32 {
        (self.w.base as i64 + r) as u32
    }
    fn rel_opt(&self, h: Option<BlockHeight>) -> i64 {
        h.map(|h| self.rel(u32::from(h))).unwrap_or(-1)
    }

    fn new_uid(&mut self) -> i64 {
        let k = self.uid_bytes.len() as u32 + 1;
        let mut b = [SALT_TXID; 32];
        b[..4].copy_from_slice(&k.to_le_bytes());
        self.rng.fill(&mut b[8..24]);
        self.uid_bytes.push(b);
        k as i64
    }
    fn uid_of(&self, t: &TxId) -> i64 {
        let b: &[u8; 32] = t.as_ref();
        self.uid_bytes.iter().position(|x| x == b).map(|i| i as i64 + 1).unwrap_or(-1)
    }
    fn txid(&self, uid: i64) -> TxId {
        TxId::from_bytes(self.uid_bytes[uid as usize - 1])
    }

    fn intern_root(&mut self, r: [u8; 32]) -> i64 {
        if let Some(i) = self.anchors.iter().position(|x| *x == r) {
            return i as i64;
        }
        self.anchors.push(r);
        self.anchors.len() as i64 - 1
    }
    /// A PCZT whose Orchard bundle carries the anchor (the only field the store's oracle reads out of a stored PCZT).
    fn pczt_for(&mut self, anchor: i64) -> Vec<u8> {
        let bytes = pczt::roles::creator::Creator::new(BranchId::Nu6_3.into(), 0, 133, None, Some(self.anchors[anchor as usize]))
            .expect("NU6.3 is a supported branch")
            .build()
            .expect("a v6 PCZT may carry an Orchard anchor with no actions")
            .serialize()
            .expect("the PCZT serializes");
        self.pczts.insert(bytes.clone(), anchor);
        bytes
    }
    /// an anchor that is the root of no block: the root of an empty subtree of height k
    fn non_root(&mut self) -> i64 {
        let k = self.rng.gen_range(1u8..30);
        let r = MerkleHashOrchard::empty_root(Level::from(k)).to_bytes();
        self.intern_root(r)
    }

    fn nf_bytes(&self, n: i64) -> [u8; 32] {
        if n > 0 {
            match self.chain.notes[&(n as u32)].nf {
                Nf::Orchard(nf) => return nf.to_bytes(),
                _ => panic!("harness: an Orchard note is expected"),
            }
        }
        [0xEE; 32]
    }
    fn note_of_nf(&self, b: &[u8; 32]) -> i64 {
        if let Some(a) = self.nf_alias.get(b) {
            return *a;
        }
        for (n, ni) in &self.chain.notes {
            if let Nf::Orchard(nf) = ni.nf {
                if ni.pool == Pool::Orchard && nf.to_bytes() == *b {
                    return *n as i64;
                }
            }
        }
        0
    }

    /// the name a note of the harness chain goes by in the trace
    fn label(&self, n: u32) -> i64 {
        match self.chain.notes.get(&n).map(|ni| ni.nf) {
            Some(Nf::Orchard(nf)) => self.nf_alias.get(&nf.to_bytes()).copied().unwrap_or(n as i64),
            _ => n as i64,
        }
    }
    fn token_id(&self, b: &[u8; 32]) -> i64 {
        if b.iter().all(|x| *x == b[0]) { return b[0] as i64; }
        self.tokens.iter().position(|t| t == b).map(|i| 200 + i as i64).unwrap_or(-1)
    }
    fn pczt_anchor(&self, bytes: &[u8]) -> i64 {
        if let Some(i) = self.pczts.get(bytes) { return *i; }
        match pczt::Pczt::parse(bytes).ok().and_then(|p| *p.orchard().anchor()) {
            Some(a) => self.anchors.iter().position(|x| *x == a).map(|i| i as i64).unwrap_or(-3),
            None => -1,
        }
    }
    /// Names everything a state of the engine's own making refers to (transaction ids, nullifiers of notes that do not
    /// exist yet, the prover's lock tokens, installed anchors) before it is projected.
    fn register_state(&mut self, s: &MigrationState) {
        for t in s.transactions() {
            if self.uid_of(&t.txid()) < 0 {
                self.uid_bytes.push(*t.txid().as_ref());
            }
            for nf in t.spend_nullifiers() {
                if self.note_of_nf(nf) == 0 {
                    let k = 1000 + self.nf_alias.len() as i64;
                    self.nf_alias.insert(*nf, k);
                }
            }
            if let Some(o) = t.lock_owner() {
                if self.token_id(o.as_bytes()) < 0 { self.tokens.push(*o.as_bytes()); }
            }
            if !self.pczts.contains_key(t.pczt()) {
                if let Some(a) = pczt::Pczt::parse(t.pczt()).ok().and_then(|p| *p.orchard().anchor()) { self.intern_root(a); }
            }
        }
    }

    fn store(&mut self, a: usize) -> Result<PoolMigrations<&mut rusqlite::Connection, zcash_protocol::local_consensus::LocalNetwork, SystemClock>, StoreError> {
        let net = self.w.net;
        let acct = self.w.acct_ids[a - 1];
        PoolMigrations::for_account(net, SystemClock, self.w.st.wallet_mut().conn_mut(), acct)
    }

    // ---------------------------------------------------------------------------------------------
    // projection

    fn frame_digest(s: &MigrationState) -> String {
        let kinds: Vec<String> = s.transactions().iter().map(|t| format!("{:?}", t.kind())).collect();
        let d = format!("{:?}|{:?}|{:?}|{:?}", s.denominations(), s.preparation(), s.anchor_bucket_interval(), kinds);
        let h = blake2b_simd::Params::new().hash_length(8).hash(d.as_bytes());
        hex::encode(h.as_bytes())
    }

    fn project(&self, s: &MigrationState, rid: i64) -> Value {
        let rows: Vec<Value> = s
            .transactions()
            .iter()
            .map(|t| {
                let (st, mh) = match t.state() {
                    MigrationTxState::AwaitingSignature => ("A", -1),
                    MigrationTxState::Signed => ("S", -1),
                    MigrationTxState::Proved => ("P", -1),
                    MigrationTxState::Broadcast { .. } => ("B", -1),
                    MigrationTxState::Mined { height, .. } => ("M", self.rel(u32::from(height))),
                };
                // the id the life-cycle state carries is the row's own (one column in the store)
                let state_txid_ok = match t.state() {
                    MigrationTxState::Broadcast { txid } | MigrationTxState::Mined { txid, .. } => txid == t.txid(),
                    _ => true,
                };
                let lock = t.lock_owner().map(|o| self.token_id(o.as_bytes())).unwrap_or(0);
                let exp = u32::from(t.expiry_height());
                json!({
                    "id": u32::from(t.id()),
                    "kind": if matches!(t.kind(), MigrationTxKind::Transfer { .. }) { "xfer" } else { "prep" },
                    "deps": t.depends_on().iter().map(|d| u32::from(*d)).collect::<Vec<_>>(),
                    "st": st, "mh": mh,
                    "sched": self.rel(u32::from(t.scheduled_height())),
                    "expiry": if exp == 0 { 0 } else { self.rel(exp) },
                    "bnd": self.rel_opt(t.anchor_boundary()),
                    "uh": self.rel_opt(t.unsatisfiable_at()),
                    "uk": t.unsatisfiable_kind().map(kind_name).unwrap_or("none"),
                    "rep": self.rel_opt(t.broadcast_failure_at()),
                    "lock": lock,
                    "u": if state_txid_ok { self.uid_of(&t.txid()) } else { -2 },
                    "pz": self.pczt_anchor(t.pczt()),
                    "pd": hex::encode(blake2b_simd::Params::new().hash_length(6).hash(t.pczt()).as_bytes()),
                    "nfs": t.spend_nullifiers().iter().map(|b| self.note_of_nf(b)).collect::<Vec<_>>(),
                })
            })
            .collect();
        json!({"rid": rid, "status": s.status().wire_name(), "pct": s.replan_threshold().percent(), "fr": Self::frame_digest(s), "tx": rows})
    }

    /// Everything the public readers show, for both accounts.
    fn post(&mut self) -> Value {
        let fsr = self.w.st.wallet().block_fully_scanned();
        if std::env::var("C18_DEBUG").is_ok() {
            let q: Vec<(u32, u32, i64)> = self.w.st.wallet().conn().prepare("SELECT block_range_start, block_range_end, priority FROM scan_queue ORDER BY block_range_start").unwrap()
                .query_map([], |r| Ok((r.get(0)?, r.get(1)?, r.get(2)?))).unwrap().map(|r| r.unwrap()).collect();
            eprintln!("fs={:?} queue={:?} blocks={:?}", fsr.as_ref().map(|m| m.as_ref().map(|m| m.block_height())), q, self.scanned_heights());
        }
        let fs = fsr.ok().flatten().map(|m| self.rel(u32::from(m.block_height()))).unwrap_or(0);
        let mut accts = vec![];
        for a in 1..=2usize {
            let acct = self.w.acct_ids[a - 1];
            let loaded = guarded(|| -> Result<_, String> {
                let m = self.store(a).map_err(|e| format!("{e:?}"))?;
                let list = m.list_migrations().map_err(|e| format!("list: {e:?}"))?;
                let mut recs = vec![];
                for s in list.iter().rev() {
                    let st = m.get_migration_by_id(s.id()).map_err(|e| format!("by_id: {e:?}"))?.ok_or("listed record not found by id")?;
                    recs.push((*s.id().expose_uuid().as_bytes(), s.status(), st));
                }
                let pend = m.get_migration().map_err(|e| format!("get: {e:?}"))?;
                let latest = m.latest_migration().map_err(|e| format!("latest: {e:?}"))?;
                let owners = m.migration_lock_owners().map_err(|e| format!("owners: {e:?}"))?;
                Ok((recs, pend, latest, owners))
            });
            let (recs, pend, latest, owners) = match loaded {
                Ok(Ok(x)) => x,
                other => {
                    let e = match other { Err(p) => { self.stats.panics += 1; format!("panic: {p}") } Ok(Err(e)) => e, _ => unreachable!() };
                    accts.push(json!({"recs": [], "pend": -9, "latest": -9, "same": false, "owners": [], "locked": [], "npend": -9, "err": e}));
                    continue;
                }
            };
            let mut out_recs = vec![];
            let mut same = true;
            let mut pend_rid = 0i64;
            let mut last_rid = 0i64;
            let live: Vec<usize> = recs.iter().enumerate().filter(|(_, r)| !r.2.is_terminal()).map(|(i, _)| i).collect();
            for (i, (uuid, summary_status, st)) in recs.iter().enumerate() {
                let next = self.rids.len() as i64 + 1;
                let rid = *self.rids.entry(*uuid).or_insert(next);
                same &= *summary_status == st.status();
                if live.len() == 1 && live[0] == i {
                    pend_rid = rid;
                    same &= pend.as_ref() == Some(st);
                }
                if i + 1 == recs.len() {
                    last_rid = rid;
                    same &= latest.as_ref() == Some(st);
                }
                out_recs.push(self.project(st, rid));
            }
            if live.is_empty() {
                same &= pend.is_none();
            } else if live.len() > 1 {
                pend_rid = -1;
            }
            if recs.is_empty() {
                same &= latest.is_none();
            }
            let mut owners: Vec<i64> = owners.iter().map(|o| self.token_id(o.as_bytes())).collect();
            owners.sort();
            let mut locked: Vec<i64> = self
                .w
                .st
                .wallet()
                .get_locked_outputs(acct)
                .unwrap_or_default()
                .iter()
                .map(|o| self.note_of_ref(o))
                .collect();
            locked.sort();
            let terminal: Vec<String> = MigrationStatus::terminal().map(|s| format!("'{}'", s.wire_name())).collect();
            let q = format!(
                "SELECT COUNT(*) FROM orchard_ironwood_migrations m JOIN accounts a ON a.id = m.account_id WHERE a.uuid = ?1 AND m.status NOT IN ({})",
                terminal.join(", ")
            );
            let npend = self.w.st.wallet().conn().query_row(&q, rusqlite::params![acct.expose_uuid()], |r| r.get::<_, i64>(0)).unwrap_or(-9);
            accts.push(json!({"recs": out_recs, "pend": pend_rid, "latest": last_rid, "same": same, "owners": owners, "locked": locked, "npend": npend, "err": ""}));
        }
        json!({"fs": fs, "acct": accts})
    }

    fn note_of_ref(&self, o: &OutputRef) -> i64 {
        let pool = match o.pool() {
            PoolType::Shielded(ShieldedPool::Sapling) => Pool::Sapling,
            PoolType::Shielded(ShieldedPool::Orchard) => Pool::Orchard,
            _ => Pool::Ironwood,
        };
        let txid: &[u8; 32] = o.txid().as_ref();
        let Some(uid) = self.chain.tx_by_id.get(txid) else { return -1 };
        self.chain.notes.iter().find(|(_, ni)| ni.tx == *uid && ni.pool == pool && ni.index == o.output_index()).map(|(n, _)| self.label(*n)).unwrap_or(-1)
    }
    fn out_ref(&self, n: u32) -> OutputRef {
        let ni = &self.chain.notes[&n];
        let txid = self.chain.tx_by_id.iter().find(|(_, u)| **u == ni.tx).map(|(t, _)| *t).expect("txid of note");
        let pool = match ni.pool { Pool::Sapling => PoolType::SAPLING, Pool::Orchard => PoolType::ORCHARD, Pool::Ironwood => PoolType::IRONWOOD };
        OutputRef::new(TxId::from_bytes(txid), pool, ni.index)
    }

    fn emit(&mut self, mut ev: Value) {
        let name = ev["a"].as_str().unwrap().to_string();
        *self.stats.events.entry(name).or_default() += 1;
        let post = self.post();
        // reservations released by this event (for the vacuity guards)
        if matches!(ev["a"].as_str(), Some("persist") | Some("cancel")) && !self.last.is_null() {
            let n = |p: &Value| -> usize { (0..2).map(|a| p["acct"][a]["locked"].as_array().map(|v| v.len()).unwrap_or(0)).sum() };
            if n(&post) < n(&self.last) { self.stats.releases += 1; }
        }
        ev["post"] = post.clone();
        self.last = post;
        self.out.emit(&ev);
    }

    // ---------------------------------------------------------------------------------------------
    // the wallet's view of the chain (harness bookkeeping, for choosing events only)

    fn wallet_fs(&self) -> u32 {
        self.w.st.wallet().block_fully_scanned().ok().flatten().map(|m| u32::from(m.block_height())).unwrap_or(self.w.base)
    }
    fn wallet_max_scanned(&self) -> Option<u32> {
        self.w.st.wallet().block_max_scanned().ok().flatten().map(|m| u32::from(m.block_height()))
    }
    fn scanned_heights(&self) -> BTreeSet<u32> {
        let conn = self.w.st.wallet().conn();
        let mut st = conn.prepare("SELECT height FROM blocks").unwrap();
        st.query_map([], |r| r.get::<_, u32>(0)).unwrap().map(|h| h.unwrap()).collect()
    }
    /// height at which the current chain mines the transaction id
    fn chain_height_of(&self, uid: i64) -> Option<u32> {
        let t = self.uid_bytes[uid as usize - 1];
        self.chain.blocks.iter().find(|(_, b)| b.txs.iter().any(|x| x.txid == t)).map(|(h, _)| *h)
    }
    fn spent_on_chain(&self) -> BTreeSet<u32> {
        self.chain.blocks.values().flat_map(|b| b.txs.iter()).flat_map(|t| t.spends.iter().copied()).collect()
    }
    fn on_chain_notes(&self) -> BTreeSet<u32> {
        self.chain.blocks.values().flat_map(|b| b.txs.iter()).flat_map(|t| t.outs.iter()).filter(|o| o.note > 0).map(|o| o.note).collect()
    }
    /// Orchard notes of the account that the wallet has scanned on the current chain and nothing spends
    fn free_notes(&self, a: usize) -> Vec<u32> {
        let scanned = self.scanned_heights();
        let spent = self.spent_on_chain();
        let mut v = vec![];
        for (h, b) in &self.chain.blocks {
            if !scanned.contains(h) {
                continue;
            }
            for t in &b.txs {
                for o in &t.outs {
                    if o.note > 0 && o.pool == Pool::Orchard && o.acct as usize == a && !spent.contains(&o.note) {
                        v.push(o.note);
                    }
                }
            }
        }
        v
    }

    // ---------------------------------------------------------------------------------------------
    // chain events

    fn block_event(&mut self, h: u32) {
        let b = &self.chain.blocks[&h];
        let txs: Vec<i64> = b.txs.iter().map(|t| self.uid_of(&TxId::from_bytes(t.txid))).filter(|u| *u > 0).collect();
        let spends: Vec<i64> = b.txs.iter().flat_map(|t| t.spends.iter().copied()).filter(|n| *n > 0 && self.chain.notes[n].pool == Pool::Orchard).map(|n| self.label(n)).collect();
        let outs: Vec<Value> = b.txs.iter().flat_map(|t| t.outs.iter()).filter(|o| o.note > 0 && o.pool == Pool::Orchard).map(|o| json!([self.label(o.note), o.acct])).collect();
        let root = self.chain.root_at(Pool::Orchard, h).unwrap();
        let root = self.intern_root(root);
        let hr = self.rel(h);
        self.emit(json!({"a": "block", "h": hr, "txs": txs, "spends": spends, "outs": outs, "root": root}));
    }

    /// one more block: receipts for both accounts, possibly some broadcast migration transactions, possibly a
    /// foreign spend of a note a migration counts on
    fn block(&mut self, mine: &[i64], sweep: Option<u32>, receipts: &[(usize, u64)]) {
        let net = self.w.net;
        let mut reqs = vec![];
        for (a, v) in receipts {
            reqs.push(TxReq { outs: vec![OutReq { pool: Pool::Orchard, acct: *a as u32, internal: false, diversified: false, value: *v }], spends: vec![], foreign_spends: vec![] });
        }
        if let Some(n) = sweep {
            let v = self.chain.notes[&n].value;
            reqs.push(TxReq { outs: vec![OutReq { pool: Pool::Orchard, acct: 0, internal: false, diversified: false, value: v.saturating_sub(10_000).max(1) }], spends: vec![n], foreign_spends: vec![] });
        }
        // migration transactions mined for the first time are fabricated here, the others re-mined verbatim
        let mut fresh: Vec<(i64, usize)> = vec![];
        let mut again = vec![];
        for u in mine {
            if let Some(f) = self.fab.get(u) {
                again.push(f.clone());
                self.stats.remined += 1;
            } else {
                let (a, kind, nfs) = self.row_of_uid(*u).expect("a mined transaction id belongs to a row");
                let spends: Vec<u32> = nfs.iter().filter(|n| **n > 0).map(|n| *n as u32).collect();
                let pool = if kind == "xfer" { Pool::Ironwood } else { Pool::Orchard };
                fresh.push((*u, reqs.len()));
                reqs.push(TxReq { outs: vec![OutReq { pool, acct: a as u32, internal: true, diversified: false, value: 50_000 }], spends, foreign_spends: vec![] });
            }
        }
        let h = self.chain.extend_with(&net, &reqs, &again, &mut self.rng);
        for (u, idx) in fresh {
            let my = self.uid_bytes[u as usize - 1];
            let b = self.chain.blocks.get_mut(&h).unwrap();
            let old = b.txs[idx].txid;
            b.txs[idx].txid = my;
            b.cb.vtx[idx].txid = my.to_vec();
            let cu = self.chain.tx_by_id.remove(&old).expect("fabricated transaction is registered");
            self.chain.tx_by_id.insert(my, cu);
            let b = &self.chain.blocks[&h];
            self.fab.insert(u, (b.txs[idx].clone(), b.cb.vtx[idx].clone()));
        }
        self.block_event(h);
    }

    /// (account, kind, input notes) of the row carrying the transaction id, looked up in what the store holds
    fn row_of_uid(&mut self, u: i64) -> Option<(usize, String, Vec<i64>)> {
        let p = self.last.clone();
        for a in 1..=2usize {
            for rec in p["acct"][a - 1]["recs"].as_array().unwrap() {
                for t in rec["tx"].as_array().unwrap() {
                    if t["u"].as_i64() == Some(u) {
                        return Some((a, t["kind"].as_str().unwrap().to_string(), t["nfs"].as_array().unwrap().iter().map(|n| n.as_i64().unwrap()).collect()));
                    }
                }
            }
        }
        None
    }

    fn scan(&mut self, from: u32, n: usize) {
        let top = self.chain.top();
        if from > top {
            return;
        }
        let to = (from + n as u32 - 1).min(top);
        let res = self.w.scan(&self.chain, from, (to - from + 1) as usize);
        let (c, e) = h_wallet::run::res_class(&res);
        if c == "panic" { self.stats.panics += 1; self.aborted = true; }
        let (f, t) = (self.rel(from), self.rel(to));
        self.emit(json!({"a": "scan", "from": f, "to": t, "res": c, "err": e}));
        if c != "ok" { self.aborted = true; self.stats.scan_errors += 1; } else { self.max_from = self.max_from.max(from); }
    }

    fn tip(&mut self) {
        let top = self.chain.top();
        let res = self.w.update_tip(top);
        let (c, e) = h_wallet::run::res_class(&res);
        let h = self.rel(top);
        self.emit(json!({"a": "tip", "h": h, "res": c, "err": e}));
    }

    fn lock(&mut self, notes: &[u32], token: u8) {
        let refs: Vec<OutputRef> = notes.iter().map(|n| self.out_ref(*n)).collect();
        let exp = self.chain.top() + 100_000;
        let st = &mut self.w.st;
        let res = guarded(move || st.wallet_mut().lock_outputs(&refs, LockOwner::new([token; 32]), BlockHeight::from(exp)).map(|_| ()).map_err(|e| format!("{e:?}")));
        let (c, e) = h_wallet::run::res_class(&res);
        if c == "ok" { self.reserved.extend(notes.iter().copied()); }
        self.emit(json!({"a": "lock", "notes": notes, "token": token, "res": c, "err": e}));
    }

    /// a wallet rewind; `fork`: the chain above the height the wallet kept is then replaced
    fn rewind(&mut self, mode: &str, req: u32, fork: bool) {
        let before_max = self.wallet_max_scanned();
        let pre = self.last.clone();
        let res: Result<Result<Option<u32>, String>, String> = match mode {
            "height" => self.w.truncate(req).map(|r| r.map(Some)),
            "cs" => self.w.truncate_cs(&self.chain, req).map(|r| r.map(Some)),
            _ => {
                let state = self.chain.state_at(req);
                let st = &mut self.w.st;
                guarded(move || st.wallet_mut().rewind_to_chain_state(state, HashSet::new()).map(|_| None).map_err(|e| format!("{e:?}")))
            }
        };
        let (c, e) = h_wallet::run::res_class(&res);
        if c == "panic" { self.stats.panics += 1; self.aborted = true; }
        // the height the wallet settled on
        let mut wiped = false;
        let (res_name, tgt, to): (&str, i64, i64) = match &res {
            Ok(Ok(Some(to))) => ("ok", self.rel(*to), self.rel(*to)),
            Ok(Ok(None)) => match before_max {
                // rewind_to_chain_state truncates only when it has scanned past the target; it keeps the blocks up to
                // the checkpoint it found at or above the target
                Some(m) if req < m => match self.wallet_max_scanned() {
                    Some(now) => ("ok", self.rel(req), self.rel(now.max(req))),
                    // no pool keeps a checkpoint at or above the target (the blocks above it added no commitments): the
                    // wallet falls back to its pruning floor, below everything this short history has scanned
                    None => { wiped = true; ("ok", 0, 0) }
                },
                _ => ("noop", self.rel(req), self.rel(req)),
            },
            _ => ("err", self.rel(req), self.rel(req)),
        };
        let errc = if c == "err" { if e.contains("RequestedRewindInvalid") || e.contains("RewindBeyondBirthdays") { "invalid" } else { "other" } } else { "" };
        let forked = fork && res_name == "ok" && self.abs(to) + 1 >= self.max_from;
        let cut = if forked { to } else { self.rel(self.chain.top()).max(to) };
        if forked {
            self.chain.truncate(self.abs(to));
            self.stats.rewinds_forked += 1;
        }
        let reqr = self.rel(req);
        self.emit(json!({"a": "rewind", "mode": mode, "req": reqr, "tgt": tgt, "to": to, "cut": cut, "res": res_name, "errc": errc, "err": e, "wiped": wiped}));
        if wiped { self.stats.rewinds_wiped += 1; }
        // statistics for the vacuity guards (from what the store showed before and shows now)
        if res_name == "ok" {
            self.stats.rewinds_ok += 1;
            let post = self.last.clone();
            let mined_rows = |p: &Value, above: bool| -> usize {
                let mut k = 0;
                for a in 0..2 {
                    for rec in p["acct"][a]["recs"].as_array().unwrap() {
                        if ["failed", "superseded", "cancelled"].contains(&rec["status"].as_str().unwrap()) { continue; }
                        for t in rec["tx"].as_array().unwrap() {
                            if t["st"] == "M" && ((t["mh"].as_i64().unwrap() > to) == above) { k += 1; }
                        }
                    }
                }
                k
            };
            let history_above = (0..2).flat_map(|a| pre["acct"][a]["recs"].as_array().unwrap().clone())
                .filter(|r| ["failed", "superseded", "cancelled"].contains(&r["status"].as_str().unwrap()))
                .any(|r| r["tx"].as_array().unwrap().iter().any(|t| t["st"] == "M" && t["mh"].as_i64().unwrap() > to));
            if history_above { self.stats.rewinds_below_history += 1; }
            if mined_rows(&pre, true) > 0 { self.stats.rewinds_demoting += 1; }
            else if mined_rows(&pre, false) > 0 { self.stats.rewinds_sparing += 1; }
            let completes = |p: &Value| -> usize { (0..2).map(|a| p["acct"][a]["recs"].as_array().unwrap().iter().filter(|r| r["status"] == "complete").count()).sum() };
            if completes(&post) < completes(&pre) { self.stats.uncompleted += 1; }
        } else if res_name == "err" {
            if errc == "invalid" { self.stats.rewinds_refused_wallet += 1; } else { self.stats.rewinds_refused_conflict += 1; }
        }
    }

    // ---------------------------------------------------------------------------------------------
    // store events

    fn rebuild(s: &MigrationState, status: MigrationStatus, f: &dyn Fn(usize, &MigrationTransaction) -> MigrationTransaction) -> MigrationState {
        let txs = s.transactions().iter().enumerate().map(|(k, t)| f(k, t)).collect();
        MigrationState::from_parts(status, s.denominations().clone(), s.preparation().clone(), txs, s.anchor_bucket_interval(), s.replan_threshold())
    }
    #[allow(clippy::too_many_arguments)]
    fn row_with(
        t: &MigrationTransaction, state: MigrationTxState, lock: Option<MigrationLockOwner>, unsat: Option<(BlockHeight, UnsatisfiableKind)>,
        rep: Option<BlockHeight>,
    ) -> MigrationTransaction {
        MigrationTransaction::from_parts(
            t.id(), t.kind(), t.pczt().clone(), t.depends_on().clone(), t.scheduled_height(), t.expiry_height(), t.anchor_boundary(),
            t.txid(), state, lock, unsat, t.spend_nullifiers().clone(), rep,
        )
    }

    /// A freshly committed migration of 1..3 transactions over notes of the account.
    fn fresh_state(&mut self, a: usize) -> MigrationState {
        let cv = [200_000u64, 100_000, 50_000];
        let total: u64 = cv.iter().sum();
        let denominations = DenominationPlan::from_stored_parts(
            cv.iter().copied().map(zat).collect(), zat(15_000), Some(zat(777)), zat(30_000), zat(total + 15_000 * cv.len() as u64 + 30_777), zat(total),
        )
        .expect("consistent stored plan");
        let n = self.rng.gen_range(1..=3usize);
        let with_prep = n > 1 && self.rng.gen_bool(0.7);
        let preparation = PreparationPlan::from_parts(
            vec![vec![PrepTransaction::from_parts(
                vec![PrepInput::Wallet { index: 0, value: zat(total + 50_000) }],
                vec![PrepOutput::Funding(zat(total)), PrepOutput::Change(zat(777))],
            )]],
            vec![(1, zat(115_000))],
        );
        let mut free: Vec<u32> = self.free_notes(a).into_iter().filter(|x| !self.reserved.contains(x)).collect();
        free.shuffle(&mut self.rng);
        let other: Vec<u32> = self.free_notes(3 - a);
        let fs = self.wallet_fs();
        let top = self.chain.top();
        let scanned: Vec<u32> = self.scanned_heights().into_iter().collect();
        let mut txs = vec![];
        for i in 0..n {
            let prep = with_prep && i == 0;
            let kind = if prep { MigrationTxKind::Preparation { layer: 0, index: 0 } } else { MigrationTxKind::Transfer { crossing: i.min(2) } };
            let deps = if with_prep && i > 0 { vec![MigrationTransferId::new(0)] } else { vec![] };
            // inputs: a note of the account (mostly), sometimes one nobody has seen, sometimes the other account's
            let mut nfs: Vec<i64> = vec![];
            let k = self.rng.gen_range(0..10);
            if k < 7 && !free.is_empty() {
                nfs.push(free.pop().unwrap() as i64);
                if self.rng.gen_bool(0.2) && !free.is_empty() { nfs.push(free.pop().unwrap() as i64); }
            } else if k < 8 && !other.is_empty() {
                nfs.push(*other.choose(&mut self.rng).unwrap() as i64);
            } else {
                nfs.push(0);
            }
            let u = self.new_uid();
            // a transfer is anchored to a boundary: the root there, the root elsewhere, or a root of no block
            let (bnd, anchor) = if prep || scanned.is_empty() {
                let r = self.non_root();
                (None, r)
            } else {
                let b = *scanned.choose(&mut self.rng).unwrap();
                let anchor = match self.rng.gen_range(0..4) {
                    0 | 1 => { let r = self.chain.root_at(Pool::Orchard, b).unwrap(); self.intern_root(r) }
                    2 => { let r = self.chain.root_at(Pool::Orchard, *scanned.choose(&mut self.rng).unwrap()).unwrap(); self.intern_root(r) }
                    _ => self.non_root(),
                };
                (Some(BlockHeight::from(b)), anchor)
            };
            let anchor = if anchor == 0 { self.non_root() } else { anchor };
            let pczt = self.pczt_for(anchor);
            let expiry = match self.rng.gen_range(0..6) { 0 => 0, 1 => fs + self.rng.gen_range(0..3), 2 => top + self.rng.gen_range(1..4), _ => top + 400 };
            txs.push(MigrationTransaction::from_parts(
                MigrationTransferId::new(i as u32), kind, pczt, deps,
                BlockHeight::from(top + 1 + i as u32), BlockHeight::from(expiry), bnd, self.txid(u),
                if self.rng.gen_bool(0.1) { MigrationTxState::AwaitingSignature } else { MigrationTxState::Signed },
                None, None, nfs.iter().map(|n| self.nf_bytes(*n)).collect(), None,
            ));
        }
        let pct = *[0u8, 20, 50, 100].choose(&mut self.rng).unwrap();
        MigrationState::from_parts(MigrationStatus::Committed, denominations, preparation, txs, AnchorBucketInterval::ZIP_318, ReplanThreshold::new(pct).unwrap())
    }

    fn persist(&mut self, a: usize, s: &MigrationState, why: &str) {
        let rec = self.project(s, 0);
        let res = guarded(|| self.store(a).and_then(|mut m| m.replace_migration(s)).map_err(|e| format!("{e:?}")));
        let (c, e) = h_wallet::run::res_class(&res);
        if c == "panic" { self.stats.panics += 1; }
        if s.is_terminal() { self.stats.terminal_persists += 1; }
        self.stats.accounts_used.insert(a);
        self.emit(json!({"a": "persist", "acct": a, "why": why, "rec": rec, "res": c, "err": e}));
    }

    fn pending(&mut self, a: usize) -> Option<MigrationState> {
        self.store(a).ok().and_then(|m| m.get_migration().ok().flatten())
    }

    /// One life-cycle move on the account's pending migration, made with the real mutators and persisted.
    /// the store's own oracle reports a broadcast row of the account's live record mined
    fn promotable(&mut self, a: usize) -> bool {
        let Some(s) = self.pending(a) else { return false };
        let ids: Vec<TxId> = s.transactions().iter().filter(|t| matches!(t.state(), MigrationTxState::Broadcast { .. })).map(|t| t.txid()).collect();
        ids.iter().any(|t| self.store(a).ok().and_then(|m| m.mined_height(*t).ok().flatten()).is_some())
    }

    /// the live record of the account has a never-broadcast row whose inputs are reserved
    fn holds_reservation(&self, a: usize) -> bool {
        let p = &self.last["acct"][a - 1];
        !p["locked"].as_array().map(|v| v.is_empty()).unwrap_or(true)
            && p["recs"].as_array().unwrap().iter().any(|r| !["complete", "failed", "superseded", "cancelled"].contains(&r["status"].as_str().unwrap())
                && r["tx"].as_array().unwrap().iter().any(|t| t["lock"].as_i64().unwrap() > 0 && ["A", "S", "P"].contains(&t["st"].as_str().unwrap())))
    }

    fn life_cycle_move(&mut self, a: usize, promote: bool) {
        let Some(mut s) = self.pending(a) else { return };
        let rows: Vec<(usize, MigrationTransferId, MigrationTxState, i64)> =
            s.transactions().iter().enumerate().map(|(k, t)| (k, t.id(), t.state(), self.uid_of(&t.txid()))).collect();
        let pick = |h: &mut Self, f: &dyn Fn(&MigrationTxState) -> bool| -> Option<(usize, MigrationTransferId, i64)> {
            let c: Vec<_> = rows.iter().filter(|r| f(&r.2)).collect();
            c.choose(&mut h.rng).map(|r| (r.0, r.1, r.3))
        };
        let fs = self.wallet_fs();
        let top = self.chain.top();
        for _ in 0..8 {
            match if promote { 6 } else { self.rng.gen_range(0..24) } {
                0..=5 => {
                    // a proof arrives together with the reservation the prover took on the inputs
                    if let Some((k, id, _)) = pick(self, &|st| matches!(st, MigrationTxState::Signed)) {
                        let notes: Vec<u32> = s.transactions()[k].spend_nullifiers().iter().map(|b| self.note_of_nf(b)).filter(|n| *n > 0).map(|n| n as u32).collect();
                        let lockable: Vec<u32> = notes.iter().copied().filter(|n| !self.reserved.contains(n) && self.free_notes(a).contains(n)).collect();
                        let token = if !lockable.is_empty() && lockable.len() == notes.len() && self.rng.gen_bool(0.8) {
                            self.next_token += 1;
                            let t = self.next_token;
                            self.lock(&lockable, t);
                            Some(MigrationLockOwner::from_bytes([t; 32]))
                        } else { None };
                        let a2 = self.non_root();
                        let bytes = self.pczt_for(a2);
                        s.set_transaction_proved(id, bytes, token);
                        return self.persist(a, &s, "proved");
                    }
                }
                12..=19 => {
                    if let Some((_, id, _)) = pick(self, &|st| matches!(st, MigrationTxState::Proved)) {
                        s.mark_broadcast(id);
                        return self.persist(a, &s, "broadcast");
                    }
                }
                6..=11 => {
                    if let Some((_, id, u)) = pick(self, &|st| matches!(st, MigrationTxState::Broadcast { .. })) {
                        // what a drive call does: promote at the height the store's own oracle reports; sometimes another
                        let tx_u = self.txid(u);
                        let seen = self.store(a).ok().and_then(|m| m.mined_height(tx_u).ok().flatten());
                        let h = match seen {
                            Some(h) if self.rng.gen_bool(0.85) => Some(u32::from(h)),
                            _ if self.rng.gen_bool(0.25) => Some(self.w.base + 1 + self.rng.gen_range(0..(top - self.w.base + 2))),
                            _ => None,
                        };
                        if let Some(h) = h {
                            s.mark_mined(id, BlockHeight::from(h));
                            return self.persist(a, &s, "mined");
                        }
                    }
                }
                20 | 21 => {
                    // an unsatisfiability mark / a broadcast-failure report stamped near the scanned tip
                    if let Some((k, _, _)) = pick(self, &|st| !matches!(st, MigrationTxState::Mined { .. })) {
                        let stamp = BlockHeight::from(fs.saturating_sub(self.rng.gen_range(0..3)).max(self.w.base + 1));
                        let report = matches!(s.transactions()[k].state(), MigrationTxState::Proved) && self.rng.gen_bool(0.5);
                        let kind = *[UnsatisfiableKind::InputsSpent, UnsatisfiableKind::AnchorInvalidated, UnsatisfiableKind::Inherited].choose(&mut self.rng).unwrap();
                        let s2 = Self::rebuild(&s, s.status(), &|j, t| {
                            if j != k { return t.clone(); }
                            if report { Self::row_with(t, t.state(), t.lock_owner(), t.unsatisfiable(), Some(stamp)) }
                            else { Self::row_with(t, t.state(), t.lock_owner(), Some((stamp, kind)), t.broadcast_failure_at()) }
                        });
                        return self.persist(a, &s2, if report { "report" } else { "mark" });
                    }
                }
                22 => {
                    // a policy decision persisted through the ordinary path
                    match self.rng.gen_range(0..3) {
                        0 => { s.mark_superseded(); return self.persist(a, &s, "superseded"); }
                        1 => { s.mark_cancelled(); return self.persist(a, &s, "cancelled"); }
                        _ => { let s2 = Self::rebuild(&s, MigrationStatus::Failed, &|_, t| t.clone()); return self.persist(a, &s2, "failed"); }
                    }
                }
                _ => {
                    s.recompute_status();
                    return self.persist(a, &s, "recompute");
                }
            }
        }
    }

    fn update_tx(&mut self, a: usize) {
        let pend = self.pending(a);
        let top = self.chain.top();
        let (id, new_state): (MigrationTransferId, MigrationTxState) = match &pend {
            Some(s) if self.rng.gen_bool(0.9) => {
                let t = s.transactions().choose(&mut self.rng).unwrap().clone();
                let u = self.uid_of(&t.txid());
                let seen = self.store(a).ok().and_then(|m| m.mined_height(t.txid()).ok().flatten());
                let other = TxId::from_bytes([0x5A; 32]);
                let ns = match t.state() {
                    MigrationTxState::Proved => MigrationTxState::Broadcast { txid: if self.rng.gen_bool(0.3) { other } else { t.txid() } },
                    MigrationTxState::Broadcast { txid } => match seen {
                        Some(h) => MigrationTxState::Mined { txid, height: h },
                        None => MigrationTxState::Mined { txid, height: BlockHeight::from(self.w.base + 1 + self.rng.gen_range(0..(top - self.w.base + 2))) },
                    },
                    MigrationTxState::Mined { txid, .. } => MigrationTxState::Broadcast { txid },
                    MigrationTxState::Signed => MigrationTxState::Proved,
                    o => o,
                };
                let _ = u;
                (t.id(), ns)
            }
            _ => (MigrationTransferId::new(7), MigrationTxState::Proved),
        };
        let res = guarded(|| self.store(a).and_then(|mut m| m.update_transaction(id, new_state)).map_err(|e| format!("{e:?}")));
        let (c, e) = h_wallet::run::res_class(&res);
        if c == "panic" { self.stats.panics += 1; }
        let (st, mh) = match new_state {
            MigrationTxState::AwaitingSignature => ("A", -1),
            MigrationTxState::Signed => ("S", -1),
            MigrationTxState::Proved => ("P", -1),
            MigrationTxState::Broadcast { .. } => ("B", -1),
            MigrationTxState::Mined { height, .. } => ("M", self.rel(u32::from(height))),
        };
        self.stats.accounts_used.insert(a);
        self.emit(json!({"a": "update_tx", "acct": a, "id": u32::from(id), "st": st, "mh": mh, "res": c, "err": e}));
    }

    fn store_proved(&mut self, a: usize) {
        let Some(mut s) = self.pending(a) else { return };
        let signed: Vec<MigrationTransferId> = s.transactions().iter().filter(|t| matches!(t.state(), MigrationTxState::Signed)).map(|t| t.id()).collect();
        let Some(id) = signed.choose(&mut self.rng).copied() else { return };
        let rec = self.project(&s, 0);
        let pz = self.non_root();
        let bytes = self.pczt_for(pz);
        let pd = hex::encode(blake2b_simd::Params::new().hash_length(6).hash(&bytes).as_bytes());
        let res = guarded(|| self.store(a).and_then(|mut m| m.store_proved_transaction(&mut s, ProvedTransaction::from_parts(id, bytes))).map_err(|e| format!("{e:?}")));
        let (c, e) = h_wallet::run::res_class(&res);
        if c == "panic" { self.stats.panics += 1; }
        // the state the caller holds afterwards is the one the store holds
        let same = self.pending(a).as_ref() == Some(&s);
        self.stats.accounts_used.insert(a);
        self.emit(json!({"a": "store_proved", "acct": a, "rec": rec, "id": u32::from(id), "pz": pz, "pd": pd, "lock": 0, "res": c, "err": e, "same": same}));
    }

    /// The broadcast seam on a row of the live record (mostly a proved one).  The stored PCZTs of the fabricated
    /// migrations carry an anchor and nothing else: they do not extract into a transaction, so a proved row is refused
    /// at finalization -- and a refusal must write nothing.
    fn take(&mut self, a: usize) {
        let Some(s) = self.pending(a) else { return };
        let proved: Vec<MigrationTransferId> = s.transactions().iter().filter(|t| matches!(t.state(), MigrationTxState::Proved)).map(|t| t.id()).collect();
        let id = if !proved.is_empty() && self.rng.gen_bool(0.75) { *proved.choose(&mut self.rng).unwrap() }
                 else if self.rng.gen_bool(0.1) { MigrationTransferId::new(9) }
                 else { s.transactions().choose(&mut self.rng).unwrap().id() };
        let rec = self.project(&s, 0);
        let res = guarded(|| self.store(a).and_then(|mut m| m.take_transaction_for_broadcast(&s, id)));
        let (c, e, recorded, spent): (String, String, bool, Vec<i64>) = match res {
            Err(p) => { self.stats.panics += 1; ("panic".into(), p, false, vec![]) }
            Ok(Err(e)) => {
                let c = match &e {
                    StoreError::NotProved(_) => "notproved",
                    StoreError::UnknownTransaction(_) => "unknown",
                    StoreError::Finalize(_) => "finalize",
                    _ => "err",
                };
                (c.into(), format!("{e:?}").chars().take(200).collect(), false, vec![])
            }
            Ok(Ok(tx)) => {
                let recorded = self.w.st.wallet().get_transaction(tx.txid()).ok().flatten().is_some();
                let spent: Vec<i64> = tx.orchard_bundle().map(|b| b.actions().iter().map(|x| self.note_of_nf(&x.nullifier().to_bytes())).filter(|n| *n > 0).collect()).unwrap_or_default();
                self.stats.takes_ok += 1;
                ("ok".into(), String::new(), recorded, spent)
            }
        };
        self.stats.accounts_used.insert(a);
        self.emit(json!({"a": "take", "acct": a, "rec": rec, "id": u32::from(id), "res": c, "err": e, "recorded": recorded, "spent": spent}));
    }

    fn cancel(&mut self, a: usize) {
        let had_pending = self.pending(a).is_some();
        let before: usize = (1..=2).map(|x| self.w.st.wallet().get_locked_outputs(self.w.acct_ids[x - 1]).unwrap_or_default().len()).sum();
        let res = guarded(|| self.store(a).and_then(|mut m| m.cancel_migration()).map_err(|e| format!("{e:?}")));
        let (c, e) = h_wallet::run::res_class(&res);
        if c == "panic" { self.stats.panics += 1; }
        let ids = |v: &[MigrationTransferId]| -> Vec<u32> { v.iter().map(|i| u32::from(*i)).collect() };
        let out = match &res {
            Ok(Ok(o)) => json!({"inflight": ids(o.in_flight()), "mined": ids(o.mined()), "released": ids(o.released())}),
            _ => json!({"inflight": [], "mined": [], "released": []}),
        };
        let after: usize = (1..=2).map(|x| self.w.st.wallet().get_locked_outputs(self.w.acct_ids[x - 1]).unwrap_or_default().len()).sum();
        let _ = (before, after);
        if had_pending { self.stats.cancels_pending += 1; }
        self.stats.accounts_used.insert(a);
        self.emit(json!({"a": "cancel", "acct": a, "res": c, "err": e, "out": out}));
    }

    /// mined_height and check_step_satisfiability for rows of the account's records (and, for the account scoping of
    /// the note lookup, rows of the other account's), through the account's store
    fn oracle(&mut self, a: usize) {
        let settle = *[0u32, 1, 2, 4, 1_000_000].choose(&mut self.rng).unwrap();
        let mut rows: Vec<MigrationTransaction> = vec![];
        for acct in [a, 3 - a] {
            if let Ok(m) = self.store(acct) {
                if let Ok(list) = m.list_migrations() {
                    for s in list.iter().take(if acct == a { 3 } else { 1 }) {
                        if let Ok(Some(st)) = m.get_migration_by_id(s.id()) {
                            rows.extend(st.transactions().iter().cloned());
                        }
                    }
                }
            }
        }
        rows.truncate(9);
        let mut q = vec![];
        for t in &rows {
            let r = guarded(|| -> Result<_, String> {
                let m = self.store(a).map_err(|e| format!("{e:?}"))?;
                let mh = m.mined_height(t.txid()).map_err(|e| format!("mined_height: {e:?}"))?;
                let ans = m.check_step_satisfiability(t, ReorgSettleDepth::new(settle));
                Ok((mh, ans))
            });
            let row = {
                // the row as the specification sees it
                let s1 = MigrationState::from_parts(
                    MigrationStatus::InProgress,
                    DenominationPlan::from_stored_parts(vec![zat(100_000)], zat(15_000), None, zat(0), zat(115_000), zat(100_000)).expect("plan"),
                    PreparationPlan::from_parts(vec![], vec![]),
                    vec![t.clone()], AnchorBucketInterval::ZIP_318, ReplanThreshold::DEFAULT,
                );
                self.project(&s1, 0)["tx"][0].clone()
            };
            match r {
                Ok(Ok((mh, ans))) => {
                    let (k, asof) = match &ans {
                        Ok(StepSatisfiability::Satisfiable { as_of_height }) => ("sat".to_string(), self.rel(u32::from(*as_of_height))),
                        Ok(StepSatisfiability::NotYetSatisfiable { as_of_height }) => ("notyet".to_string(), self.rel(u32::from(*as_of_height))),
                        Ok(StepSatisfiability::Unsatisfiable { cause, as_of_height }) => (
                            match cause {
                                UnsatisfiableCause::InputsSpent { .. } => "spent",
                                UnsatisfiableCause::InputsInvalidated { .. } => "inval",
                                UnsatisfiableCause::Expired => "expired",
                                UnsatisfiableCause::AnchorInvalidated => "anchor",
                                _ => "other",
                            }
                            .to_string(),
                            self.rel(u32::from(*as_of_height)),
                        ),
                        Err(StoreError::Corrupt("spend_nullifiers")) => ("corrupt".to_string(), -1),
                        Err(StoreError::ChainStateUnavailable) => ("nochain".to_string(), -1),
                        Err(e) => (format!("err: {e:?}").chars().take(80).collect(), -1),
                    };
                    self.stats.oracle_mined += 1;
                    if mh.is_some() { self.stats.oracle_mined_some += 1; }
                    // the chain mined it in a block the wallet holds, above what it has fully scanned
                    let u = self.uid_of(&t.txid());
                    if mh.is_none() && u > 0 {
                        if let Some(h) = self.chain_height_of(u) {
                            if self.scanned_heights().contains(&h) && h > self.wallet_fs() { self.stats.oracle_withheld += 1; }
                        }
                    }
                    *self.stats.oracle_sat.entry(k.clone()).or_default() += 1;
                    q.push(json!({"row": row, "mh": self.rel_opt(mh), "k": k, "asof": asof}));
                }
                Ok(Err(e)) => q.push(json!({"row": row, "mh": -9, "k": format!("err: {e}").chars().take(80).collect::<String>(), "asof": -1})),
                Err(p) => { self.stats.panics += 1; q.push(json!({"row": row, "mh": -9, "k": format!("panic: {p}").chars().take(80).collect::<String>(), "asof": -1})); }
            }
        }
        // a transaction id no row and no block carries
        let probe = guarded(|| self.store(a).and_then(|m| m.mined_height(TxId::from_bytes([0x77; 32]))).map_err(|e| format!("{e:?}")));
        let probe = match probe { Ok(Ok(h)) => self.rel_opt(h), _ => -9 };
        self.stats.accounts_used.insert(a);
        self.emit(json!({"a": "oracle", "acct": a, "settle": settle, "q": q, "probe": probe}));
    }

    // ---------------------------------------------------------------------------------------------

    /// broadcast transaction ids of live or Complete records that the current chain does not mine and whose inputs it
    /// has not spent
    fn mineable(&mut self) -> Vec<i64> {
        let p = self.last.clone();
        let spent = self.spent_on_chain();
        let on_chain = self.on_chain_notes();
        let mut v = vec![];
        for a in 0..2 {
            for rec in p["acct"][a]["recs"].as_array().unwrap() {
                for t in rec["tx"].as_array().unwrap() {
                    let u = t["u"].as_i64().unwrap();
                    let st = t["st"].as_str().unwrap();
                    if u > 0 && (st == "B" || st == "M") && self.chain_height_of(u).is_none()
                        && t["nfs"].as_array().unwrap().iter().all(|n| { let n = n.as_i64().unwrap(); n == 0 || (!spent.contains(&(n as u32)) && on_chain.contains(&(n as u32))) })
                        && !v.contains(&u)
                    {
                        v.push(u);
                    }
                }
            }
        }
        v
    }

    /// the live record of the account has a mined row (retiring it leaves history that a later rewind must not touch)
    fn live_has_mined(&self, a: usize) -> bool {
        self.last["acct"][a - 1]["recs"].as_array().unwrap().iter().any(|r| !["complete", "failed", "superseded", "cancelled"].contains(&r["status"].as_str().unwrap())
            && r["tx"].as_array().unwrap().iter().any(|t| t["st"] == "M"))
    }

    /// mined heights of the rows of every record (the cascade visits the live and the Complete ones and must leave the
    /// policy-terminal ones alone)
    fn mined_heights(&self) -> Vec<u32> {
        let mut v = vec![];
        for a in 0..2 {
            for rec in self.last["acct"][a]["recs"].as_array().unwrap() {
                for t in rec["tx"].as_array().unwrap() {
                    if t["st"] == "M" { v.push(self.abs(t["mh"].as_i64().unwrap())); }
                }
            }
        }
        v
    }

    fn interesting_heights(&mut self) -> Vec<u32> {
        let p = self.last.clone();
        let mut v = vec![];
        for a in 0..2 {
            for rec in p["acct"][a]["recs"].as_array().unwrap() {
                for t in rec["tx"].as_array().unwrap() {
                    for f in ["mh", "uh", "rep"] {
                        let h = t[f].as_i64().unwrap();
                        if h >= 1 {
                            for d in [-1i64, 0, 0, 1] {
                                if h + d >= 0 { v.push(self.abs(h + d)); }
                            }
                        }
                    }
                }
            }
        }
        v
    }

    fn run(&mut self, events: usize) {
        let zero = self.intern_root(MerkleHashOrchard::empty_root(Level::from(orchard::NOTE_COMMITMENT_TREE_DEPTH as u8)).to_bytes());
        assert_eq!(zero, 0);
        self.emit(json!({"a": "reset"}));
        // a few blocks with notes for both accounts, scanned
        let k = self.rng.gen_range(4..8);
        for i in 0..k {
            let v = 150_000 + 10_000 * i as u64;
            let mut r = vec![(1usize, v), (2usize, v + 5_000)];
            if self.rng.gen_bool(0.5) { r.push((1, v + 7_000)); }
            if i == 1 && self.rng.gen_bool(0.5) { r.clear(); }
            self.block(&[], None, &r);
        }
        self.tip();
        let n = self.rng.gen_range(k - 2..=k);
        self.scan(self.w.base + 1, n as usize);
        let mut left = events;
        while left > 0 && !self.aborted {
            left -= 1;
            let a = if self.rng.gen_bool(0.6) { 1 } else { 2 };
            let top = self.chain.top();
            let fs = self.wallet_fs();
            // what the state of the world makes worthwhile (weights)
            let mineable = self.mineable();
            let has_pending = self.pending(a).is_some();
            let promotable = self.promotable(a);
            let mut menu: Vec<(&str, u32)> = vec![
                ("fresh", if has_pending { 1 } else { 14 }),
                ("move", if has_pending { 24 } else { 0 }),
                ("promote", if promotable { 16 } else { 0 }),
                ("update_tx", if has_pending { 5 } else { 1 }),
                ("store_proved", if has_pending { 4 } else { 0 }),
                ("take", if has_pending { 5 } else { 0 }),
                // (with no live record cancel only repairs: it must leave the newest record's status as recorded)
                ("cancel", if has_pending { 2 } else if self.last["acct"][a - 1]["latest"].as_i64().unwrap_or(0) > 0 { 5 } else { 1 }),
                ("retire", if self.holds_reservation(a) { 7 } else if self.live_has_mined(a) { 5 } else { 0 }),
                ("block", if mineable.is_empty() { 8 } else { 20 }),
                ("scan", if fs < top { 18 } else { 0 }),
                ("rewind", if self.mined_heights().is_empty() { 10 } else { 22 }),
                ("oracle", 6),
            ];
            if top - self.w.base > 60 { menu.retain(|m| m.0 != "block"); }
            let total: u32 = menu.iter().map(|m| m.1).sum();
            let mut x = self.rng.gen_range(0..total);
            let mut choice = "oracle";
            for (name, wgt) in &menu {
                if x < *wgt { choice = name; break; }
                x -= wgt;
            }
            match choice {
                "fresh" => {
                    // (with a live record: a different migration persisted over it -- the record is rewritten in place)
                    let s = self.fresh_state(a);
                    self.persist(a, &s, if has_pending { "replace" } else { "fresh" });
                }
                "move" => self.life_cycle_move(a, false),
                "promote" => self.life_cycle_move(a, true),
                "update_tx" => self.update_tx(a),
                "store_proved" => self.store_proved(a),
                "take" => self.take(a),
                "cancel" => self.cancel(a),
                "retire" => {
                    if self.rng.gen_bool(0.5) { self.cancel(a) } else if let Some(mut s) = self.pending(a) {
                        match self.rng.gen_range(0..3) {
                            0 => { s.mark_superseded(); self.persist(a, &s, "superseded"); }
                            1 => { s.mark_cancelled(); self.persist(a, &s, "cancelled"); }
                            _ => { let s2 = Self::rebuild(&s, MigrationStatus::Failed, &|_, t| t.clone()); self.persist(a, &s2, "failed"); }
                        }
                    }
                }
                "block" => {
                    // a block: some of the broadcast transactions get mined; now and then somebody else spends an input
                    let mut mine = mineable;
                    mine.shuffle(&mut self.rng);
                    let keep = *[0usize, 1, 1, 2, 2, 3].choose(&mut self.rng).unwrap();
                    mine.truncate(keep);
                    let sweep = if self.rng.gen_bool(0.2) {
                        let mut c: Vec<u32> = self.free_notes(1).into_iter().chain(self.free_notes(2)).collect();
                        // not an input of a transaction mined in this very block
                        let p = self.last.clone();
                        let mined_inputs: BTreeSet<u32> = (0..2).flat_map(|x| p["acct"][x]["recs"].as_array().unwrap().clone()).flat_map(|r| r["tx"].as_array().unwrap().clone())
                            .filter(|t| mine.contains(&t["u"].as_i64().unwrap())).flat_map(|t| t["nfs"].as_array().unwrap().clone()).map(|n| n.as_i64().unwrap() as u32).collect();
                        c.retain(|n| !mined_inputs.contains(n));
                        c.choose(&mut self.rng).copied()
                    } else { None };
                    let mut r = vec![];
                    if self.rng.gen_bool(0.4) { r.push((a, 120_000 + self.rng.gen_range(0..50) * 1_000)); }
                    self.block(&mine, sweep, &r);
                    if self.rng.gen_bool(0.5) { self.tip(); }
                }
                "scan" => {
                    // the next blocks in order, or the top block ahead of a gap
                    if top - fs >= 3 && self.rng.gen_bool(0.25) && !self.scanned_heights().contains(&top) {
                        self.scan(top, 1);
                    } else {
                        let n = self.rng.gen_range(1..=3);
                        self.scan(fs + 1, n);
                    }
                }
                "rewind" => {
                    // aimed at the heights where something is recorded
                    let mut c = self.interesting_heights();
                    c.push(fs);
                    c.push(fs.saturating_sub(1).max(self.w.base + 1));
                    c.push(self.w.base + 1 + self.rng.gen_range(0..(top - self.w.base).max(1)));
                    let mut req = (*c.choose(&mut self.rng).unwrap()).max(self.w.base + 1);
                    // mostly: just below / exactly at the height at which a row of a record the cascade visits is mined
                    let mh = self.mined_heights();
                    if !mh.is_empty() && self.rng.gen_bool(0.6) {
                        let h = *mh.choose(&mut self.rng).unwrap();
                        req = if self.rng.gen_bool(0.5) { h.saturating_sub(1).max(self.w.base + 1) } else { h };
                    }
                    let mode = *["height", "cs", "cs", "rewind_cs"].choose(&mut self.rng).unwrap();
                    if mode != "height" && req > top { continue; }
                    let fork = self.rng.gen_bool(0.5);
                    self.rewind(mode, req, fork);
                }
                _ => self.oracle(a),
            }
            // the oracle is asked often: after every event that may have changed its answers
            if self.rng.gen_bool(0.35) {
                let b = if self.rng.gen_bool(0.5) { 1 } else { 2 };
                self.oracle(b);
            }
        }
    }
}

// ------------------------------------------------------------------------------------------------
// a migration of the engine's own making, with real proofs

/// The store the wallet adapter is handed for planning and committing (its commit guard asks whether a migration is
/// in progress); the drive runs against the SQLite store.
#[derive(Default)]
struct MemStore(Option<MigrationState>);
impl PoolMigrationRead for MemStore {
    type Error = std::convert::Infallible;
    fn get_migration(&self) -> Result<Option<MigrationState>, Self::Error> { Ok(self.0.clone()) }
    fn check_step_satisfiability(&self, _tx: &MigrationTransaction, _settle: ReorgSettleDepth) -> Result<StepSatisfiability, Self::Error> {
        Ok(StepSatisfiability::Satisfiable { as_of_height: BlockHeight::from_u32(0) })
    }
    fn mined_height(&self, _txid: TxId) -> Result<Option<BlockHeight>, Self::Error> { Ok(None) }
}
impl PoolMigrationWrite for MemStore {
    fn replace_migration(&mut self, state: &MigrationState) -> Result<(), Self::Error> { self.0 = Some(state.clone()); Ok(()) }
    fn update_transaction(&mut self, _id: MigrationTransferId, _state: MigrationTxState) -> Result<(), Self::Error> { Ok(()) }
    fn store_proved_transaction(&mut self, state: &mut MigrationState, proven: ProvedTransaction) -> Result<(), Self::Error> {
        proven.apply(state);
        self.replace_migration(state)
    }
}

impl H<'_> {
    fn digest(bytes: &[u8]) -> String {
        hex::encode(blake2b_simd::Params::new().hash_length(6).hash(bytes).as_bytes())
    }

    /// Prove one transaction with the wallet-backed prover (which reserves the inputs) and hand the proof to the store.
    fn real_prove(&mut self, a: usize, state: &mut MigrationState, id: MigrationTransferId, kind: MigrationTxKind, fvk: &orchard::keys::FullViewingKey) -> bool {
        let acct = self.w.acct_ids[a - 1];
        let net = self.w.net;
        let tip = BlockHeight::from(self.chain.top());
        let anchor = matches!(kind, MigrationTxKind::Preparation { .. })
            .then(|| zcash_client_sqlite::testing::highest_rooted_orchard_checkpoint(self.w.st.wallet_mut(), tip).expect("a rooted Orchard checkpoint exists"));
        let mut prng = ChaChaRng::seed_from_u64(97 + u32::from(id) as u64);
        let outcome = guarded(|| {
            let mut prover = WalletMigrationProver::new(self.w.st.wallet_mut(), acct, fvk.clone());
            match anchor {
                Some(h) => engine::prove_preparation(&mut prover, state, id, h).map_err(|e| format!("{e:?}")),
                None => engine::prove_transfer(&net, &mut prover, state, id, tip, &mut prng).map_err(|e| format!("{e:?}")),
            }
        });
        match outcome {
            Ok(Ok(engine::ProveOutcome::Proved(proven))) => {
                if let Some(o) = proven.lock_owner() {
                    if self.token_id(o.as_bytes()) < 0 { self.tokens.push(*o.as_bytes()); }
                }
                if let Some(x) = pczt::Pczt::parse(proven.pczt()).ok().and_then(|p| *p.orchard().anchor()) { self.intern_root(x); }
                self.register_state(state);
                let token = proven.lock_owner().map(|o| self.token_id(o.as_bytes())).unwrap_or(0);
                let notes: Vec<i64> = state.transactions().iter().find(|t| t.id() == id).unwrap().spend_nullifiers().iter().map(|b| self.note_of_nf(b)).collect();
                if token != 0 {
                    // the reservation the prover took (the environment of the store)
                    self.emit(json!({"a": "lock", "notes": notes, "token": token, "res": "ok", "err": ""}));
                }
                let rec = self.project(state, 0);
                let (pz, pd) = (self.pczt_anchor(proven.pczt()), Self::digest(proven.pczt()));
                let res = guarded(|| self.store(a).and_then(|mut m| m.store_proved_transaction(state, proven)).map_err(|e| format!("{e:?}")));
                let (c, e) = h_wallet::run::res_class(&res);
                if c == "panic" { self.stats.panics += 1; }
                let same = self.pending(a).as_ref() == Some(&*state);
                self.stats.real_proofs += 1;
                self.emit(json!({"a": "store_proved", "acct": a, "rec": rec, "id": u32::from(id), "pz": pz, "pd": pd, "lock": token, "res": c, "err": e, "same": same}));
                c == "ok"
            }
            Ok(Ok(_)) => {
                // not yet provable, or marked: the state (with whatever the engine determined) is persisted
                self.register_state(state);
                self.persist(a, state, "prove-declined");
                false
            }
            other => {
                eprintln!("c18_store_driver: proving failed: {other:?}");
                self.aborted = true;
                false
            }
        }
    }

    /// The broadcast seam for a proved row, the broadcast recorded, the transaction mined by the harness chain and
    /// scanned, the row promoted at the height the store's own oracle reports.  Returns that height.
    fn real_broadcast(&mut self, a: usize, state: &mut MigrationState, id: MigrationTransferId) -> Option<u32> {
        self.register_state(state);
        let rec = self.project(state, 0);
        let res = guarded(|| self.store(a).and_then(|mut m| m.take_transaction_for_broadcast(state, id)));
        let tx = match res {
            Ok(Ok(tx)) => tx,
            other => {
                let e = format!("{:?}", other.map(|r| r.map(|_| ()))).chars().take(300).collect::<String>();
                self.emit(json!({"a": "take", "acct": a, "rec": rec, "id": u32::from(id), "res": "err", "err": e, "recorded": false, "spent": []}));
                self.aborted = true;
                return None;
            }
        };
        let nfs: Vec<[u8; 32]> = tx.orchard_bundle().map(|b| b.actions().iter().map(|x| x.nullifier().to_bytes()).collect()).unwrap_or_default();
        let inputs: Vec<u32> = self.chain.notes.iter().filter(|(_, ni)| matches!(ni.nf, Nf::Orchard(nf) if ni.pool == Pool::Orchard && nfs.contains(&nf.to_bytes()))).map(|(n, _)| *n).collect();
        let spent: Vec<i64> = inputs.iter().map(|n| self.label(*n)).collect();
        let recorded = self.w.st.wallet().get_transaction(tx.txid()).ok().flatten().is_some();
        let row_txid_ok = state.transactions().iter().find(|t| t.id() == id).map(|t| t.txid() == tx.txid()).unwrap_or(false);
        self.stats.takes_ok += 1;
        self.emit(json!({"a": "take", "acct": a, "rec": rec, "id": u32::from(id), "res": "ok", "err": "", "recorded": recorded && row_txid_ok, "spent": spent}));
        state.mark_broadcast(id);
        self.persist(a, state, "broadcast");
        // mined in the next block
        let created = self.chain.register_created(&tx, &inputs, self.chain.top());
        let u = self.uid_of(&tx.txid());
        self.fab.insert(u, (created.abs.clone(), created.ctx.clone()));
        self.block(&[u], None, &[]);
        self.tip();
        let h = self.chain.top();
        self.scan(h, 1);
        self.oracle(a);
        self.real_promote(a, state)
    }

    /// promote every broadcast row the store's oracle reports mined; returns the last height
    fn real_promote(&mut self, a: usize, state: &mut MigrationState) -> Option<u32> {
        let rows: Vec<(MigrationTransferId, TxId)> = state.transactions().iter().filter(|t| matches!(t.state(), MigrationTxState::Broadcast { .. })).map(|t| (t.id(), t.txid())).collect();
        let mut last = None;
        for (id, txid) in rows {
            if let Some(h) = self.store(a).ok().and_then(|m| m.mined_height(txid).ok().flatten()) {
                state.mark_mined(id, h);
                last = Some(u32::from(h));
            }
        }
        if last.is_some() { self.persist(a, state, "mined"); }
        last
    }

    /// the record the engine works on, as the store holds it now (the live one, else the newest)
    fn real_reload(&mut self, a: usize) -> Option<MigrationState> {
        let m = self.store(a).ok()?;
        m.get_migration().ok().flatten().or_else(|| m.latest_migration().ok().flatten())
    }

    /// A rewind below the height at which the transaction was just mined, and back: without a fork the same block is
    /// scanned again; with one the chain is replaced and the transaction mined again two blocks later.
    fn real_rewind_experiment(&mut self, a: usize, state: &mut MigrationState, u: i64, h: u32, fork: bool) {
        let mode = if fork { "cs" } else { *["cs", "height", "rewind_cs"].choose(&mut self.rng).unwrap() };
        self.rewind(mode, h - 1, fork);
        self.oracle(a);
        if let Some(s) = self.real_reload(a) { *state = s; }
        if self.chain_height_of(u).is_none() {
            self.block(&[], None, &[(2, 210_000)]);
            self.block(&[u], None, &[]);
        }
        self.tip();
        let fs = self.wallet_fs();
        self.scan(fs + 1, (self.chain.top() - fs) as usize);
        self.oracle(a);
        self.real_promote(a, state);
    }

    fn real_history(&mut self) {
        let zero = self.intern_root(MerkleHashOrchard::empty_root(Level::from(orchard::NOTE_COMMITMENT_TREE_DEPTH as u8)).to_bytes());
        assert_eq!(zero, 0);
        self.emit(json!({"a": "reset"}));
        let a = 1usize;
        let acct = self.w.acct_ids[0];
        let net = self.w.net;
        let usk = self.w.st.test_account().expect("the test account").usk().clone();
        let ufvk = usk.to_unified_full_viewing_key();
        let fvk = ufvk.orchard().expect("an Orchard key").clone();
        // one minimum-denomination note: one preparation, one transfer
        self.block(&[], None, &[(1, 1_520_000), (2, 300_000)]);
        for _ in 0..5 { self.block(&[], None, &[]); }
        self.tip();
        self.scan(self.w.base + 1, 6);
        let tip = BlockHeight::from(self.chain.top());
        let mut crng = ChaChaRng::seed_from_u64(self.rng.r#gen());
        let committed = guarded(|| -> Result<MigrationState, String> {
            let adapter = WalletMigration::new(self.w.st.wallet(), acct, ufvk.clone(), MemStore::default());
            let plan = engine::plan_migration(&net, &adapter, &mut crng).map_err(|e| format!("plan: {e:?}"))?;
            let mut adapter = adapter;
            engine::commit_preparation_with_funding(&net, tip, &mut adapter, usk.orchard(), &plan, &mut crng, ReplanThreshold::DEFAULT)
                .map(|(s, _)| s)
                .map_err(|e| format!("commit: {e:?}"))
        });
        let mut state = match committed {
            Ok(Ok(s)) => s,
            other => { eprintln!("c18_store_driver: the engine did not commit: {:?}", other.map(|r| r.map(|_| ()))); self.aborted = true; return; }
        };
        self.register_state(&state);
        self.persist(a, &state, "commit");
        self.oracle(a);
        let cfg = satisfiability::AdvanceConfig::new(ReorgSettleDepth::new(10));
        let mut drng = ChaChaRng::seed_from_u64(0x318);
        let mut experiments = 0u32;
        for _round in 0..400 {
            if self.aborted { break; }
            let target = BlockHeight::from(self.chain.top() + 1);
            let step = {
                let net = self.w.net;
                let acct = self.w.acct_ids[a - 1];
                let conn = self.w.st.wallet_mut().conn_mut();
                let mut store = PoolMigrations::for_account(net, SystemClock, conn, acct).expect("the account's store");
                satisfiability::advance_migration(&mut store, &mut state, satisfiability::DuenessTargets::at(target), &cfg, &mut drng).map(|adv| adv.step().clone())
            };
            let step = match step { Ok(s) => s, Err(e) => { eprintln!("c18_store_driver: advance_migration: {e:?}"); self.aborted = true; break; } };
            self.register_state(&state);
            // (whatever the drive call determined and wrote back is persisted as an event of its own -- while the record
            // is live: persisting a terminal state once more would append a second history record)
            if self.pending(a).is_some() { self.persist(a, &state, "advance"); }
            match step {
                AdvanceStep::Prove { transactions } => {
                    for t in transactions {
                        self.real_prove(a, &mut state, t.id(), t.kind(), &fvk);
                    }
                }
                AdvanceStep::Broadcast { id } => {
                    let u = state.transactions().iter().find(|t| t.id() == id).map(|t| self.uid_of(&t.txid())).unwrap_or(-1);
                    if let Some(h) = self.real_broadcast(a, &mut state, id) {
                        // un-mine it again: once along the same chain, once with a different continuation
                        self.real_rewind_experiment(a, &mut state, u, h, experiments % 2 == 1);
                        experiments += 1;
                    }
                }
                AdvanceStep::Waiting => {
                    for _ in 0..6 { self.block(&[], None, &[]); }
                    self.tip();
                    let fs = self.wallet_fs();
                    self.scan(fs + 1, 6);
                    if self.rng.gen_bool(0.2) { self.oracle(a); }
                }
                AdvanceStep::Complete => {
                    self.stats.real_completed += 1;
                    break;
                }
                other => { eprintln!("c18_store_driver: the healthy migration was asked to {other:?}"); break; }
            }
        }
        if self.aborted { return; }
        // the completed migration is history now; a rewind below its last transaction revokes the completion
        let last = self.mined_heights().into_iter().max();
        if let Some(h) = last {
            self.rewind("cs", h - 1, false);
            self.oracle(a);
            if let Some(mut s) = self.real_reload(a) {
                self.tip();
                let fs = self.wallet_fs();
                self.scan(fs + 1, (self.chain.top() - fs) as usize);
                self.oracle(a);
                self.real_promote(a, &mut s);
            }
            // and the user's cancel on a finished migration rewrites nothing
            self.cancel(a);
        }
    }
}

// ------------------------------------------------------------------------------------------------
// a scripted history: every category the vacuity guards count, whatever the seed

impl H<'_> {
    /// a committed migration of the account over the given input notes, one transfer each (the first row a preparation
    /// the others depend on when `with_prep`)
    fn scripted_state(&mut self, notes: &[u32], with_prep: bool) -> MigrationState {
        let top = self.chain.top();
        let mut s = self.fresh_state(1);
        let mut txs = vec![];
        for (i, n) in notes.iter().enumerate() {
            let prep = with_prep && i == 0;
            let kind = if prep { MigrationTxKind::Preparation { layer: 0, index: 0 } } else { MigrationTxKind::Transfer { crossing: i.min(2) } };
            let deps = if with_prep && i > 0 { vec![MigrationTransferId::new(0)] } else { vec![] };
            let u = self.new_uid();
            let anchor = self.non_root();
            let pczt = self.pczt_for(anchor);
            txs.push(MigrationTransaction::from_parts(
                MigrationTransferId::new(i as u32), kind, pczt, deps, BlockHeight::from(top + 1), BlockHeight::from(top + 400),
                if prep { None } else { Some(BlockHeight::from(self.w.base + 2)) }, self.txid(u), MigrationTxState::Signed, None, None,
                vec![self.nf_bytes(*n as i64)], None,
            ));
        }
        s = MigrationState::from_parts(MigrationStatus::Committed, s.denominations().clone(), s.preparation().clone(), txs, AnchorBucketInterval::ZIP_318, ReplanThreshold::DEFAULT);
        s
    }

    /// prove (with a reservation) and broadcast row `k` of the account's live record
    fn scripted_prove(&mut self, a: usize, k: usize, broadcast: bool) {
        let mut s = self.pending(a).expect("a live record");
        let id = s.transactions()[k].id();
        let notes: Vec<u32> = s.transactions()[k].spend_nullifiers().iter().map(|b| self.note_of_nf(b) as u32).collect();
        self.next_token += 1;
        let t = self.next_token;
        self.lock(&notes, t);
        let a2 = self.non_root();
        let bytes = self.pczt_for(a2);
        s.set_transaction_proved(id, bytes, Some(MigrationLockOwner::from_bytes([t; 32])));
        self.persist(a, &s, "proved");
        if broadcast {
            s.mark_broadcast(id);
            self.persist(a, &s, "broadcast");
        }
    }

    /// mine the broadcast transactions, scan, and promote at the height the store's own oracle reports
    fn scripted_mine(&mut self, a: usize, rows: &[usize]) -> u32 {
        let s = self.pending(a).expect("a live record");
        let uids: Vec<i64> = rows.iter().map(|k| self.uid_of(&s.transactions()[*k].txid())).collect();
        self.block(&uids, None, &[]);
        self.tip();
        let fs = self.wallet_fs();
        self.scan(fs + 1, (self.chain.top() - fs) as usize);
        self.oracle(a);
        self.scripted_promote(a);
        self.chain.top()
    }
    fn scripted_promote(&mut self, a: usize) {
        let Some(mut s) = self.real_reload(a) else { return };
        if s.status().is_terminal() { return; }
        self.real_promote(a, &mut s);
    }
    fn scripted_rescan(&mut self, a: usize) {
        self.tip();
        let fs = self.wallet_fs();
        if fs < self.chain.top() { self.scan(fs + 1, (self.chain.top() - fs) as usize); }
        self.oracle(a);
        self.scripted_promote(a);
    }

    fn scripted_history(&mut self) {
        let zero = self.intern_root(MerkleHashOrchard::empty_root(Level::from(orchard::NOTE_COMMITMENT_TREE_DEPTH as u8)).to_bytes());
        assert_eq!(zero, 0);
        self.emit(json!({"a": "reset"}));
        for i in 0..5u64 {
            self.block(&[], None, &[(1, 150_000 + i * 1_000), (2, 160_000 + i * 1_000), (1, 170_000 + i * 1_000)]);
        }
        self.tip();
        self.scan(self.w.base + 1, 5);
        let n1 = self.free_notes(1);
        let n2 = self.free_notes(2);
        // account 1: a preparation and a transfer depending on it; account 2: a single transfer
        let s1 = self.scripted_state(&n1[..2], true);
        self.persist(1, &s1, "fresh");
        let s2 = self.scripted_state(&n2[..1], false);
        self.persist(2, &s2, "fresh");
        self.scripted_prove(1, 0, true);
        self.scripted_prove(1, 1, false);      // proved, reserved, never broadcast
        self.scripted_prove(2, 0, true);
        self.oracle(1);
        let h = self.scripted_mine(1, &[0]);
        // a rewind exactly AT the mined height spares the row, one block lower un-mines it
        self.rewind("cs", h, false);
        self.oracle(1);
        self.rewind("height", h - 1, false);
        self.oracle(1);
        self.scripted_rescan(1);
        // account 2 completes; a rewind below revokes the completion, the rescan restores it
        let h2 = self.scripted_mine(2, &[0]);
        self.rewind("cs", h2, false);
        self.rewind("cs", h2 - 1, false);
        self.oracle(2);
        self.scripted_rescan(2);
        self.scripted_rescan(1);
        // account 1's migration is cancelled: the reservation of its never-broadcast row goes, the record stays as
        // history with its mined row -- which a rewind below must not touch
        self.cancel(1);
        self.rewind("cs", h - 1, false);
        self.oracle(1);
        self.cancel(1);                          // nothing live: the repair half only
        self.scripted_rescan(2);
        // a new migration for each account; account 2's Complete record cannot be revived next to its successor:
        // the rewind below its mined row is refused as a whole
        let n1 = self.free_notes(1).into_iter().filter(|n| !self.reserved.contains(n)).collect::<Vec<_>>();
        let s1 = self.scripted_state(&n1[..1], false);
        self.persist(1, &s1, "fresh");
        let n2 = self.free_notes(2).into_iter().filter(|n| !self.reserved.contains(n)).collect::<Vec<_>>();
        let s2 = self.scripted_state(&n2[..1], false);
        self.persist(2, &s2, "fresh");
        self.rewind("cs", h2 - 1, false);
        self.oracle(2);
        // the successor is superseded (a policy decision persisted through the ordinary path); now the rewind goes through
        let mut s = self.pending(2).expect("a live record");
        s.mark_superseded();
        self.persist(2, &s, "superseded");
        self.rewind("cs", h2 - 1, true);
        self.oracle(2);
        self.update_tx(1);
        self.store_proved(1);
        self.take(1);
    }
}

fn main() {
    quiet_panics();
    let args: Vec<String> = std::env::args().collect();
    let out_path = &args[1];
    let histories: u64 = args[2].parse().unwrap();
    let events: usize = args[3].parse().unwrap();
    // histories of a migration planned, committed and proved by the engine itself (real Halo 2 proofs: seconds each)
    let real: u64 = args.get(4).map(|x| x.parse().unwrap()).unwrap_or(0);
    let seed = seed_from_env();
    let mut out = NdjsonWriter::create(out_path);
    let mut stats = Stats::default();
    if histories > 0 {
        let mut rng = ChaChaRng::seed_from_u64(seed.wrapping_mul(5_000_011));
        let (w, keys) = W::new(true);
        let chain = Chain::new(w.base, keys, &mut rng, true);
        let mut h = H {
            w, chain, rng, out: &mut out, uid_bytes: vec![], fab: BTreeMap::new(), anchors: vec![], pczts: HashMap::new(), rids: HashMap::new(),
            next_token: 0, reserved: BTreeSet::new(), stats: &mut stats, aborted: false, max_from: 0, last: Value::Null, nf_alias: HashMap::new(), tokens: vec![],
        };
        h.scripted_history();
    }
    for hno in 0..histories {
        let mut rng = ChaChaRng::seed_from_u64(seed.wrapping_mul(1_000_003).wrapping_add(hno));
        let (w, keys) = W::new(true);
        let chain = Chain::new(w.base, keys, &mut rng, true);
        let mut h = H {
            w, chain, rng, out: &mut out, uid_bytes: vec![], fab: BTreeMap::new(), anchors: vec![], pczts: HashMap::new(), rids: HashMap::new(),
            next_token: 0, reserved: BTreeSet::new(), stats: &mut stats, aborted: false, max_from: 0, last: Value::Null, nf_alias: HashMap::new(), tokens: vec![],
        };
        h.run(events);
    }
    for hno in 0..real {
        let mut rng = ChaChaRng::seed_from_u64(seed.wrapping_mul(7_000_003).wrapping_add(hno));
        // (an anchor grid of 8 blocks compresses the schedule the engine draws)
        let (w, keys) = W::with_retention(true, Some(8));
        let chain = Chain::new(w.base, keys, &mut rng, true);
        let mut h = H {
            w, chain, rng, out: &mut out, uid_bytes: vec![], fab: BTreeMap::new(), anchors: vec![], pczts: HashMap::new(), rids: HashMap::new(),
            next_token: 0, reserved: BTreeSet::new(), stats: &mut stats, aborted: false, max_from: 0, last: Value::Null, nf_alias: HashMap::new(), tokens: vec![],
        };
        h.real_history();
    }
    let n = out.finish();
    let _ = AccountUuid::from_uuid;
    println!(
        "{}",
        json!({
            "lines": n, "events": stats.events, "rewinds_ok": stats.rewinds_ok, "rewinds_demoting": stats.rewinds_demoting,
            "rewinds_sparing": stats.rewinds_sparing, "rewinds_refused_conflict": stats.rewinds_refused_conflict,
            "rewinds_refused_wallet": stats.rewinds_refused_wallet, "rewinds_forked": stats.rewinds_forked, "rewinds_wiped": stats.rewinds_wiped, "rewinds_below_history": stats.rewinds_below_history, "uncompleted": stats.uncompleted,
            "oracle_answers": stats.oracle_mined, "oracle_mined_some": stats.oracle_mined_some, "oracle_withheld": stats.oracle_withheld,
            "oracle_sat": stats.oracle_sat, "accounts_used": stats.accounts_used.len(), "releases": stats.releases,
            "cancels_pending": stats.cancels_pending, "terminal_persists": stats.terminal_persists, "remined": stats.remined, "panics": stats.panics, "scan_errors": stats.scan_errors, "takes_ok": stats.takes_ok, "real_proofs": stats.real_proofs, "real_completed": stats.real_completed,
        })
    );
}
