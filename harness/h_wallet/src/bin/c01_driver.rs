//! C01/C06/C15 code -> spec driver: histories of block arrivals, scans of arbitrary ranges in
//! arbitrary order (with repeats), chain-tip updates, rewinds with and without a different
//! continuation of the chain, against the real SQLite wallet. One ndjson event per operation,
//! logged after the call returned, with the projection of the wallet state.
//!
//! usage: c01_driver <out.ndjson> <histories> <ops-per-history> [ironwood]     seeded random histories
//!        c01_driver <out.ndjson> scenarios                                     the scenario library
//! (scenarios: orderings the specification's safeguards exist for — spend scanned before its
//! receipt across 99..102-block gaps, batches longer than the nullifier retention, rewinds across
//! spends, orphan expiry at exactly 40 blocks)
use h_wallet::chain::{OutReq, Pool, TxReq};
use h_wallet::run::Run;
use h_wallet::util::{NdjsonWriter, quiet_panics, seed_from_env};
use rand::{Rng, SeedableRng};
use rand_chacha::ChaChaRng;
use serde_json::json;

// -------------------------------------------------------------------------------------------
// scenario library (DESIGN §1.4): each is one history

fn scenarios(out: &mut NdjsonWriter) {
    let mut id = 0;
    // A: a spend scanned before its receipt, separated by k blocks; the receipt block is scanned last
    for &k in &[1u32, 98, 99, 100, 101, 102, 160] {
        for &pool in &[Pool::Sapling, Pool::Orchard] {
            for variant in 0..2 {
                id += 1;
                let mut r = Run::new(out, 1000 + id, false, json!(format!("A k={k} {} v{variant}", pool.code())));
                let n = r.recv(pool, 60_000, false);
                r.empties(k);
                r.spend(n, 20_000, pool);
                r.empties(if variant == 0 { 2 } else { 140 });
                r.tip_top();
                if variant == 0 {
                    // everything but the receipt block in one batch, then the receipt
                    r.scan(r.abs(2), 500);
                } else {
                    // the spend block alone, then blocks far ahead of it, then the stretch in between
                    r.scan(r.abs(k + 2), 1);
                    r.scan(r.abs(k + 2 + 105), 30);
                    r.scan(r.abs(2), k as usize);
                }
                r.scan(r.abs(1), 1);
                r.catch_up_and_fresh();
            }
        }
    }
    // A': as A, but a block below the receipt is scanned first (so a fully-scanned height exists) and
    // the spend lies more than the nullifier retention below the end of the batch that contains it
    for &k in &[1u32, 60, 101] {
        for &pool in &[Pool::Sapling, Pool::Orchard] {
            id += 1;
            let mut r = Run::new(out, 1500 + id, false, json!(format!("A' k={k} {}", pool.code())));
            r.empties(1);
            r.tip_top();
            r.scan(r.abs(1), 1);
            let n = r.recv(pool, 60_000, false);
            r.empties(k);
            r.spend(n, 20_000, pool);
            r.empties(130);
            r.tip_top();
            r.scan(r.abs(3), 1000);
            r.scan(r.abs(2), 1);
            r.catch_up_and_fresh();
        }
    }
    // B: one batch longer than the nullifier retention that extends the fully-scanned frontier and
    // holds receipt and spend on either side of the tracking floor
    for &(a, b, c) in &[(5u32, 5u32, 150u32), (5, 120, 30), (90, 5, 20), (1, 99, 1), (1, 100, 1), (1, 101, 1)] {
        for &pool in &[Pool::Sapling, Pool::Orchard] {
            id += 1;
            let mut r = Run::new(out, 2000 + id, false, json!(format!("B {a},{b},{c} {}", pool.code())));
            let n0 = r.recv(pool, 50_000, false);
            r.tip_top();
            r.scan(r.abs(1), 1);
            r.empties(a);
            let n1 = r.recv(pool, 70_000, false);
            r.empties(b);
            r.spend(n1, 0, pool);
            r.empties(c);
            r.spend(n0, 10_000, pool);
            r.tip_top();
            r.scan(r.abs(2), 1000);
            r.catch_up_and_fresh();
        }
    }
    // C: a rewind across a spend whose link already exists; the orphaned spender keeps the note spent
    // until it expires, 40 blocks after it was observed; the tip is advanced block by block
    for &pool in &[Pool::Sapling, Pool::Orchard] {
        id += 1;
        let mut r = Run::new(out, 3000 + id, false, json!(format!("C {}", pool.code())));
        let n = r.recv(pool, 80_000, false);
        r.spend(n, 30_000, pool);
        r.empties(2);
        r.tip_top();
        r.scan(r.abs(1), 10);
        r.trunc(r.abs(1), true);
        for _ in 0..45 {
            r.empties(1);
            r.tip_top();
        }
        r.catch_up_and_fresh();
    }
    // D: an orphaned receipt stops counting exactly 40 blocks after it was observed; then it is mined again
    for &pool in &[Pool::Sapling, Pool::Orchard] {
        id += 1;
        let mut r = Run::new(out, 4000 + id, false, json!(format!("D {}", pool.code())));
        r.recv(pool, 11_000, false);
        r.recv(pool, 90_000, false);
        r.tip_top();
        r.scan(r.abs(1), 10);
        r.trunc(r.abs(1), true);
        for _ in 0..43 {
            r.empties(1);
            r.tip_top();
        }
        if !r.orphaned.is_empty() {
            let remined = vec![r.orphaned.remove(0)];
            r.block(&[], &remined, true);
        }
        r.catch_up_and_fresh();
    }
}

/// C06 scenarios: more non-empty blocks than the checkpoint budget (100), one pool silent for long
/// stretches, batches of different sizes, then rewinds to the newest, a middle and the oldest
/// retained checkpoint
fn tree_scenarios(out: &mut NdjsonWriter, ironwood: bool, variants: &[u64]) {
    for &variant in variants {
        let mut r = Run::new(out, 7000 + variant, ironwood, json!(format!("T v{variant} iw={ironwood}")));
        let mut rng = ChaChaRng::seed_from_u64(variant);
        for i in 0..130u32 {
            // Sapling-only stretch, Orchard-only stretch, mixed, some empty blocks
            let pool = match (variant, i) {
                (0, _) => if i % 2 == 0 { Pool::Sapling } else { Pool::Orchard },
                (1, 0..=59) => Pool::Sapling,
                (1, _) => Pool::Orchard,
                (_, _) => if ironwood && i % 3 == 0 { Pool::Ironwood } else if i % 3 == 1 { Pool::Orchard } else { Pool::Sapling },
            };
            if i % 11 == 10 {
                r.empties(1);
            } else {
                let foreign = i % 4 != 0;
                r.block(&[TxReq { outs: vec![OutReq { pool, acct: if foreign { 0 } else { 1 }, internal: false, diversified: false, value: 20_000 + i as u64 }], spends: vec![], foreign_spends: vec![] }], &[], false);
            }
            if i % 17 == 16 || i == 129 {
                r.tip_top();
                // scan what is new in batches of varying size
                loop {
                    let scanned = r.scanned();
                    let top = r.chain.top();
                    let Some(from) = (r.chain.base + 1..=top).find(|h| !scanned.contains(&r.w.rel(*h))) else { break };
                    let limit = rng.gen_range(1..9);
                    if !r.scan(from, limit) { break }
                }
            }
        }
        let top = r.chain.top();
        r.trunc(top - 1, true);
        r.empties(2);
        r.catch_up_and_fresh();
        let top = r.chain.top();
        r.trunc(top - 50, true);
        r.empties(3);
        r.catch_up_and_fresh();
        let top = r.chain.top();
        r.trunc(top.saturating_sub(99).max(r.chain.base + 1), false);
        r.catch_up_and_fresh();
    }
}

/// C06 retention scenarios (NU6.3 active, small custom grids): boundary blocks with and without
/// commitments in each pool, batches shorter and longer than the checkpoint budget, batch
/// boundaries before / on / after a grid height
fn retention_scenarios(out: &mut NdjsonWriter, which: &[u32]) {
    for &variant in which {
        let interval = [12u32, 7, 30][variant as usize % 3];
        let mut r = Run::with_retention(out, 8000 + variant as u64, true, Some(interval), json!(format!("R v{variant} interval={interval}")));
        let mut rng = ChaChaRng::seed_from_u64(variant as u64);
        let total = if variant >= 3 { 260 } else { 90 };
        for i in 1..=total {
            let h = r.chain.top() + 1;
            let on_grid = h % interval == 0;
            // variants: boundary blocks empty / Sapling silent on boundaries / everything dense
            let pools: Vec<Pool> = match variant % 3 {
                0 => if on_grid { vec![] } else { vec![Pool::Sapling, Pool::Orchard] },
                1 => if on_grid { vec![Pool::Orchard] } else { vec![Pool::Sapling] },
                // Sapling in every block (more own checkpoints than the budget in one long batch), the others alternating
                _ => vec![Pool::Sapling, [Pool::Orchard, Pool::Ironwood][(i % 2) as usize]],
            };
            let txs: Vec<TxReq> = pools
                .iter()
                .map(|p| TxReq { outs: vec![OutReq { pool: *p, acct: if i % 5 == 0 { 1 } else { 0 }, internal: false, diversified: false, value: 30_000 + i as u64 }], spends: vec![], foreign_spends: vec![] })
                .collect();
            r.block(&txs, &[], false);
        }
        r.tip_top();
        if variant >= 3 {
            // one batch far longer than the checkpoint budget
            r.scan(r.abs(1), 1000);
        } else {
            loop {
                let scanned = r.scanned();
                let top = r.chain.top();
                let Some(from) = (r.chain.base + 1..=top).find(|h| !scanned.contains(&r.w.rel(*h))) else { break };
                let limit = rng.gen_range(1..(2 * interval as usize));
                if !r.scan(from, limit) { break }
            }
        }
        // ordinary scanning continues: the boundaries must survive pruning
        for _ in 0..3 {
            for i in 0..45u64 {
                r.block(&[TxReq { outs: vec![OutReq { pool: Pool::Sapling, acct: 0, internal: false, diversified: false, value: 40_000 + i }, OutReq { pool: Pool::Orchard, acct: 0, internal: false, diversified: false, value: 41_000 + i }], spends: vec![], foreign_spends: vec![] }], &[], false);
            }
            r.tip_top();
            let top = r.chain.top();
            r.scan(top - 44, 45);
        }
        let top = r.chain.top();
        r.trunc(top - 20, true);
        r.empties(3);
        r.catch_up_and_fresh();
    }
}

/// The minimal history of the known finding C06-stale-frontier-after-rewind (DESIGN C06): four
/// blocks with one wallet output each, scanned one block per call; a rewind to the first; three
/// different blocks mined and scanned.
fn stale_frontier_scenario(out: &mut NdjsonWriter) {
    for &pool in &[Pool::Sapling, Pool::Orchard] {
        let mut r = Run::new(out, 9000, false, json!(format!("K {}", pool.code())));
        for i in 0..4u64 {
            r.recv(pool, 50_000 + i, false);
            r.tip_top();
            let top = r.chain.top();
            r.scan(top, 1);
        }
        r.trunc(r.abs(1), true);
        for i in 0..3u64 {
            r.recv(pool, 60_000 + i, false);
        }
        r.empties(2);
        r.tip_top();
        r.scan(r.abs(2), 3);
        r.scan(r.abs(5), 1);
        r.scan(r.abs(6), 1);
    }
    // the subtree-root variant (known finding C06-stale-subtree-root-after-reorg): a wallet born just below a shard
    // boundary is given the roots of the shards the chain completes, scans, is rewound below their completion and
    // scans a different continuation that completes the shards with other leaves
    {
        let mut r = Run::sharded(out, 9001, false, 65536 - 3, 65536 - 2, json!("K roots"));
        for i in 0..6u64 {
            r.recv(if i % 2 == 0 { Pool::Sapling } else { Pool::Orchard }, 50_000 + i, false);
        }
        r.put_roots();
        r.tip_top();
        r.scan(r.abs(1), 10);
        r.trunc(r.abs(1), true);
        for i in 0..6u64 {
            r.recv(if i % 2 == 0 { Pool::Orchard } else { Pool::Sapling }, 60_000 + i, false);
        }
        r.tip_top();
        r.scan(r.abs(2), 10);
    }
}

/// C15 termination: chains with notes in random places (so scans discover notes and the wallet extends
/// its queue with FoundNote ranges), long empty stretches (Verify / ChainTip splitting around the
/// pruning depth), then the documented client loop with a bounded number of environment steps
fn sync_scenarios(out: &mut NdjsonWriter, seed: u64, n: u64, ironwood: bool) {
    for i in 0..n {
        let mut r = Run::new(out, seed.wrapping_mul(7919).wrapping_add(i), ironwood, json!(format!("sync {i}")));
        let mut rng = ChaChaRng::seed_from_u64(seed ^ i);
        let len = [12u32, 40, 130, 260][(i % 4) as usize];
        for _ in 0..len {
            if rng.gen_bool(0.25) {
                let mut taken = vec![];
                let txs: Vec<TxReq> = vec![r.random_tx(&mut taken)];
                r.block(&txs, &[], false);
            } else {
                r.block(&[], &[], false);
            }
        }
        // sometimes part of the chain was scanned before (out of order), sometimes the tip moved in between
        if rng.gen_bool(0.5) {
            r.tip_top();
            let top = r.chain.top();
            let from = rng.gen_range(r.chain.base + 1..=top);
            r.scan(from, rng.gen_range(1..20));
        }
        r.sync_loop(if i % 3 == 0 { 0 } else { 3 });
        r.catch_up_and_fresh();
    }
}

/// Shard-boundary histories: the wallet is born 3 (Sapling) / 2 (Orchard) commitments below the end of a
/// shard; blocks complete the shard, subtree roots arrive before / after the blocks are scanned, notes sit on
/// both sides of the boundary, the sync client plays, rewinds cross the boundary block.
fn shard_scenarios(out: &mut NdjsonWriter, seed: u64, n: u64) {
    for i in 0..n {
        let ksap = 1 + (i % 2);
        let mut r = Run::sharded(out, seed.wrapping_mul(104_729).wrapping_add(i), false, 65536 * ksap - 3, 65536 - 2, json!(format!("shard {i}")));
        let mut rng = ChaChaRng::seed_from_u64(seed ^ (i << 8));
        let roots_first = i % 3 == 0;
        for b in 0..rng.gen_range(8..30u32) {
            let mut taken = vec![];
            let ntx = if b < 6 { 1 } else { rng.gen_range(0..2) };
            let txs: Vec<TxReq> = (0..ntx).map(|_| r.random_tx(&mut taken)).collect();
            r.block(&txs, &[], false);
        }
        if roots_first {
            r.put_roots();
        }
        match i % 4 {
            0 => r.sync_loop(2),
            1 => {
                r.tip_top();
                let top = r.chain.top();
                r.scan(top - 3, 4);
                r.put_roots();
                r.sync_loop(1);
            }
            _ => r.random_history(40),
        }
        r.put_roots();
        let top = r.chain.top();
        r.trunc(top.saturating_sub(rng.gen_range(1..12)).max(r.chain.base + 1), true);
        r.empties(2);
        r.catch_up_and_fresh();
    }
}

fn main() {
    quiet_panics();
    let args: Vec<String> = std::env::args().collect();
    let mut out = NdjsonWriter::create(&args[1]);
    if args[2] == "scenarios" {
        scenarios(&mut out);
    } else if args[2] == "shard-scenarios" {
        let n: u64 = args.get(3).map(|s| s.parse().unwrap()).unwrap_or(6);
        shard_scenarios(&mut out, seed_from_env(), n);
    } else if args[2] == "sync-scenarios" {
        let n: u64 = args.get(3).map(|s| s.parse().unwrap()).unwrap_or(8);
        sync_scenarios(&mut out, seed_from_env(), n, false);
        sync_scenarios(&mut out, seed_from_env() + 1, n / 2, true);
    } else if args[2] == "stale-frontier-scenario" {
        stale_frontier_scenario(&mut out);
    } else if args[2] == "retention-scenarios" {
        let all = args.get(3).map(|s| s == "all").unwrap_or(false);
        retention_scenarios(&mut out, if all { &[0, 1, 2, 3, 4, 5] } else { &[0, 4, 5] });
    } else if args[2] == "tree-scenarios" {
        // quick: one variant per network; "all": every variant on both
        let all = args.get(3).map(|s| s == "all").unwrap_or(false);
        tree_scenarios(&mut out, false, if all { &[0, 1, 2] } else { &[1] });
        tree_scenarios(&mut out, true, if all { &[0, 1, 2] } else { &[2] });
    } else {
        let histories: usize = args[2].parse().unwrap();
        let ops: usize = args[3].parse().unwrap();
        let ironwood = args.get(4).map(|s| s == "ironwood").unwrap_or(false);
        let seed = seed_from_env();
        for hist in 0..histories {
            let mut r = Run::new(&mut out, seed.wrapping_mul(1_000_003).wrapping_add(hist as u64), ironwood, json!(hist));
            r.random_history(ops);
        }
    }
    let n = out.finish();
    println!("{}", json!({"events": n}));
}
