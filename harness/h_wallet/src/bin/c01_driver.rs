//! C01/C06/C15 code -> spec driver: seeded random histories of block arrivals, scans of arbitrary
//! ranges in arbitrary order (with repeats), chain-tip updates, rewinds with and without a
//! different continuation of the chain, against the real SQLite wallet. One ndjson event per
//! operation, logged after the call returned, with the projection of the wallet state.
//!
//! usage: c01_driver <out.ndjson> <histories> <ops-per-history> [ironwood]
use h_wallet::chain::{Chain, OutReq, Pool, TxReq};
use h_wallet::util::{NdjsonWriter, quiet_panics, seed_from_env};
use h_wallet::wallet::W;
use rand::{Rng, SeedableRng, seq::SliceRandom};
use rand_chacha::ChaChaRng;
use serde_json::{Value, json};

fn block_event(chain: &Chain, w: &W, h: u32) -> Value {
    let b = &chain.blocks[&h];
    let txs: Vec<Value> = b
        .txs
        .iter()
        .map(|t| {
            json!({
                "t": t.uid,
                "outs": t.outs.iter().map(|o| json!({"n": o.note, "pool": o.pool.code(), "v": o.value, "acct": o.acct})).collect::<Vec<_>>(),
                "spends": t.spends,
            })
        })
        .collect();
    json!({"a": "block", "h": w.rel(h), "b": b.uid, "txs": txs})
}

fn res_class<T>(r: &Result<Result<T, String>, String>) -> (&'static str, String) {
    match r {
        Ok(Ok(_)) => ("ok", String::new()),
        Ok(Err(e)) => ("err", e.chars().take(300).collect()),
        Err(p) => ("panic", p.chars().take(300).collect()),
    }
}

struct Gen {
    rng: ChaChaRng,
    next_value: u64,
}

impl Gen {
    fn value(&mut self) -> u64 {
        // mostly economic, sometimes around the dust boundary (MARGINAL_FEE = 5000)
        self.next_value += 1;
        match self.rng.gen_range(0..10) {
            0 => 5000,
            1 => 5001,
            2 => 4999 - (self.next_value % 7),
            _ => 10_000 + 1_000 * (self.next_value % 400) + self.rng.gen_range(0..1000),
        }
    }

    fn tx(&mut self, chain: &Chain, pools: &[Pool], taken: &mut Vec<u32>) -> TxReq {
        let mut outs = vec![];
        let mut spends = vec![];
        let mut foreign_spends = vec![];
        let spendable: Vec<u32> = chain.spendable().into_iter().filter(|n| !taken.contains(n)).collect();
        let kind = self.rng.gen_range(0..10);
        if kind < 4 || spendable.is_empty() {
            // plain receipt(s), possibly with foreign traffic
            for _ in 0..self.rng.gen_range(1..=2) {
                let pool = *pools.choose(&mut self.rng).unwrap();
                let foreign = self.rng.gen_bool(0.25);
                outs.push(OutReq {
                    pool,
                    acct: if foreign { 0 } else { 1 },
                    internal: !foreign && pool != Pool::Sapling && self.rng.gen_bool(0.3),
                    diversified: self.rng.gen_bool(0.3),
                    value: self.value(),
                });
            }
            if self.rng.gen_bool(0.2) {
                foreign_spends.push(*pools.choose(&mut self.rng).unwrap());
            }
        } else {
            // spend one (sometimes two) wallet notes; change back to the wallet in some pool, or all of it leaves
            let n = *spendable.choose(&mut self.rng).unwrap();
            spends.push(n);
            taken.push(n);
            let mut total = chain.notes[&n].value;
            if self.rng.gen_bool(0.2) {
                if let Some(m) = spendable.iter().find(|m| **m != n) {
                    spends.push(*m);
                    taken.push(*m);
                    total += chain.notes[m].value;
                }
            }
            let pool = *pools.choose(&mut self.rng).unwrap();
            match self.rng.gen_range(0..3) {
                0 => outs.push(OutReq { pool, acct: 0, internal: false, diversified: false, value: total }),
                1 => {
                    let pay = total / 3 + 1;
                    outs.push(OutReq { pool, acct: 0, internal: false, diversified: false, value: pay });
                    outs.push(OutReq { pool, acct: 1, internal: pool != Pool::Sapling, diversified: false, value: total - pay });
                }
                _ => outs.push(OutReq { pool, acct: 1, internal: false, diversified: false, value: total.saturating_sub(1000).max(1) }),
            }
        }
        TxReq { outs, spends, foreign_spends }
    }
}

fn main() {
    quiet_panics();
    let args: Vec<String> = std::env::args().collect();
    let mut out = NdjsonWriter::create(&args[1]);
    let histories: usize = args[2].parse().unwrap();
    let ops: usize = args[3].parse().unwrap();
    let ironwood = args.get(4).map(|s| s == "ironwood").unwrap_or(false);
    let seed = seed_from_env();

    for hist in 0..histories {
        let mut g = Gen { rng: ChaChaRng::seed_from_u64(seed.wrapping_mul(1_000_003).wrapping_add(hist as u64)), next_value: 0 };
        let (mut w, keys) = W::new(ironwood);
        let mut chain = Chain::new(w.base, keys, &mut g.rng, ironwood);
        let pools: Vec<Pool> = if ironwood { vec![Pool::Sapling, Pool::Orchard, Pool::Ironwood] } else { vec![Pool::Sapling, Pool::Orchard] };
        // profile of this history: how long the empty stretches are
        let long_gaps = g.rng.gen_bool(0.35);
        out.emit(&json!({"a": "reset", "hist": hist, "ironwood": ironwood, "post": w.project(&chain)}));
        let mut orphaned: Vec<(h_wallet::chain::AbsTx, zcash_client_backend::proto::compact_formats::CompactTx)> = vec![];
        let mut aborted = false;

        for op_i in 0..=ops {
            if aborted {
                break;
            }
            let top = chain.top();
            if top > chain.base && (op_i == ops || g.rng.gen_range(0..100) < 3) {
                // ---- catch up completely, then compare with a fresh wallet that scans the chain once, in order
                let res = w.update_tip(top);
                let (c, e) = res_class(&res);
                out.emit(&json!({"a": "tip", "h": w.rel(top), "res": c, "err": e, "post": w.project(&chain)}));
                let mut ok = c == "ok";
                while ok {
                    let scanned: Vec<i64> = w.project(&chain)["blocks"].as_array().unwrap().iter().map(|v| v.as_i64().unwrap()).collect();
                    let Some(from) = (chain.base + 1..=top).find(|h| !scanned.contains(&w.rel(*h))) else { break };
                    let limit = (from..=top).take_while(|h| !scanned.contains(&w.rel(*h))).count().min(g.rng.gen_range(1..60));
                    let res = w.scan(&chain, from, limit);
                    let (c, e) = res_class(&res);
                    out.emit(&json!({"a": "scan", "from": w.rel(from), "n": limit, "res": c, "err": e, "post": w.project(&chain)}));
                    ok = c == "ok";
                    aborted = c == "panic";
                }
                if ok {
                    let (mut fresh, _) = W::new(ironwood);
                    let r1 = fresh.update_tip(top);
                    let r2 = fresh.scan(&chain, chain.base + 1, (top - chain.base) as usize);
                    if matches!(r1, Ok(Ok(_))) && matches!(r2, Ok(Ok(_))) {
                        let p = fresh.project(&chain);
                        out.emit(&json!({"a": "fresh", "notes": p["notes"], "bal": p["bal"], "balp": p["balp"], "blocks": p["blocks"]}));
                    } else {
                        out.emit(&json!({"a": "freshfail", "r1": format!("{r1:?}"), "r2": format!("{r2:?}")}));
                    }
                }
                if op_i == ops {
                    break;
                }
                continue;
            }
            let r = g.rng.gen_range(0..100);
            if r < 30 || top == chain.base {
                // ---- a block arrives
                let ntx = match g.rng.gen_range(0..10) { 0..=1 => 0, 2..=7 => 1, _ => 2 };
                let mut taken = vec![];
                let txs: Vec<TxReq> = (0..ntx).map(|_| g.tx(&chain, &pools, &mut taken)).collect();
                let remined = if !orphaned.is_empty() && g.rng.gen_bool(0.3) { vec![orphaned.remove(0)] } else { vec![] };
                let h = chain.extend_with(&w.net, &txs, &remined, &mut g.rng);
                let mut ev = block_event(&chain, &w, h);
                ev["post"] = w.project(&chain);
                out.emit(&ev);
            } else if r < 38 {
                // ---- a stretch of empty blocks
                let k = if long_gaps { *[3u32, 39, 40, 41, 99, 100, 101].choose(&mut g.rng).unwrap() } else { g.rng.gen_range(1..6) };
                for _ in 0..k {
                    let h = chain.extend(&w.net, &[], &mut g.rng);
                    let mut ev = block_event(&chain, &w, h);
                    ev["post"] = json!({"chk": false});
                    out.emit(&ev);
                }
            } else if r < 48 {
                // ---- chain tip update (to the top, or somewhere below it)
                let h = if g.rng.gen_bool(0.7) { top } else { g.rng.gen_range(chain.base + 1..=top) };
                let res = w.update_tip(h);
                let (c, e) = res_class(&res);
                out.emit(&json!({"a": "tip", "h": w.rel(h), "res": c, "err": e, "post": w.project(&chain)}));
                aborted = c == "panic";
            } else if r < 88 {
                // ---- scan a range: anywhere, any size, repeats included
                let from = if g.rng.gen_bool(0.5) {
                    // lowest unscanned height, or a random one
                    let scanned: Vec<i64> = w.project(&chain)["blocks"].as_array().unwrap().iter().map(|v| v.as_i64().unwrap()).collect();
                    (chain.base + 1..=top).find(|h| !scanned.contains(&w.rel(*h))).unwrap_or(g.rng.gen_range(chain.base + 1..=top))
                } else {
                    g.rng.gen_range(chain.base + 1..=top)
                };
                let limit = match g.rng.gen_range(0..10) { 0..=3 => 1, 4..=6 => g.rng.gen_range(2..5), 7..=8 => g.rng.gen_range(5..30), _ => 250 };
                // documented client protocol: the wallet learns the tip before scanning above it
                let last = (from + limit as u32 - 1).min(top);
                if w.tip().map(|t| t < last).unwrap_or(true) {
                    let res = w.update_tip(top);
                    let (c, e) = res_class(&res);
                    out.emit(&json!({"a": "tip", "h": w.rel(top), "res": c, "err": e, "post": w.project(&chain)}));
                }
                let res = w.scan(&chain, from, limit);
                let (c, e) = res_class(&res);
                out.emit(&json!({"a": "scan", "from": w.rel(from), "n": limit, "res": c, "err": e, "post": w.project(&chain)}));
                aborted = c == "panic";
            } else {
                // ---- rewind, possibly followed by a different continuation of the chain
                let req = if g.rng.gen_bool(0.6) { top.saturating_sub(g.rng.gen_range(0..6)).max(chain.base + 1) } else { g.rng.gen_range(chain.base + 1..=top) };
                let res = w.truncate(req);
                let (c, e) = res_class(&res);
                let to = match &res { Ok(Ok(h)) => w.rel(*h), _ => -1 };
                let fork = c == "ok" && g.rng.gen_bool(0.7);
                if fork {
                    let to_abs = *res.as_ref().unwrap().as_ref().unwrap();
                    // remember pure-receipt transactions of the orphaned blocks: they may be mined again
                    for (_, b) in chain.blocks.range(to_abs + 1..) {
                        for (i, t) in b.txs.iter().enumerate() {
                            if t.spends.is_empty() && t.outs.iter().any(|o| o.note > 0) && orphaned.len() < 4 {
                                orphaned.push((t.clone(), b.cb.vtx[i].clone()));
                            }
                        }
                    }
                    chain.truncate(to_abs);
                }
                out.emit(&json!({"a": "trunc", "req": w.rel(req), "res": c, "err": e, "to": to, "fork": fork, "post": w.project(&chain)}));
                aborted = c == "panic";
            }
        }
    }
    let n = out.finish();
    println!("{}", json!({"events": n}));
}
