//! C01/C06/C15 code -> spec driver: histories of block arrivals, scans of arbitrary ranges in
//! arbitrary order (with repeats), chain-tip updates, rewinds with and without a different
//! continuation of the chain, against the real SQLite wallet. One ndjson event per operation,
//! logged after the call returned, with the projection of the wallet state.
//!
//! usage: c01_driver <out.ndjson> <histories> <ops-per-history> [ironwood]     seeded random histories
//!        c01_driver <out.ndjson> scenarios                                     the scenario library
//!        c01_driver <out.ndjson> shard-scenarios <n> [pools <m>]               wallets born below shard boundaries
//! (scenarios: orderings the specification's safeguards exist for — spend scanned before its
//! receipt across 99..102-block gaps, batches longer than the nullifier retention, rewinds across
//! spends, orphan expiry at exactly 40 blocks)
use h_wallet::chain::{OutReq, Pool, TxReq};
use h_wallet::run::Run;
use h_wallet::util::{NdjsonWriter, quiet_panics, seed_from_env};
use rand::{Rng, SeedableRng, seq::SliceRandom};
use rand_chacha::ChaChaRng;
use serde_json::json;

// -------------------------------------------------------------------------------------------
// scenario library (DESIGN §1.4): each is one history

fn scenarios(out: &mut NdjsonWriter) {
    let mut id = 0;
    // A: a spend scanned before its receipt, separated by k blocks; the receipt block is scanned last
    for &k in &[1u32, 98, 99, 100, 101, 102, 160] {
        for &pool in &[Pool::Sapling, Pool::Orchard] {
            for variant in 0..2 {
                id += 1;
                let mut r = Run::new(out, 1000 + id, false, json!(format!("A k={k} {} v{variant}", pool.code())));
                let n = r.recv(pool, 60_000, false);
                r.empties(k);
                r.spend(n, 20_000, pool);
                r.empties(if variant == 0 { 2 } else { 140 });
                r.tip_top();
                if variant == 0 {
                    // everything but the receipt block in one batch, then the receipt
                    r.scan(r.abs(2), 500);
                } else {
                    // the spend block alone, then blocks far ahead of it, then the stretch in between
                    r.scan(r.abs(k + 2), 1);
                    r.scan(r.abs(k + 2 + 105), 30);
                    r.scan(r.abs(2), k as usize);
                }
                r.scan(r.abs(1), 1);
                r.catch_up_and_fresh();
            }
        }
    }
    // A': as A, but a block below the receipt is scanned first (so a fully-scanned height exists) and
    // the spend lies more than the nullifier retention below the end of the batch that contains it
    for &k in &[1u32, 60, 101] {
        for &pool in &[Pool::Sapling, Pool::Orchard] {
            id += 1;
            let mut r = Run::new(out, 1500 + id, false, json!(format!("A' k={k} {}", pool.code())));
            r.empties(1);
            r.tip_top();
            r.scan(r.abs(1), 1);
            let n = r.recv(pool, 60_000, false);
            r.empties(k);
            r.spend(n, 20_000, pool);
            r.empties(130);
            r.tip_top();
            r.scan(r.abs(3), 1000);
            r.scan(r.abs(2), 1);
            r.catch_up_and_fresh();
        }
    }
    // B: one batch longer than the nullifier retention that extends the fully-scanned frontier and
    // holds receipt and spend on either side of the tracking floor
    for &(a, b, c) in &[(5u32, 5u32, 150u32), (5, 120, 30), (90, 5, 20), (1, 99, 1), (1, 100, 1), (1, 101, 1)] {
        for &pool in &[Pool::Sapling, Pool::Orchard] {
            id += 1;
            let mut r = Run::new(out, 2000 + id, false, json!(format!("B {a},{b},{c} {}", pool.code())));
            let n0 = r.recv(pool, 50_000, false);
            r.tip_top();
            r.scan(r.abs(1), 1);
            r.empties(a);
            let n1 = r.recv(pool, 70_000, false);
            r.empties(b);
            r.spend(n1, 0, pool);
            r.empties(c);
            r.spend(n0, 10_000, pool);
            r.tip_top();
            r.scan(r.abs(2), 1000);
            r.catch_up_and_fresh();
        }
    }
    // C: a rewind across a spend whose link already exists; the orphaned spender keeps the note spent
    // until it expires, 40 blocks after it was observed; the tip is advanced block by block
    for &pool in &[Pool::Sapling, Pool::Orchard] {
        id += 1;
        let mut r = Run::new(out, 3000 + id, false, json!(format!("C {}", pool.code())));
        let n = r.recv(pool, 80_000, false);
        r.spend(n, 30_000, pool);
        r.empties(2);
        r.tip_top();
        r.scan(r.abs(1), 10);
        r.trunc(r.abs(1), true);
        for _ in 0..45 {
            r.empties(1);
            r.tip_top();
        }
        r.catch_up_and_fresh();
    }
    // D: an orphaned receipt stops counting exactly 40 blocks after it was observed; then it is mined again
    for &pool in &[Pool::Sapling, Pool::Orchard] {
        id += 1;
        let mut r = Run::new(out, 4000 + id, false, json!(format!("D {}", pool.code())));
        r.recv(pool, 11_000, false);
        r.recv(pool, 90_000, false);
        r.tip_top();
        r.scan(r.abs(1), 10);
        r.trunc(r.abs(1), true);
        for _ in 0..43 {
            r.empties(1);
            r.tip_top();
        }
        if !r.orphaned.is_empty() {
            let remined = vec![r.orphaned.remove(0)];
            r.block(&[], &remined, true);
        }
        r.catch_up_and_fresh();
    }
    // G: a spend scanned before its receipt (tip first) lives only in the nullifier map, under its block; the wallet is
    // rewound to EXACTLY that block (which stays scanned and is never scanned again); the receipt is scanned afterwards
    for &pool in &[Pool::Sapling, Pool::Orchard] {
        for with_fork in [false, true] {
            id += 1;
            let mut r = Run::new(out, 4000 + id, false, json!(format!("G {} fork={with_fork}", pool.code())));
            let n = r.recv(pool, 50_000, false);       // block 1
            r.recv(pool, 37_000, false);               // block 2
            r.empties(1);                              // block 3
            r.spend(n, 0, pool);                       // block 4 spends the note of block 1
            r.empties(2);                              // blocks 5, 6
            r.tip_top();
            r.scan(r.abs(4), 3);                       // tip first: the spend is remembered, the note unknown
            r.trunc(r.abs(4), with_fork);              // back to exactly the spending block
            if with_fork { r.empties(2); r.tip_top(); }
            r.scan(r.abs(1), 3);                       // now the receipt
            r.catch_up_and_fresh();
        }
    }
    // F: a receipt orphaned by a rewind is mined again at a DIFFERENT position of its pool's tree (outputs of other
    // transactions now precede it; a Sapling nullifier depends on the position), and is spent afterwards
    for &pool in &[Pool::Sapling, Pool::Orchard] {
        id += 1;
        let mut r = Run::new(out, 4000 + id, false, json!(format!("F {}", pool.code())));
        r.recv(pool, 11_000, false);
        let n = r.recv(pool, 60_000, false);
        r.tip_top();
        r.scan(r.abs(1), 10);
        r.trunc(r.abs(1), true);
        if !r.orphaned.is_empty() {
            let remined = vec![r.orphaned.remove(0)];
            let foreign = TxReq { outs: (0..2).map(|_| OutReq { pool, acct: 0, internal: false, diversified: false, value: 5_000 }).collect(), spends: vec![], foreign_spends: vec![] };
            r.block(&[foreign], &remined, true);
            r.tip_top();
            r.scan(r.abs(2), 5);
            r.spend(n, 0, pool);
            r.tip_top();
            r.scan(r.abs(3), 5);
        }
        r.catch_up_and_fresh();
    }
}

/// C06 scenarios: more non-empty blocks than the checkpoint budget (100), one pool silent for long
/// stretches, batches of different sizes, then rewinds to the newest, a middle and the oldest
/// retained checkpoint
fn tree_scenarios(out: &mut NdjsonWriter, ironwood: bool, variants: &[u64]) {
    for &variant in variants {
        let mut r = Run::new(out, 7000 + variant, ironwood, json!(format!("T v{variant} iw={ironwood}")));
        let mut rng = ChaChaRng::seed_from_u64(variant);
        for i in 0..130u32 {
            // Sapling-only stretch, Orchard-only stretch, mixed, some empty blocks
            let pool = match (variant, i) {
                (0, _) => if i % 2 == 0 { Pool::Sapling } else { Pool::Orchard },
                (1, 0..=59) => Pool::Sapling,
                (1, _) => Pool::Orchard,
                (_, _) => if ironwood && i % 3 == 0 { Pool::Ironwood } else if i % 3 == 1 { Pool::Orchard } else { Pool::Sapling },
            };
            if i % 11 == 10 {
                r.empties(1);
            } else {
                let foreign = i % 4 != 0;
                r.block(&[TxReq { outs: vec![OutReq { pool, acct: if foreign { 0 } else { 1 }, internal: false, diversified: false, value: 20_000 + i as u64 }], spends: vec![], foreign_spends: vec![] }], &[], false);
            }
            if i % 17 == 16 || i == 129 {
                r.tip_top();
                // scan what is new in batches of varying size
                loop {
                    let scanned = r.scanned();
                    let top = r.chain.top();
                    let Some(from) = (r.chain.base + 1..=top).find(|h| !scanned.contains(&r.w.rel(*h))) else { break };
                    let limit = rng.gen_range(1..9);
                    if !r.scan(from, limit) { break }
                }
            }
        }
        let top = r.chain.top();
        r.trunc(top - 1, true);
        r.empties(2);
        r.catch_up_and_fresh();
        let top = r.chain.top();
        r.trunc(top - 50, true);
        r.empties(3);
        r.catch_up_and_fresh();
        let top = r.chain.top();
        r.trunc(top.saturating_sub(99).max(r.chain.base + 1), false);
        r.catch_up_and_fresh();
    }
}

/// C06: a rewind to a height at which one pool's tree is still EMPTY (the pool receives its first commitment only
/// later), after that pool had received commitments above the height; the chain continues differently.  Everything
/// is scanned in single batches that start at or below the rewind height, so the open stale-frontier finding does not
/// apply: the rescan must succeed and every root / witness must be the new chain's.
fn empty_pool_scenarios(out: &mut NdjsonWriter) {
    for (k, (ironwood, late)) in [(false, Pool::Orchard), (false, Pool::Sapling), (true, Pool::Ironwood), (true, Pool::Orchard)].into_iter().enumerate() {
        let mut r = Run::new(out, 7100 + k as u64, ironwood, json!(format!("E late={} iw={ironwood}", late.code())));
        let early: Vec<Pool> = r.pools().into_iter().filter(|p| *p != late).collect();
        let one = |r: &mut Run, pool: Pool, mine: bool| {
            let value = r.value();
            r.block(&[TxReq { outs: vec![OutReq { pool, acct: if mine { 1 } else { 0 }, internal: false, diversified: false, value }], spends: vec![], foreign_spends: vec![] }], &[], false);
        };
        for i in 0..4usize { one(&mut r, early[i % early.len()], i % 2 == 0); }
        for i in 0..4usize { one(&mut r, late, i % 2 == 1); one(&mut r, early[i % early.len()], false); }
        r.tip_top();
        let base = r.chain.base;
        let n = (r.chain.top() - base) as usize;
        r.scan(base + 1, n);
        // back to a height at which the late pool has no commitment yet; a different continuation
        if r.trunc(base + 3, true).is_some() {
            for i in 0..3usize { one(&mut r, late, i % 2 == 0); }
            one(&mut r, early[0], true);
            r.empties(1);
            r.tip_top();
            let from = r.chain.base + 4;
            let n = (r.chain.top() + 1 - from) as usize;
            r.scan(from, n);
            r.catch_up_and_fresh();
        }
    }
}

/// C06 retention scenarios (NU6.3 active, small custom grids): boundary blocks with and without
/// commitments in each pool, batches shorter and longer than the checkpoint budget, batch
/// boundaries before / on / after a grid height
fn retention_scenarios(out: &mut NdjsonWriter, which: &[u32]) {
    for &variant in which {
        let interval = [12u32, 7, 30][variant as usize % 3];
        let mut r = Run::with_retention(out, 8000 + variant as u64, true, Some(interval), json!(format!("R v{variant} interval={interval}")));
        let mut rng = ChaChaRng::seed_from_u64(variant as u64);
        let total = if variant >= 3 { 260 } else { 90 };
        for i in 1..=total {
            let h = r.chain.top() + 1;
            let on_grid = h % interval == 0;
            // variants: boundary blocks empty / Sapling silent on boundaries / everything dense
            let pools: Vec<Pool> = match variant % 3 {
                0 => if on_grid { vec![] } else { vec![Pool::Sapling, Pool::Orchard] },
                1 => if on_grid { vec![Pool::Orchard] } else { vec![Pool::Sapling] },
                // Sapling in every block (more own checkpoints than the budget in one long batch), the others alternating
                _ => vec![Pool::Sapling, [Pool::Orchard, Pool::Ironwood][(i % 2) as usize]],
            };
            let txs: Vec<TxReq> = pools
                .iter()
                .map(|p| TxReq { outs: vec![OutReq { pool: *p, acct: if i % 5 == 0 { 1 } else { 0 }, internal: false, diversified: false, value: 30_000 + i as u64 }], spends: vec![], foreign_spends: vec![] })
                .collect();
            r.block(&txs, &[], false);
        }
        r.tip_top();
        if variant >= 3 {
            // one batch far longer than the checkpoint budget
            r.scan(r.abs(1), 1000);
        } else {
            loop {
                let scanned = r.scanned();
                let top = r.chain.top();
                let Some(from) = (r.chain.base + 1..=top).find(|h| !scanned.contains(&r.w.rel(*h))) else { break };
                let limit = rng.gen_range(1..(2 * interval as usize));
                if !r.scan(from, limit) { break }
            }
        }
        // ordinary scanning continues: the boundaries must survive pruning
        for _ in 0..3 {
            for i in 0..45u64 {
                r.block(&[TxReq { outs: vec![OutReq { pool: Pool::Sapling, acct: 0, internal: false, diversified: false, value: 40_000 + i }, OutReq { pool: Pool::Orchard, acct: 0, internal: false, diversified: false, value: 41_000 + i }], spends: vec![], foreign_spends: vec![] }], &[], false);
            }
            r.tip_top();
            let top = r.chain.top();
            r.scan(top - 44, 45);
        }
        let top = r.chain.top();
        r.trunc(top - 20, true);
        r.empties(3);
        r.catch_up_and_fresh();
    }
}

/// The minimal history of the known finding C06-stale-frontier-after-rewind (DESIGN C06): four
/// blocks with one wallet output each, scanned one block per call; a rewind to the first; three
/// different blocks mined and scanned.
fn stale_frontier_scenario(out: &mut NdjsonWriter) {
    for &pool in &[Pool::Sapling, Pool::Orchard] {
        let mut r = Run::new(out, 9000, false, json!(format!("K {}", pool.code())));
        for i in 0..4u64 {
            r.recv(pool, 50_000 + i, false);
            r.tip_top();
            let top = r.chain.top();
            r.scan(top, 1);
        }
        r.trunc(r.abs(1), true);
        for i in 0..3u64 {
            r.recv(pool, 60_000 + i, false);
        }
        r.empties(2);
        r.tip_top();
        r.scan(r.abs(2), 3);
        r.scan(r.abs(5), 1);
        r.scan(r.abs(6), 1);
    }
    // the subtree-root variant (known finding C06-stale-subtree-root-after-reorg): a wallet born just below a shard
    // boundary is given the roots of the shards the chain completes, scans, is rewound below their completion and
    // scans a different continuation that completes the shards with other leaves
    {
        let mut r = Run::sharded(out, 9001, false, 65536 - 3, 65536 - 2, json!("K roots"));
        for i in 0..6u64 {
            r.recv(if i % 2 == 0 { Pool::Sapling } else { Pool::Orchard }, 50_000 + i, false);
        }
        r.put_roots();
        r.tip_top();
        r.scan(r.abs(1), 10);
        r.trunc(r.abs(1), true);
        for i in 0..6u64 {
            r.recv(if i % 2 == 0 { Pool::Orchard } else { Pool::Sapling }, 60_000 + i, false);
        }
        r.tip_top();
        r.scan(r.abs(2), 10);
    }
}

/// C15 termination: chains with notes in random places (so scans discover notes and the wallet extends
/// its queue with FoundNote ranges), long empty stretches (Verify / ChainTip splitting around the
/// pruning depth), then the documented client loop with a bounded number of environment steps
fn sync_scenarios(out: &mut NdjsonWriter, seed: u64, n: u64, ironwood: bool) {
    for i in 0..n {
        let mut r = Run::new(out, seed.wrapping_mul(7919).wrapping_add(i), ironwood, json!(format!("sync {i}")));
        let mut rng = ChaChaRng::seed_from_u64(seed ^ i);
        let len = [12u32, 40, 130, 260][(i % 4) as usize];
        for _ in 0..len {
            if rng.gen_bool(0.25) {
                let mut taken = vec![];
                let txs: Vec<TxReq> = vec![r.random_tx(&mut taken)];
                r.block(&txs, &[], false);
            } else {
                r.block(&[], &[], false);
            }
        }
        // sometimes part of the chain was scanned before (out of order), sometimes the tip moved in between
        if rng.gen_bool(0.5) {
            r.tip_top();
            let top = r.chain.top();
            let from = rng.gen_range(r.chain.base + 1..=top);
            r.scan(from, rng.gen_range(1..20));
        }
        r.sync_loop(if i % 3 == 0 { 0 } else { 3 });
        r.catch_up_and_fresh();
    }
}

/// Shard-boundary histories: the wallet is born 3 (Sapling) / 2 (Orchard) commitments below the end of a
/// shard; blocks complete the shard, subtree roots arrive before / after the blocks are scanned, notes sit on
/// both sides of the boundary, the sync client plays, rewinds cross the boundary block.
fn shard_scenarios(out: &mut NdjsonWriter, seed: u64, n: u64) {
    for i in 0..n {
        let ksap = 1 + (i % 2);
        let mut r = Run::sharded(out, seed.wrapping_mul(104_729).wrapping_add(i), false, 65536 * ksap - 3, 65536 - 2, json!(format!("shard {i}")));
        let mut rng = ChaChaRng::seed_from_u64(seed ^ (i << 8));
        let roots_first = i % 3 == 0;
        for b in 0..rng.gen_range(8..30u32) {
            let mut taken = vec![];
            let ntx = if b < 6 { 1 } else { rng.gen_range(0..2) };
            let txs: Vec<TxReq> = (0..ntx).map(|_| r.random_tx(&mut taken)).collect();
            r.block(&txs, &[], false);
        }
        if roots_first {
            r.put_roots();
        }
        match i % 4 {
            0 => r.sync_loop(2),
            1 => {
                r.tip_top();
                let top = r.chain.top();
                r.scan(top - 3, 4);
                r.put_roots();
                r.sync_loop(1);
            }
            _ => r.random_history(40),
        }
        r.put_roots();
        let top = r.chain.top();
        r.trunc(top.saturating_sub(rng.gen_range(1..12)).max(r.chain.base + 1), true);
        r.empties(2);
        r.catch_up_and_fresh();
    }
}

/// C15, wallet-level insertion sequence (WalletQueue.tla): histories in which the Sapling, Orchard (and, with
/// NU6.3, Ironwood) shard boundaries DIFFER.  Each tree starts a few commitments below the end of a shard; the
/// fabricated blocks complete the shards at different heights (in every order of the pools); the wallet first
/// learns the tip while it knows no subtree root at all (everything Historic, so that FoundNote is visible), then
/// the roots arrive (shards completed before the first block with end heights that differ per pool, below the
/// birthday or -- `early` -- between an early birthday and the first block), then single batches discover notes
/// in one pool, in two, in three; in the shard that is being completed (the range grows upwards to the end of
/// the shard) and in the next one (it grows downwards to the end of the previous shard); exactly at the last and
/// at the first position of a shard.  Then the chain grows past the pruning depth (Verify / ChainTip with shard
/// metadata at the lookahead and stability boundaries), the client syncs, a rewind, more of the same.
fn shard_pool_scenarios(out: &mut NdjsonWriter, seed: u64, n: u64) {
    const PERMS3: [[usize; 3]; 6] = [[0, 1, 2], [1, 0, 2], [0, 2, 1], [2, 0, 1], [1, 2, 0], [2, 1, 0]];
    let all = [Pool::Sapling, Pool::Orchard, Pool::Ironwood];
    for i in 0..n {
        let mut rng = ChaChaRng::seed_from_u64(seed ^ (i << 12) ^ 0x5157);
        let ironwood = i % 3 == 2;
        let early = (i / 3) % 2 == 1;
        let np = if ironwood { 3 } else { 2 };
        // order in which the pools' shards are completed by the fabricated blocks, and in which the shards
        // completed earlier ended (early birthday): both run through every order of the pools
        let perm: Vec<usize> = if ironwood { PERMS3[((i / 3) % 6) as usize].to_vec() } else { if (i / 3 + i / 6) % 2 == 0 { vec![0, 1] } else { vec![1, 0] } };
        let perm2: Vec<usize> = if ironwood { PERMS3[((i / 3 + i / 18 + 1) % 6) as usize].to_vec() } else { if (i / 6) % 2 == 0 { vec![1, 0] } else { vec![0, 1] } };
        // shards completed before the first block, and commitments left in the current one
        let prior: [u64; 3] = [1 + (i % 2), (i / 2) % 2, if ironwood { (i / 4) % 2 } else { 0 }];
        // (exactly one pool at a time is one commitment short of its boundary: its first note is the LAST leaf of a shard)
        let j = i + i / 3;
        let left: [u64; 3] = [1 + (j % 3), 1 + ((j + 1) % 3), 1 + ((j + 2) % 3)];
        let sizes: [u64; 3] = [65536 * (prior[0] + 1) - left[0], 65536 * (prior[1] + 1) - left[1], if ironwood { 65536 * (prior[2] + 1) - left[2] } else { 0 }];
        let gap = 50u32;
        let label = json!(format!("pools {i} iw={ironwood} early={early} perm={perm:?} prior={prior:?} left={left:?}"));
        let (mut r, priors) = Run::sharded_ext(out, seed.wrapping_mul(15_485_863).wrapping_add(i), ironwood, sizes, early, gap, label);
        let one = |r: &mut Run, outs: &[(Pool, bool)]| {
            if outs.is_empty() {
                r.block(&[], &[], false);
            } else {
                let outs: Vec<OutReq> = outs.iter().map(|(pool, mine)| { let value = r.value(); OutReq { pool: *pool, acct: if *mine { 1 } else { 0 }, internal: false, diversified: false, value } }).collect();
                r.block(&[TxReq { outs, spends: vec![], foreign_spends: vec![] }], &[], false);
            }
        };
        let pools: Vec<Pool> = all[..np].to_vec();
        r.no_env_rewinds = true;
        // h1 empty; then one block per pool (in the order perm2) with a note of the wallet in the shard that is being
        // completed (for the pool with one commitment left it is the LAST leaf of the shard); an empty block
        one(&mut r, &[]);
        let old_notes_at = r.chain.top() + 1;
        let mut last_leaf_at = old_notes_at;
        for (k, pi) in perm2.iter().enumerate() {
            if left[*pi] == 1 { last_leaf_at = old_notes_at + k as u32; }
            one(&mut r, &[(all[*pi], true)]);
        }
        one(&mut r, &[]);
        // the pools' shards are completed one after the other, two blocks apart; some boundary blocks also hold the
        // FIRST leaf of the next shard, and that one is the wallet's
        let mut remaining: [u64; 3] = [left[0] - 1, left[1] - 1, left[2] - 1];
        for (j, pi) in perm.iter().enumerate() {
            let p = all[*pi];
            let mut outs: Vec<(Pool, bool)> = (0..remaining[*pi]).map(|k| (p, k + 1 == remaining[*pi] && (i + j as u64) % 4 == 1)).collect();
            remaining[*pi] = 0;
            if (i + j as u64) % 3 == 0 {
                outs.push((p, true));
            }
            one(&mut r, &outs);
            one(&mut r, &[]);
        }
        // notes in the new shards: every pool in one block, then single pools
        one(&mut r, &[]);
        let new_notes_at = r.chain.top() + 1;
        one(&mut r, &pools.iter().map(|p| (*p, true)).collect::<Vec<_>>());
        let single_at = r.chain.top() + 1;
        one(&mut r, &[(all[perm[0]], true)]);
        let pair_at = r.chain.top() + 1;
        one(&mut r, &[(all[perm[np - 1]], true), (all[perm[0]], true)]);
        r.empties(rng.gen_range(2..5));
        // the wallet learns the tip while it knows no subtree root: everything from the birthday is Historic
        r.tip_top();
        // the roots arrive: shards completed before the first block (per pool in one call: the wallet refuses a gap in
        // its shard table), with end heights that differ per pool; then the ones the fabricated blocks completed
        let withhold = if i % 5 == 4 { Some(all[perm[0]]) } else { None };   // one pool's new root stays unknown for a while
        for (pi, pool) in all.iter().enumerate() {
            let rank = perm2.iter().position(|x| *x == pi).unwrap_or(0) as u32;
            // early birthday: the last shard before the first block ended 8 + 9 * rank blocks below it, earlier ones 6 blocks apart
            let mine: Vec<([u8; 32], u32)> = priors
                .iter()
                .filter(|(p, _, _)| p == pool)
                .map(|(_, index, root)| (*root, r.w.base - (8 + 9 * rank + 6 * (prior[pi] - 1 - index) as u32).min(gap - 2)))
                .collect();
            r.put_priors(*pool, 0, &mine);
        }
        let roots = r.chain.shard_roots.clone();
        for (pool, index, root, h) in roots.iter().copied() {
            if Some(pool) != withhold {
                r.put_priors(pool, index, &[(root, h)]);
            }
        }
        // single batches; which comes first varies (an earlier FoundNote range hides a later one): all the old notes in
        // one batch, the new ones, one pool, two pools, the last leaf of a shard alone
        let mut batches: Vec<(u32, usize)> = vec![(old_notes_at, np), (new_notes_at, 1), (single_at, 1), (pair_at, 1), (last_leaf_at, 1), (new_notes_at - 1, 4), (old_notes_at - 1, 2)];
        match i % 4 {
            0 => {}
            1 => batches.swap(0, 1),
            2 => batches.swap(0, 4),
            _ => { batches.swap(0, 3); batches.swap(1, 2); }
        }
        // tip updates while every pool's latest known shard ends ABOVE the block after the highest scanned one (the
        // last-shard ChainTip entry and the entry that continues from the highest scanned block are apart):
        //  - `early_tip`: only the two lowest blocks are scanned, then the tip is reported again (chain still short)
        //  - `lowscan`: only those two are scanned before the chain grows past the pruning depth (Verify on the
        //    lookahead, ChainTip on the last shard, the gap between them Historic)
        let lowscan = i % 4 == 3;
        let early_tip = i % 4 == 1;
        if early_tip {
            r.scan(old_notes_at - 1, 1);
            r.tip_top();
        }
        if lowscan {
            batches = vec![(old_notes_at - 1, 2)];
        }
        for (k, (from, len)) in batches.iter().enumerate() {
            if k >= 5 && rng.gen_bool(0.5) { continue; }
            r.scan(*from, *len);
            if k == 1 {
                if let Some(p) = withhold {
                    for (pool, index, root, h) in roots.iter().copied() { if pool == p { r.put_priors(pool, index, &[(root, h)]); } }
                }
            }
            if r.aborted { break; }
        }
        if r.aborted { continue; }
        if lowscan {
            if let Some(p) = withhold {
                for (pool, index, root, h) in roots.iter().copied() { if pool == p { r.put_priors(pool, index, &[(root, h)]); } }
            }
        }
        // the chain grows past the pruning depth: the next tip update finds the highest scanned block at a chosen
        // distance from the stable height (tip - 100): Verify with the lookahead cut short / exactly 10 / the empty
        // range when they coincide / ChainTip one above; the shard metadata puts ChainTip on the last shard
        let ms = r.scanned().iter().copied().max().unwrap_or(0) as u32;
        // stable height - highest scanned height; the `lowscan` histories (every pool's latest shard ends above the scanned
        // blocks) run through the empty Verify range, the lookahead cut short, exactly 10 and ChainTip one above
        let want: i64 = if lowscan { [0i64, 5, 10, -1][((i / 4) % 4) as usize] } else { [-1i64, 0, 1, 5, 9, 10, 11, 30][(i % 8) as usize] };
        let top = r.w.rel(r.chain.top()) as i64;
        let need = (ms as i64 + want + 100 - top).max(0) as u32;
        r.empties(need);
        r.tip_top();
        if !early {
            r.sync_loop(2);
        } else {
            // no block below the first fabricated one can be served: scan what is suggested above it, highest priority first
            for _ in 0..6 {
                let sug = r.suggest();
                let Some((s, e, _)) = sug.iter().copied().find(|(s, _, _)| *s > r.chain.base) else { break };
                let len = ((e - s) as usize).min(rng.gen_range(1..40));
                if !r.scan(s, len) { break; }
            }
        }
        if r.aborted { continue; }
        // a rewind across (or near) the blocks that hold the notes, a different continuation, the tip, a few batches
        let top = r.chain.top();
        let req = if i % 2 == 0 { top.saturating_sub(rng.gen_range(1..8)).max(r.chain.base + 1) } else { (new_notes_at + rng.gen_range(0..3)).min(top) };
        if r.trunc(req, true).is_some() {
            one(&mut r, &pools.iter().map(|p| (*p, true)).collect::<Vec<_>>());
            r.empties(rng.gen_range(1..4));
            one(&mut r, &[(all[perm[0]], true)]);
            r.empties(2);
            r.tip_top();
            let top = r.chain.top();
            r.scan(top - 3, 2);
            r.put_roots();
            // catch up with plain scans (after a rewind below an earlier batch the open C06 finding may refuse one)
            for _ in 0..400 {
                let scanned = r.scanned();
                let top = r.chain.top();
                let Some(from) = (r.chain.base + 1..=top).find(|h| !scanned.contains(&r.w.rel(*h))) else { break };
                if !r.scan(from, rng.gen_range(1..60)) { break; }
            }
        }
    }
}

/// C15: the wallet is caught up with the tip it knows (its queue ends at the block after the highest scanned one);
/// while it is away the chain grows and every pool completes a shard a few blocks above that tip; the roots arrive;
/// then the wallet learns the new tip at a chosen distance from the highest scanned block -- 99, exactly the pruning
/// depth (the Verify range is EMPTY and the last-shard ChainTip entry starts above everything queued: the heights
/// between become Historic), 101, 110 -- and the sync client must scan every block.
fn absence_scenarios(out: &mut NdjsonWriter, seed: u64) {
    let all = [Pool::Sapling, Pool::Orchard, Pool::Ironwood];
    for (k, dist) in [100u32, 99, 101, 100, 110, 100].into_iter().enumerate() {
        let ironwood = k % 3 == 2;
        let np = if ironwood { 3 } else { 2 };
        let left: [u64; 3] = [2 + (k as u64 % 2), 2, 3];
        let sizes: [u64; 3] = [65536 - left[0], 65536 - left[1], if ironwood { 65536 - left[2] } else { 0 }];
        let (mut r, _priors) = Run::sharded_ext(out, seed.wrapping_mul(2_750_159).wrapping_add(k as u64), ironwood, sizes, false, 50, json!(format!("absence {k} dist={dist} iw={ironwood}")));
        r.no_env_rewinds = true;
        let one = |r: &mut Run, outs: &[(Pool, bool)]| {
            let outs: Vec<OutReq> = outs.iter().map(|(pool, mine)| { let value = r.value(); OutReq { pool: *pool, acct: if *mine { 1 } else { 0 }, internal: false, diversified: false, value } }).collect();
            if outs.is_empty() { r.block(&[], &[], false); } else { r.block(&[TxReq { outs, spends: vec![], foreign_spends: vec![] }], &[], false); }
        };
        // two blocks, one commitment per pool (no shard completed yet); the wallet catches up
        one(&mut r, &all[..np].iter().map(|p| (*p, *p == Pool::Sapling)).collect::<Vec<_>>());
        one(&mut r, &[]);
        r.tip_top();
        let base = r.chain.base;
        r.scan(base + 1, 2);
        let ms = r.chain.top();
        // the absence: every pool completes its shard (2 + pool index blocks above the old tip, the boundary block of
        // the first pool also holds the first leaf of the next shard, the wallet's), more blocks up to the distance
        one(&mut r, &[]);
        for (j, p) in all[..np].iter().enumerate() {
            let mut outs: Vec<(Pool, bool)> = (0..left[j] - 1).map(|_| (*p, false)).collect();
            if j == 0 { outs.push((*p, true)); }
            one(&mut r, &outs);
        }
        let have = r.chain.top() - ms;
        r.empties(dist - have);
        // the roots of the completed shards arrive (index 0 of every pool), in the order of completion / reversed
        let mut roots = r.chain.shard_roots.clone();
        if k % 2 == 1 { roots.reverse(); }
        for (pool, index, root, h) in roots { r.put_priors(pool, index, &[(root, h)]); }
        r.tip_top();
        r.sync_loop(0);
    }
}

/// C15, queue hygiene (WalletQueue.tla Prune / QueueRescans): histories in which prune_scan_queue_below (every retain
/// form, heights at and around the boundaries of the stored ranges) and queue_rescans (forced, over scanned and
/// unscanned heights, one or two ranges) are interleaved with tip updates, scans of any range, rewinds and new blocks.
/// Only Trace_WalletQueue.tla validates these traces (the ledger specification knows nothing of the two operations).
/// The first history ends with the one insertion the check lists as an open finding: a rescan range APART from the queue.
fn queue_ops_scenarios(out: &mut NdjsonWriter, seed: u64, n: u64) {
    for i in 0..n {
        let ironwood = i % 3 == 2;
        let mut r = Run::new(out, seed.wrapping_mul(7_368_787).wrapping_add(i), ironwood, json!(format!("queue-ops {i}")));
        let mut rng = ChaChaRng::seed_from_u64(seed ^ (i << 16) ^ 0xC15);
        r.no_env_rewinds = true;
        for b in 0..rng.gen_range(18..40u32) {
            let mut taken = vec![];
            let ntx = if b % 3 == 0 { 1 } else { rng.gen_range(0..2) };
            let txs: Vec<TxReq> = (0..ntx).map(|_| r.random_tx(&mut taken)).collect();
            r.block(&txs, &[], false);
        }
        r.tip_top();
        let base = r.chain.base;
        if i % 4 == 1 {
            // the scenario of the documentation: the head of the queue is prunable work (no Ignored / Scanned floor under
            // it), a scanned island above it, prunable work above that, something at and above the height
            r.prune(base + 3, -1);
            r.scan(base + 9, 4);
            let top = r.chain.top();
            r.prune(top - 2, 5);   // (FoundNote ranges around the island are prunable too)
            r.prune(top - 2, 5);   // a second time: nothing left to do
        }
        if i % 4 == 2 {
            // a rewind deeper than the pruning depth: the chain grows to 125 blocks, everything is scanned, the wallet
            // can only be truncated to the pruning floor; the scanned blocks between the target and the floor stay in the
            // wallet and are queued again
            let more = 125u32.saturating_sub(r.chain.top() - base);
            r.empties(more);
            r.tip_top();
            let n = (r.chain.top() - base) as usize;
            r.scan(base + 1, n);
            r.rewind(base + 10);
            r.scan(base + 11, 5);
            r.suggest();
        }
        let ops = rng.gen_range(14..26);
        for _ in 0..ops {
            if r.aborted { break; }
            let rows = r.queue_rows();
            let top = r.chain.top();
            let (qlo, qhi) = match (rows.first(), rows.last()) { (Some(a), Some(b)) => (a.0, b.1), _ => (base + 1, base + 1) };
            // heights of interest: boundaries of the stored ranges and their neighbours
            let mut marks: Vec<u32> = rows.iter().flat_map(|(s, e, _)| [*s, *e, s + 1, e.saturating_sub(1)]).filter(|h| *h > base.saturating_sub(3) && *h <= top + 3).collect();
            marks.push(top + 1);
            marks.push(base + 1);
            let pick = |rng: &mut ChaChaRng, marks: &Vec<u32>| -> u32 { if rng.gen_bool(0.7) { *marks.choose(rng).unwrap() } else { rng.gen_range(base + 1..=top + 1) } };
            match rng.gen_range(0..11) {
                10 => {
                    // rewind_to_chain_state to a height at or above the block before the birthday (no birthday is lowered)
                    let target = if rng.gen_bool(0.5) { pick(&mut rng, &marks).clamp(base, top) } else { rng.gen_range(base..=top) };
                    r.rewind(target);
                }
                0..=2 => {
                    let h = pick(&mut rng, &marks);
                    let retain = *[-1i64, 2, 3, 3, 4, 5, 6].choose(&mut rng).unwrap();
                    r.prune(h, retain);
                }
                3..=4 => {
                    // ranges that overlap or touch what is queued (a range apart from the queue is the finding scenario below)
                    if rows.is_empty() { continue; }
                    let s = pick(&mut rng, &marks).clamp(qlo.max(base + 1), qhi);
                    let e = s + rng.gen_range(1..6);
                    let mut ranges = vec![(s, e)];
                    if rng.gen_bool(0.4) {
                        let s2 = e + rng.gen_range(0..3);
                        ranges.push((s2, s2 + rng.gen_range(1..4)));
                    }
                    if rng.gen_bool(0.3) { ranges.reverse(); }
                    let p = *[2i64, 2, 3, 4, 5, 6].choose(&mut rng).unwrap();
                    r.rescan(&ranges, p);
                }
                5..=6 => {
                    let from = pick(&mut rng, &marks).clamp(base + 1, top);
                    // the wallet knows the tip before it scans up to it
                    // (and the scanned range overlaps or touches what is queued)
                    if from < qhi {
                        let len = rng.gen_range(1..7usize).min((qhi - from) as usize);
                        if from + len as u32 >= qlo { r.scan(from, len); }
                    }
                }
                7 => {
                    // the tip again, or a lower one that still reaches the stored queue
                    let h = if rng.gen_bool(0.6) { top } else { rng.gen_range(base + 1..=top) };
                    if rows.is_empty() || h + 1 >= qlo { r.tip(h); }
                }
                8 => {
                    r.empties(rng.gen_range(1..4));
                    r.tip_top();
                }
                _ => {
                    let req = top.saturating_sub(rng.gen_range(1..8)).max(base + 1);
                    r.trunc(req, rng.gen_bool(0.5));
                    r.tip_top();
                }
            }
        }
        if i == 0 && !r.aborted {
            let rows = r.queue_rows();
            if let Some(last) = rows.last() {
                let s = last.1 + 3;
                r.rescan(&[(s, s + 2)], 2);
                r.suggest();
            }
        }
    }
    // The second listed finding of the check, in a history of its own: a rewind target above every checkpoint. Blocks
    // 1..4 are scanned, the wallet is truncated precisely to block 4 (truncate_to_chain_state), two blocks WITHOUT
    // commitments are scanned (they add no checkpoint), then rewind_to_chain_state(5): no pool has a checkpoint at or above
    // the target, the wallet falls back to the pruning floor and drops every block, but queues only the heights above
    // the TARGET again.
    {
        let mut r = Run::new(out, seed.wrapping_mul(7_368_787).wrapping_add(n + 1), false, json!("queue-ops rewind above every checkpoint"));
        r.no_env_rewinds = true;
        for b in 0..4u32 { r.recv(if b % 2 == 0 { Pool::Sapling } else { Pool::Orchard }, 20_000 + b as u64, false); }
        r.empties(6);
        r.tip_top();
        let base = r.chain.base;
        r.scan(base + 1, 4);
        r.trunc_with(base + 4, false, true);
        r.tip_top();
        r.scan(base + 5, 2);
        r.rewind(base + 5);
        r.suggest();
    }
}

fn main() {
    quiet_panics();
    let args: Vec<String> = std::env::args().collect();
    let mut out = NdjsonWriter::create(&args[1]);
    if args[2] == "scenarios" {
        scenarios(&mut out);
    } else if args[2] == "shard-scenarios" {
        let n: u64 = args.get(3).map(|s| s.parse().unwrap()).unwrap_or(6);
        shard_scenarios(&mut out, seed_from_env(), n);
        // `shard-scenarios <n> pools <m>`: also m histories with different shard boundaries per pool (C15)
        if args.get(4).map(|s| s == "pools").unwrap_or(false) {
            let m: u64 = args.get(5).map(|s| s.parse().unwrap()).unwrap_or(12);
            shard_pool_scenarios(&mut out, seed_from_env(), m);
            absence_scenarios(&mut out, seed_from_env());
        }
    } else if args[2] == "queue-ops" {
        let n: u64 = args.get(3).map(|s| s.parse().unwrap()).unwrap_or(8);
        queue_ops_scenarios(&mut out, seed_from_env(), n);
    } else if args[2] == "sync-scenarios" {
        let n: u64 = args.get(3).map(|s| s.parse().unwrap()).unwrap_or(8);
        sync_scenarios(&mut out, seed_from_env(), n, false);
        sync_scenarios(&mut out, seed_from_env() + 1, n / 2, true);
    } else if args[2] == "stale-frontier-scenario" {
        stale_frontier_scenario(&mut out);
    } else if args[2] == "retention-scenarios" {
        let all = args.get(3).map(|s| s == "all").unwrap_or(false);
        retention_scenarios(&mut out, if all { &[0, 1, 2, 3, 4, 5] } else { &[0, 4, 5] });
    } else if args[2] == "tree-scenarios" {
        // quick: one variant per network; "all": every variant on both
        let all = args.get(3).map(|s| s == "all").unwrap_or(false);
        tree_scenarios(&mut out, false, if all { &[0, 1, 2] } else { &[1] });
        tree_scenarios(&mut out, true, if all { &[0, 1, 2] } else { &[2] });
        empty_pool_scenarios(&mut out);
    } else {
        let histories: usize = args[2].parse().unwrap();
        let ops: usize = args[3].parse().unwrap();
        let ironwood = args.get(4).map(|s| s == "ironwood").unwrap_or(false);
        let seed = seed_from_env();
        for hist in 0..histories {
            let mut r = Run::new(&mut out, seed.wrapping_mul(1_000_003).wrapping_add(hist as u64), ironwood, json!(hist));
            r.random_history(ops);
        }
    }
    let n = out.finish();
    println!("{}", json!({"events": n}));
}
