//! C01/C06/C15 code -> spec driver: histories of block arrivals, scans of arbitrary ranges in
//! arbitrary order (with repeats), chain-tip updates, rewinds with and without a different
//! continuation of the chain, against the real SQLite wallet. One ndjson event per operation,
//! logged after the call returned, with the projection of the wallet state.
//!
//! usage: c01_driver <out.ndjson> <histories> <ops-per-history> [ironwood]     seeded random histories
//!        c01_driver <out.ndjson> scenarios                                     the scenario library
//! (scenarios: orderings the specification's safeguards exist for — spend scanned before its
//! receipt across 99..102-block gaps, batches longer than the nullifier retention, rewinds across
//! spends, orphan expiry at exactly 40 blocks)
use h_wallet::chain::{AbsTx, Chain, OutReq, Pool, TxReq};
use h_wallet::util::{NdjsonWriter, quiet_panics, seed_from_env};
use h_wallet::wallet::W;
use rand::{Rng, SeedableRng, seq::SliceRandom};
use rand_chacha::ChaChaRng;
use serde_json::{Value, json};
use zcash_client_backend::proto::compact_formats::CompactTx;

fn res_class<T>(r: &Result<Result<T, String>, String>) -> (&'static str, String) {
    match r {
        Ok(Ok(_)) => ("ok", String::new()),
        Ok(Err(e)) => ("err", e.chars().take(300).collect()),
        Err(p) => ("panic", p.chars().take(300).collect()),
    }
}

struct Run<'a> {
    w: W,
    chain: Chain,
    out: &'a mut NdjsonWriter,
    rng: ChaChaRng,
    ironwood: bool,
    next_value: u64,
    aborted: bool,
    orphaned: Vec<(AbsTx, CompactTx)>,
    /// also project the note commitment trees (C06) after every operation
    trees: bool,
    salt: u64,
}

impl<'a> Run<'a> {
    fn new(out: &'a mut NdjsonWriter, seed: u64, ironwood: bool, label: Value) -> Self {
        Self::with_retention(out, seed, ironwood, None, label)
    }

    fn with_retention(out: &'a mut NdjsonWriter, seed: u64, ironwood: bool, interval: Option<u32>, label: Value) -> Self {
        let mut rng = ChaChaRng::seed_from_u64(seed);
        let (w, keys) = W::with_retention(ironwood, interval);
        let chain = Chain::new(w.base, keys, &mut rng, ironwood);
        let trees = std::env::var("VERIF_TREES").map(|v| v == "1").unwrap_or(false);
        let mut r = Run { w, chain, out, rng, ironwood, next_value: 0, aborted: false, orphaned: vec![], trees, salt: seed };
        let post = r.post();
        // retention grid of this wallet: interval (0: policy inactive, NU6.3 not active) and first height it applies to
        let grid = if ironwood { interval.unwrap_or(144) } else { 0 };
        let gbase = r.w.base;   // heights are logged relative to `base`; absolute = base + rel
        r.out.emit(&json!({"a": "reset", "hist": label, "ironwood": ironwood, "grid": grid, "gbase": gbase, "post": post}));
        r
    }

    fn post(&mut self) -> Value {
        let mut p = self.w.project(&self.chain);
        if self.trees {
            self.salt += 1;
            p["trees"] = self.w.project_trees(&self.chain, self.salt);
        }
        p
    }

    fn abs(&self, rel: u32) -> u32 {
        self.chain.base + rel
    }

    fn block_event(&self, h: u32) -> Value {
        let b = &self.chain.blocks[&h];
        let txs: Vec<Value> = b
            .txs
            .iter()
            .map(|t| {
                json!({
                    "t": t.uid,
                    "outs": t.outs.iter().map(|o| json!({"n": o.note, "pool": o.pool.code(), "v": o.value, "acct": o.acct})).collect::<Vec<_>>(),
                    "spends": t.spends,
                })
            })
            .collect();
        // commitments this block adds to each pool's tree (Sapling, Orchard, Ironwood)
        let prev = self.chain.sizes_at(h - 1);
        let cm: Vec<u32> = (0..3).map(|i| b.sizes[i] - prev[i]).collect();
        json!({"a": "block", "h": self.w.rel(h), "b": b.uid, "txs": txs, "cm": cm})
    }

    fn block(&mut self, txs: &[TxReq], remined: &[(AbsTx, CompactTx)], check: bool) -> u32 {
        let h = self.chain.extend_with(&self.w.net, txs, remined, &mut self.rng);
        let mut ev = self.block_event(h);
        ev["post"] = if check { self.post() } else { json!({"chk": false}) };
        self.out.emit(&ev);
        h
    }

    fn empties(&mut self, k: u32) {
        for i in 0..k {
            self.block(&[], &[], i + 1 == k);
        }
    }

    /// one transaction paying the wallet; returns the note id
    fn recv(&mut self, pool: Pool, value: u64, internal: bool) -> u32 {
        let n = self.chain.next_note;
        self.block(&[TxReq { outs: vec![OutReq { pool, acct: 1, internal, diversified: false, value }], spends: vec![], foreign_spends: vec![] }], &[], true);
        n
    }

    /// one transaction spending `note`, with `change` back to the wallet (0: none)
    fn spend(&mut self, note: u32, change: u64, change_pool: Pool) {
        let total = self.chain.notes[&note].value;
        let mut outs = vec![OutReq { pool: change_pool, acct: 0, internal: false, diversified: false, value: total - change }];
        if change > 0 {
            outs.push(OutReq { pool: change_pool, acct: 1, internal: change_pool != Pool::Sapling, diversified: false, value: change });
        }
        self.block(&[TxReq { outs, spends: vec![note], foreign_spends: vec![] }], &[], true);
    }

    fn tip(&mut self, h: u32) {
        let res = self.w.update_tip(h);
        let (c, e) = res_class(&res);
        let post = self.post();
        self.out.emit(&json!({"a": "tip", "h": self.w.rel(h), "res": c, "err": e, "post": post}));
        self.aborted |= c == "panic";
    }

    fn tip_top(&mut self) {
        self.tip(self.chain.top());
    }

    /// returns whether the scan succeeded
    fn scan(&mut self, from: u32, limit: usize) -> bool {
        let res = self.w.scan(&self.chain, from, limit);
        let (c, e) = res_class(&res);
        let post = self.post();
        self.out.emit(&json!({"a": "scan", "from": self.w.rel(from), "n": limit, "res": c, "err": e, "post": post}));
        self.aborted |= c == "panic";
        c == "ok"
    }

    /// rewind; `fork`: the chain above the height the wallet settled on is then replaced
    fn trunc(&mut self, req: u32, fork: bool) -> Option<u32> {
        let res = self.w.truncate(req);
        let (c, e) = res_class(&res);
        let to_abs = match &res { Ok(Ok(h)) => Some(*h), _ => None };
        let fork = fork && to_abs.is_some();
        if fork {
            let to_abs = to_abs.unwrap();
            // remember pure-receipt transactions of the orphaned blocks: they may be mined again
            for (_, b) in self.chain.blocks.range(to_abs + 1..) {
                for (i, t) in b.txs.iter().enumerate() {
                    if t.spends.is_empty() && t.outs.iter().any(|o| o.note > 0) && self.orphaned.len() < 4 {
                        self.orphaned.push((t.clone(), b.cb.vtx[i].clone()));
                    }
                }
            }
            self.chain.truncate(to_abs);
        }
        let post = self.post();
        self.out.emit(&json!({"a": "trunc", "req": self.w.rel(req), "res": c, "err": e,
                              "to": to_abs.map(|h| self.w.rel(h)).unwrap_or(-1), "fork": fork, "post": post}));
        self.aborted |= c == "panic";
        to_abs
    }

    fn scanned(&self) -> Vec<i64> {
        self.w.project(&self.chain)["blocks"].as_array().unwrap().iter().map(|v| v.as_i64().unwrap()).collect()
    }

    /// catch up completely, then compare with a fresh wallet that scans the chain once, in order
    fn catch_up_and_fresh(&mut self) {
        let top = self.chain.top();
        if top == self.chain.base {
            return;
        }
        self.tip(top);
        let mut ok = !self.aborted;
        while ok {
            let scanned = self.scanned();
            let Some(from) = (self.chain.base + 1..=top).find(|h| !scanned.contains(&self.w.rel(*h))) else { break };
            let run = (from..=top).take_while(|h| !scanned.contains(&self.w.rel(*h))).count();
            let limit = run.min(self.rng.gen_range(1..300));
            ok = self.scan(from, limit);
        }
        if ok {
            let (mut fresh, _) = W::new(self.ironwood);
            let r1 = fresh.update_tip(top);
            let r2 = fresh.scan(&self.chain, self.chain.base + 1, (top - self.chain.base) as usize);
            if matches!(r1, Ok(Ok(_))) && matches!(r2, Ok(Ok(_))) {
                let p = fresh.project(&self.chain);
                self.out.emit(&json!({"a": "fresh", "notes": p["notes"], "bal": p["bal"], "balp": p["balp"], "blocks": p["blocks"]}));
            } else {
                self.out.emit(&json!({"a": "freshfail", "r1": format!("{r1:?}"), "r2": format!("{r2:?}")}));
            }
        }
    }

    // ---------------------------------------------------------------------------------------
    // random histories

    fn value(&mut self) -> u64 {
        // mostly economic, sometimes around the dust boundary (MARGINAL_FEE = 5000)
        self.next_value += 1;
        match self.rng.gen_range(0..10) {
            0 => 5000,
            1 => 5001,
            2 => 4999 - (self.next_value % 7),
            _ => 10_000 + 1_000 * (self.next_value % 400) + self.rng.gen_range(0..1000),
        }
    }

    fn pools(&self) -> Vec<Pool> {
        if self.ironwood { vec![Pool::Sapling, Pool::Orchard, Pool::Ironwood] } else { vec![Pool::Sapling, Pool::Orchard] }
    }

    fn random_tx(&mut self, taken: &mut Vec<u32>) -> TxReq {
        let pools = self.pools();
        let mut outs = vec![];
        let mut spends = vec![];
        let mut foreign_spends = vec![];
        let spendable: Vec<u32> = self.chain.spendable().into_iter().filter(|n| !taken.contains(n)).collect();
        let kind = self.rng.gen_range(0..10);
        if kind < 4 || spendable.is_empty() {
            for _ in 0..self.rng.gen_range(1..=2) {
                let pool = *pools.choose(&mut self.rng).unwrap();
                let foreign = self.rng.gen_bool(0.25);
                outs.push(OutReq {
                    pool,
                    acct: if foreign { 0 } else { 1 },
                    internal: !foreign && pool != Pool::Sapling && self.rng.gen_bool(0.3),
                    diversified: self.rng.gen_bool(0.3),
                    value: self.value(),
                });
            }
            if self.rng.gen_bool(0.2) {
                foreign_spends.push(*pools.choose(&mut self.rng).unwrap());
            }
        } else {
            let n = *spendable.choose(&mut self.rng).unwrap();
            spends.push(n);
            taken.push(n);
            let mut total = self.chain.notes[&n].value;
            if self.rng.gen_bool(0.2) {
                if let Some(m) = spendable.iter().find(|m| **m != n) {
                    spends.push(*m);
                    taken.push(*m);
                    total += self.chain.notes[m].value;
                }
            }
            let pool = *pools.choose(&mut self.rng).unwrap();
            match self.rng.gen_range(0..3) {
                0 => outs.push(OutReq { pool, acct: 0, internal: false, diversified: false, value: total }),
                1 => {
                    let pay = total / 3 + 1;
                    outs.push(OutReq { pool, acct: 0, internal: false, diversified: false, value: pay });
                    outs.push(OutReq { pool, acct: 1, internal: pool != Pool::Sapling, diversified: false, value: total - pay });
                }
                _ => outs.push(OutReq { pool, acct: 1, internal: false, diversified: false, value: total.saturating_sub(1000).max(1) }),
            }
        }
        TxReq { outs, spends, foreign_spends }
    }

    fn random_history(&mut self, ops: usize) {
        let long_gaps = self.rng.gen_bool(0.35);
        // some histories only rewind to the start of the most recent scan batch or above (no C06 taint)
        let gentle_rewinds = self.rng.gen_bool(0.5);
        let mut last_from = self.chain.base + 1;
        for op_i in 0..=ops {
            if self.aborted {
                break;
            }
            let top = self.chain.top();
            if top > self.chain.base && (op_i == ops || self.rng.gen_range(0..100) < 3) {
                self.catch_up_and_fresh();
                if op_i == ops {
                    break;
                }
                continue;
            }
            let r = self.rng.gen_range(0..100);
            if r < 30 || top == self.chain.base {
                let ntx = match self.rng.gen_range(0..10) { 0..=1 => 0, 2..=7 => 1, _ => 2 };
                let mut taken = vec![];
                let txs: Vec<TxReq> = (0..ntx).map(|_| self.random_tx(&mut taken)).collect();
                let remined = if !self.orphaned.is_empty() && self.rng.gen_bool(0.3) { vec![self.orphaned.remove(0)] } else { vec![] };
                self.block(&txs, &remined, true);
            } else if r < 38 {
                let k = if long_gaps { *[3u32, 39, 40, 41, 99, 100, 101].choose(&mut self.rng).unwrap() } else { self.rng.gen_range(1..6) };
                self.empties(k);
            } else if r < 48 {
                let h = if self.rng.gen_bool(0.7) { top } else { self.rng.gen_range(self.chain.base + 1..=top) };
                self.tip(h);
            } else if r < 88 {
                let from = if self.rng.gen_bool(0.5) {
                    let scanned = self.scanned();
                    (self.chain.base + 1..=top).find(|h| !scanned.contains(&self.w.rel(*h))).unwrap_or(self.rng.gen_range(self.chain.base + 1..=top))
                } else {
                    self.rng.gen_range(self.chain.base + 1..=top)
                };
                let limit = match self.rng.gen_range(0..10) { 0..=3 => 1, 4..=6 => self.rng.gen_range(2..5), 7..=8 => self.rng.gen_range(5..30), _ => 250 };
                // documented client protocol: the wallet learns the tip before scanning above it
                let last = (from + limit as u32 - 1).min(top);
                if self.w.tip().map(|t| t < last).unwrap_or(true) {
                    self.tip(top);
                }
                if self.scan(from, limit) {
                    last_from = last_from.max(from);
                }
            } else {
                let req = if gentle_rewinds {
                    let lo = last_from.saturating_sub(1).max(self.chain.base + 1).min(top);
                    self.rng.gen_range(lo..=top)
                } else if self.rng.gen_bool(0.6) {
                    top.saturating_sub(self.rng.gen_range(0..6)).max(self.chain.base + 1)
                } else {
                    self.rng.gen_range(self.chain.base + 1..=top)
                };
                let fork = self.rng.gen_bool(0.7);
                if let Some(to) = self.trunc(req, fork) {
                    last_from = last_from.min(to + 1);
                }
            }
        }
    }
}

// -------------------------------------------------------------------------------------------
// scenario library (DESIGN §1.4): each is one history

fn scenarios(out: &mut NdjsonWriter) {
    let mut id = 0;
    // A: a spend scanned before its receipt, separated by k blocks; the receipt block is scanned last
    for &k in &[1u32, 98, 99, 100, 101, 102, 160] {
        for &pool in &[Pool::Sapling, Pool::Orchard] {
            for variant in 0..2 {
                id += 1;
                let mut r = Run::new(out, 1000 + id, false, json!(format!("A k={k} {} v{variant}", pool.code())));
                let n = r.recv(pool, 60_000, false);
                r.empties(k);
                r.spend(n, 20_000, pool);
                r.empties(if variant == 0 { 2 } else { 140 });
                r.tip_top();
                if variant == 0 {
                    // everything but the receipt block in one batch, then the receipt
                    r.scan(r.abs(2), 500);
                } else {
                    // the spend block alone, then blocks far ahead of it, then the stretch in between
                    r.scan(r.abs(k + 2), 1);
                    r.scan(r.abs(k + 2 + 105), 30);
                    r.scan(r.abs(2), k as usize);
                }
                r.scan(r.abs(1), 1);
                r.catch_up_and_fresh();
            }
        }
    }
    // A': as A, but a block below the receipt is scanned first (so a fully-scanned height exists) and
    // the spend lies more than the nullifier retention below the end of the batch that contains it
    for &k in &[1u32, 60, 101] {
        for &pool in &[Pool::Sapling, Pool::Orchard] {
            id += 1;
            let mut r = Run::new(out, 1500 + id, false, json!(format!("A' k={k} {}", pool.code())));
            r.empties(1);
            r.tip_top();
            r.scan(r.abs(1), 1);
            let n = r.recv(pool, 60_000, false);
            r.empties(k);
            r.spend(n, 20_000, pool);
            r.empties(130);
            r.tip_top();
            r.scan(r.abs(3), 1000);
            r.scan(r.abs(2), 1);
            r.catch_up_and_fresh();
        }
    }
    // B: one batch longer than the nullifier retention that extends the fully-scanned frontier and
    // holds receipt and spend on either side of the tracking floor
    for &(a, b, c) in &[(5u32, 5u32, 150u32), (5, 120, 30), (90, 5, 20), (1, 99, 1), (1, 100, 1), (1, 101, 1)] {
        for &pool in &[Pool::Sapling, Pool::Orchard] {
            id += 1;
            let mut r = Run::new(out, 2000 + id, false, json!(format!("B {a},{b},{c} {}", pool.code())));
            let n0 = r.recv(pool, 50_000, false);
            r.tip_top();
            r.scan(r.abs(1), 1);
            r.empties(a);
            let n1 = r.recv(pool, 70_000, false);
            r.empties(b);
            r.spend(n1, 0, pool);
            r.empties(c);
            r.spend(n0, 10_000, pool);
            r.tip_top();
            r.scan(r.abs(2), 1000);
            r.catch_up_and_fresh();
        }
    }
    // C: a rewind across a spend whose link already exists; the orphaned spender keeps the note spent
    // until it expires, 40 blocks after it was observed; the tip is advanced block by block
    for &pool in &[Pool::Sapling, Pool::Orchard] {
        id += 1;
        let mut r = Run::new(out, 3000 + id, false, json!(format!("C {}", pool.code())));
        let n = r.recv(pool, 80_000, false);
        r.spend(n, 30_000, pool);
        r.empties(2);
        r.tip_top();
        r.scan(r.abs(1), 10);
        r.trunc(r.abs(1), true);
        for _ in 0..45 {
            r.empties(1);
            r.tip_top();
        }
        r.catch_up_and_fresh();
    }
    // D: an orphaned receipt stops counting exactly 40 blocks after it was observed; then it is mined again
    for &pool in &[Pool::Sapling, Pool::Orchard] {
        id += 1;
        let mut r = Run::new(out, 4000 + id, false, json!(format!("D {}", pool.code())));
        r.recv(pool, 11_000, false);
        r.recv(pool, 90_000, false);
        r.tip_top();
        r.scan(r.abs(1), 10);
        r.trunc(r.abs(1), true);
        for _ in 0..43 {
            r.empties(1);
            r.tip_top();
        }
        if !r.orphaned.is_empty() {
            let remined = vec![r.orphaned.remove(0)];
            r.block(&[], &remined, true);
        }
        r.catch_up_and_fresh();
    }
}

/// C06 scenarios: more non-empty blocks than the checkpoint budget (100), one pool silent for long
/// stretches, batches of different sizes, then rewinds to the newest, a middle and the oldest
/// retained checkpoint
fn tree_scenarios(out: &mut NdjsonWriter, ironwood: bool, variants: &[u64]) {
    for &variant in variants {
        let mut r = Run::new(out, 7000 + variant, ironwood, json!(format!("T v{variant} iw={ironwood}")));
        let mut rng = ChaChaRng::seed_from_u64(variant);
        for i in 0..130u32 {
            // Sapling-only stretch, Orchard-only stretch, mixed, some empty blocks
            let pool = match (variant, i) {
                (0, _) => if i % 2 == 0 { Pool::Sapling } else { Pool::Orchard },
                (1, 0..=59) => Pool::Sapling,
                (1, _) => Pool::Orchard,
                (_, _) => if ironwood && i % 3 == 0 { Pool::Ironwood } else if i % 3 == 1 { Pool::Orchard } else { Pool::Sapling },
            };
            if i % 11 == 10 {
                r.empties(1);
            } else {
                let foreign = i % 4 != 0;
                r.block(&[TxReq { outs: vec![OutReq { pool, acct: if foreign { 0 } else { 1 }, internal: false, diversified: false, value: 20_000 + i as u64 }], spends: vec![], foreign_spends: vec![] }], &[], false);
            }
            if i % 17 == 16 || i == 129 {
                r.tip_top();
                // scan what is new in batches of varying size
                loop {
                    let scanned = r.scanned();
                    let top = r.chain.top();
                    let Some(from) = (r.chain.base + 1..=top).find(|h| !scanned.contains(&r.w.rel(*h))) else { break };
                    let limit = rng.gen_range(1..9);
                    if !r.scan(from, limit) { break }
                }
            }
        }
        let top = r.chain.top();
        r.trunc(top - 1, true);
        r.empties(2);
        r.catch_up_and_fresh();
        let top = r.chain.top();
        r.trunc(top - 50, true);
        r.empties(3);
        r.catch_up_and_fresh();
        let top = r.chain.top();
        r.trunc(top.saturating_sub(99).max(r.chain.base + 1), false);
        r.catch_up_and_fresh();
    }
}

/// C06 retention scenarios (NU6.3 active, small custom grids): boundary blocks with and without
/// commitments in each pool, batches shorter and longer than the checkpoint budget, batch
/// boundaries before / on / after a grid height
fn retention_scenarios(out: &mut NdjsonWriter, which: &[u32]) {
    for &variant in which {
        let interval = [12u32, 7, 30][variant as usize % 3];
        let mut r = Run::with_retention(out, 8000 + variant as u64, true, Some(interval), json!(format!("R v{variant} interval={interval}")));
        let mut rng = ChaChaRng::seed_from_u64(variant as u64);
        let total = if variant >= 3 { 260 } else { 90 };
        for i in 1..=total {
            let h = r.chain.top() + 1;
            let on_grid = h % interval == 0;
            // variants: boundary blocks empty / Sapling silent on boundaries / everything dense
            let pools: Vec<Pool> = match variant % 3 {
                0 => if on_grid { vec![] } else { vec![Pool::Sapling, Pool::Orchard] },
                1 => if on_grid { vec![Pool::Orchard] } else { vec![Pool::Sapling] },
                // Sapling in every block (more own checkpoints than the budget in one long batch), the others alternating
                _ => vec![Pool::Sapling, [Pool::Orchard, Pool::Ironwood][(i % 2) as usize]],
            };
            let txs: Vec<TxReq> = pools
                .iter()
                .map(|p| TxReq { outs: vec![OutReq { pool: *p, acct: if i % 5 == 0 { 1 } else { 0 }, internal: false, diversified: false, value: 30_000 + i as u64 }], spends: vec![], foreign_spends: vec![] })
                .collect();
            r.block(&txs, &[], false);
        }
        r.tip_top();
        if variant >= 3 {
            // one batch far longer than the checkpoint budget
            r.scan(r.abs(1), 1000);
        } else {
            loop {
                let scanned = r.scanned();
                let top = r.chain.top();
                let Some(from) = (r.chain.base + 1..=top).find(|h| !scanned.contains(&r.w.rel(*h))) else { break };
                let limit = rng.gen_range(1..(2 * interval as usize));
                if !r.scan(from, limit) { break }
            }
        }
        // ordinary scanning continues: the boundaries must survive pruning
        for _ in 0..3 {
            for i in 0..45u64 {
                r.block(&[TxReq { outs: vec![OutReq { pool: Pool::Sapling, acct: 0, internal: false, diversified: false, value: 40_000 + i }, OutReq { pool: Pool::Orchard, acct: 0, internal: false, diversified: false, value: 41_000 + i }], spends: vec![], foreign_spends: vec![] }], &[], false);
            }
            r.tip_top();
            let top = r.chain.top();
            r.scan(top - 44, 45);
        }
        let top = r.chain.top();
        r.trunc(top - 20, true);
        r.empties(3);
        r.catch_up_and_fresh();
    }
}

/// The minimal history of the known finding C06-stale-frontier-after-rewind (DESIGN C06): four
/// blocks with one wallet output each, scanned one block per call; a rewind to the first; three
/// different blocks mined and scanned.
fn stale_frontier_scenario(out: &mut NdjsonWriter) {
    for &pool in &[Pool::Sapling, Pool::Orchard] {
        let mut r = Run::new(out, 9000, false, json!(format!("K {}", pool.code())));
        for i in 0..4u64 {
            r.recv(pool, 50_000 + i, false);
            r.tip_top();
            let top = r.chain.top();
            r.scan(top, 1);
        }
        r.trunc(r.abs(1), true);
        for i in 0..3u64 {
            r.recv(pool, 60_000 + i, false);
        }
        r.empties(2);
        r.tip_top();
        r.scan(r.abs(2), 3);
        r.scan(r.abs(5), 1);
        r.scan(r.abs(6), 1);
    }
}

fn main() {
    quiet_panics();
    let args: Vec<String> = std::env::args().collect();
    let mut out = NdjsonWriter::create(&args[1]);
    if args[2] == "scenarios" {
        scenarios(&mut out);
    } else if args[2] == "stale-frontier-scenario" {
        stale_frontier_scenario(&mut out);
    } else if args[2] == "retention-scenarios" {
        let all = args.get(3).map(|s| s == "all").unwrap_or(false);
        retention_scenarios(&mut out, if all { &[0, 1, 2, 3, 4, 5] } else { &[0, 4, 5] });
    } else if args[2] == "tree-scenarios" {
        // quick: one variant per network; "all": every variant on both
        let all = args.get(3).map(|s| s == "all").unwrap_or(false);
        tree_scenarios(&mut out, false, if all { &[0, 1, 2] } else { &[1] });
        tree_scenarios(&mut out, true, if all { &[0, 1, 2] } else { &[2] });
    } else {
        let histories: usize = args[2].parse().unwrap();
        let ops: usize = args[3].parse().unwrap();
        let ironwood = args.get(4).map(|s| s == "ironwood").unwrap_or(false);
        let seed = seed_from_env();
        for hist in 0..histories {
            let mut r = Run::new(&mut out, seed.wrapping_mul(1_000_003).wrapping_add(hist as u64), ironwood, json!(hist));
            r.random_history(ops);
        }
    }
    let n = out.finish();
    println!("{}", json!({"events": n}));
}
