//! C01, transparent coins (code -> spec): the shielded histories of c01_driver (block arrivals, scans of any
//! range in any order, tip updates, rewinds with and without a fork) interleaved with the two ways transparent
//! coins reach the wallet - UTXO reports and full transactions - in every arrival order, against the real SQLite
//! wallet built WITH `transparent-inputs`. One ndjson event per operation, logged after the call returned:
//!   utxo / fulltx   the coin operation, with the shielded projection (`post`) and the coin projection (`coins`)
//!   coinchk         the coin projection after a shielded operation (whose own event carries `post`)
//!
//! C08 (coins as proposal inputs): the same histories with shielding proposals (propose_shielding under different
//! confirmation policies incl. zero-conf shielding, source addresses, thresholds, lock requests, selector lock policies),
//! create_proposed_transactions on kept proposals (real transparent signatures, mock Sapling provers), the environment
//! mining the shielding transaction (learnt from a scanned block, a full-transaction delivery or a status update) or
//! letting it expire, and direct lock / unlock / clear operations on coins:
//!   pshield / cshield / clock / cunlock / cclear
//!
//! C08 (multi-step proposals, "in every step"): the same histories with propose_transfer calls that pay ZIP 320 TEX
//! addresses (alone, twice, mixed with shielded / transparent recipients; funded from notes, coins or both) - the wallet
//! answers with a two-step proposal (notes -> ephemeral transparent output -> TEX recipient) of which EVERY step is logged
//! -, create_proposed_transactions on kept proposals (both transactions are read back: inputs, outputs, fees), the
//! environment mining both / only the first / neither, locks on notes and coins:
//!   ptex / ctex / untex / lock
//!
//! usage: c01t_driver <out.ndjson> <histories> <ops-per-history> [ironwood]     seeded random histories
//!        c01t_driver <out.ndjson> scenarios                                     the scenario library
//!        c01t_driver <out.ndjson> shield <histories> <ops-per-history> [ironwood]   histories with shielding (C08)
//!        c01t_driver <out.ndjson> shield-scenarios                              the shielding scenario library (C08)
//!        c01t_driver <out.ndjson> conflict-scenario                             probe of a suspected defect (not registered)
//!        c01t_driver <out.ndjson> tex-scenarios                                 multi-step (ZIP 320) proposal scenarios (C08)
//!        c01t_driver <out.ndjson> tex <histories> <ops-per-history> [ironwood]  histories with multi-step proposals (C08)
use std::convert::Infallible;

use h_wallet::chain::{Pool, TxReq};
use h_wallet::coins::{CoinWorld, SHARED_BASE, class};
use h_wallet::run::Run;
use h_wallet::util::{NdjsonWriter, guarded, quiet_panics, seed_from_env};
use rand::{Rng, seq::SliceRandom};
use serde_json::{Value, json};
use zcash_client_backend::{
    data_api::{
        CoinbaseFilter, WalletRead, WalletTest,
        locking::{LockOwner, LockRequest, LockedInputPolicy, OutputLockStore, unlock_proposal_inputs},
        testing::single_output_change_strategy,
        wallet::{
            ConfirmationsPolicy, SpendingKeys, create_proposed_transactions, propose_shielding, propose_transfer,
            input_selection::{GreedyInputSelector, NonEmptyBTreeSet, SpendPolicy, TransparentSpendPolicy},
        },
    },
    fees::StandardFeeRule,
    proposal::Proposal,
    wallet::OvkPolicy,
};
use zcash_primitives::transaction::TxId;
use zcash_protocol::{ShieldedPool, consensus::BlockHeight, value::Zatoshis};

type ShProp = Proposal<StandardFeeRule, Infallible>;

fn owner(i: usize) -> LockOwner {
    LockOwner::from(TxId::from_bytes([(i + 1) as u8; 32]))
}

/// a shielding proposal the driver kept: the proposal, who locked its inputs (if anybody), the account it shields to
struct Kept {
    p: ShProp,
    locker: Option<usize>,
    to: u32,
}

struct T<'a> {
    r: Run<'a>,
    cw: CoinWorld,
    kept: Vec<Kept>,
    /// total input value of the last successful shielding proposal (thresholds are tried around it)
    last_sum: u64,
    /// transfer proposals (possibly multi-step) the driver kept (C08, multi-step part)
    ktex: Vec<KeptTex>,
    /// second transactions of ZIP 320 pairs the wallet created, with the uid of their first transaction
    seconds: Vec<(u32, h_wallet::chain::Created)>,
}

impl<'a> T<'a> {
    fn new(out: &'a mut NdjsonWriter, seed: u64, ironwood: bool, label: serde_json::Value) -> Self {
        let mut r = Run::new(out, seed, ironwood, label);
        let cw = CoinWorld::new(&mut r.w);
        let mut t = T { r, cw, kept: vec![], last_sum: 0, ktex: vec![], seconds: vec![] };
        t.chk();
        t
    }

    /// the coin projection after a shielded operation
    fn chk(&mut self) {
        let coins = self.cw.project(&self.r.w);
        self.r.out.emit(&json!({"a": "coinchk", "coins": coins}));
    }

    fn rel(&self, h: Option<u32>) -> i64 {
        h.map(|h| self.r.w.rel(h)).unwrap_or(-1)
    }

    fn utxo(&mut self, c: u32, h: Option<u32>) -> bool {
        let res = self.cw.report(&mut self.r.w, c, h);
        let (cl, e) = class(&res);
        let coin = self.cw.coins[&c].clone();
        let post = self.r.post();
        let coins = self.cw.project(&self.r.w);
        self.r.out.emit(&json!({"a": "utxo", "c": c, "t": coin.tx, "v": coin.value, "acct": coin.acct, "ad": coin.ad, "h": self.rel(h),
                                "res": cl, "err": e, "post": post, "coins": coins}));
        self.r.aborted |= cl == "panic";
        cl == "ok"
    }

    fn fulltx(&mut self, t: u32, h: Option<u32>) -> bool {
        let res = self.cw.store(&mut self.r.w, t, h);
        let (cl, e) = class(&res);
        let tx = self.cw.txs[&t].clone();
        let post = self.r.post();
        let coins = self.cw.project(&self.r.w);
        let ins: Vec<u32> = tx.ins.iter().copied().filter(|c| *c != 0).collect();
        let outs: Vec<serde_json::Value> = tx.outs.iter().map(|(c, v, a, ad)| json!([c, v, a, ad])).collect();
        let exp = if tx.expiry == 0 { 0 } else { self.r.w.rel(tx.expiry) };
        self.r.out.emit(&json!({"a": "fulltx", "t": t, "ins": ins, "nforeign": tx.ins.iter().filter(|c| **c == 0).count(), "outs": outs,
                                "h": self.rel(h), "e": exp, "res": cl, "err": e, "post": post, "coins": coins}));
        self.r.aborted |= cl == "panic";
        cl == "ok"
    }

    fn status(&mut self, t: u32, h: u32) -> bool {
        let res = self.cw.status_mined(&mut self.r.w, t, h);
        let (cl, e) = class(&res);
        let post = self.r.post();
        let coins = self.cw.project(&self.r.w);
        self.r.out.emit(&json!({"a": "txstatus", "t": t, "h": self.r.w.rel(h), "res": cl, "err": e, "post": post, "coins": coins}));
        self.r.aborted |= cl == "panic";
        cl == "ok"
    }

    // shielded operations, each followed by the coin projection
    fn empties(&mut self, k: u32) {
        self.r.empties(k);
        self.chk();
    }
    fn tip(&mut self, h: u32) {
        self.r.tip(h);
        self.chk();
    }
    fn tip_top(&mut self) {
        self.r.tip_top();
        self.chk();
    }
    fn scan(&mut self, from: u32, n: usize) -> bool {
        let ok = self.r.scan(from, n);
        self.chk();
        ok
    }
    fn trunc(&mut self, req: u32, fork: bool) -> Option<u32> {
        let to = self.r.trunc(req, fork);
        self.chk();
        to
    }
    fn recv(&mut self, pool: Pool, v: u64) {
        self.r.recv(pool, v, false);
        self.chk();
    }
    /// `k` blocks, the tip moved over each of them one by one (so every height is a balance observation)
    fn walk(&mut self, k: u32) {
        for _ in 0..k {
            self.r.empties(1);
            self.r.tip_top();
            self.chk();
        }
    }
    fn wtip(&self) -> u32 {
        self.r.w.tip().unwrap_or(self.r.chain.base)
    }
    /// a few blocks with a note each, scanned: rewinds have heights to settle on
    fn prelude(&mut self, blocks: u32) {
        for i in 0..blocks {
            self.recv(if i % 2 == 0 { Pool::Sapling } else { Pool::Orchard }, 50_000 + i as u64);
        }
        self.tip_top();
        self.scan(self.r.abs(1), blocks as usize);
    }
}

// -------------------------------------------------------------------------------------------
// scenario library: each is one history

fn scenarios(out: &mut NdjsonWriter) {
    let mut id = 5000u64;

    // A: a coin reported below / at / above the tip starts counting when the tip reaches its height; dust boundary values
    for &(acct, v) in &[(1u32, 60_000u64), (2, 5_000), (1, 5_001), (2, 4_999)] {
        id += 1;
        let mut t = T::new(out, id, false, json!(format!("tA acct={acct} v={v}")));
        // before the wallet knows a tip both operations are refused
        let c0 = t.cw.new_utxo(&mut t.r.rng, acct, v);
        t.utxo(c0, Some(t.r.abs(1)));
        t.prelude(3); // (no balance is reported before something was scanned)
        t.empties(3);
        t.tip(t.r.abs(4));
        // the first coin alone (so the dust boundary is observed on a single coin), then more at / below / above the tip
        for dh in [4u32, 2, 5, 6] {
            let c = t.cw.new_utxo(&mut t.r.rng, acct, v + dh as u64 - 4);
            t.utxo(c, Some(t.r.abs(dh)));
        }
        let cu = t.cw.new_utxo(&mut t.r.rng, acct, v);
        t.utxo(cu, None); // seen unmined: never counted until a height is reported
        t.tip(t.r.abs(5));
        t.tip(t.r.abs(6));
        t.utxo(cu, Some(t.r.abs(6)));
        t.utxo(c0, Some(t.r.abs(1)));
        t.utxo(c0, Some(t.r.abs(1))); // repeated report
    }

    // B: the spender arrives before the coin (either mined or unmined, expiry 0 / concrete), the coin is reported later;
    // then the tip walks across the expiry height
    for &(mined, never, acct) in &[(false, false, 1u32), (false, true, 1), (true, false, 2), (true, true, 2), (false, false, 2)] {
        id += 1;
        let mut t = T::new(out, id, false, json!(format!("tB mined={mined} never={never} acct={acct}")));
        t.prelude(3);
        t.empties(4);
        t.tip_top(); // tip = 7
        let c1 = t.cw.new_utxo(&mut t.r.rng, acct, 80_000);
        let exp = if never { 0 } else { t.r.abs(12) };
        // S1 spends c1 and pays change to the other account and a foreign address
        let s1 = t.cw.new_tx(&mut t.r.rng, &[c1], 0, &[(3 - acct, 30_000), (0, 49_000)], exp);
        t.fulltx(s1, if mined { Some(t.r.abs(6)) } else { None });
        // S0 spends c1 too but concerns the wallet in no other way: the wallet cannot know, and drops it
        let s0 = t.cw.new_tx(&mut t.r.rng, &[c1], 1, &[(0, 70_000)], exp);
        t.fulltx(s0, None);
        t.utxo(c1, Some(t.r.abs(5)));
        t.walk(7); // tip 8 .. 14: across expiry 12
        if !mined {
            // finally mined (if it can still be): the change counts again, the coin stays spent
            if never { t.fulltx(s1, Some(t.r.abs(13))); }
        }
        t.r.catch_up_and_fresh();
        t.chk();
    }

    // C: the coin first, then its spender; a rewind below the spender's height un-mines it (its expiry decides from then on),
    // a rewind below the coin's height un-mines a reported coin (no expiry on record: it stops counting until reported again)
    for &(acct, never) in &[(1u32, false), (2, true)] {
        id += 1;
        let mut t = T::new(out, id, false, json!(format!("tC acct={acct} never={never}")));
        t.prelude(8); // blocks 1..8 scanned, tip 8
        let c1 = t.cw.new_utxo(&mut t.r.rng, acct, 90_000);
        let c2 = t.cw.new_utxo(&mut t.r.rng, acct, 3_000);
        let c3 = t.cw.new_utxo(&mut t.r.rng, acct, 2_500);
        t.utxo(c1, Some(t.r.abs(4)));
        t.utxo(c2, Some(t.r.abs(7)));
        t.utxo(c3, Some(t.r.abs(7))); // two dust coins
        let exp = if never { 0 } else { t.r.abs(20) };
        let s1 = t.cw.new_tx(&mut t.r.rng, &[c1], 0, &[(acct, 40_000), (0, 49_000)], exp);
        t.fulltx(s1, Some(t.r.abs(7)));
        t.trunc(t.r.abs(6), true); // below the spender and the dust coins
        t.utxo(c2, Some(t.r.abs(7))); // re-mined in the new chain, reported above the tip
        t.r.recv(Pool::Sapling, 61_000, false);
        t.chk();
        t.r.recv(Pool::Orchard, 62_000, false);
        t.chk();
        t.tip_top();
        t.scan(t.r.abs(7), 2);
        t.trunc(t.r.abs(3), false); // below the coin
        t.utxo(c1, Some(t.r.abs(4)));
        t.walk(3);
        t.fulltx(s1, Some(t.r.abs(9)));
        t.walk(18); // across expiry 20
        t.r.catch_up_and_fresh();
        t.chk();
    }

    // F: coins and a spender mined at heights the wallet has NOT scanned (transparent transactions need no scanned block);
    // a rewind below them un-mines them all the same; the new chain grows past their old heights; a height-less report of
    // a mined coin must not un-mine it
    for &acct in &[1u32, 2] {
        id += 1;
        let mut t = T::new(out, id, false, json!(format!("tF unscanned heights acct={acct}")));
        t.prelude(3);
        t.empties(5);
        t.tip_top(); // tip 8, blocks 4..8 not scanned
        let c1 = t.cw.new_utxo(&mut t.r.rng, acct, 70_000);
        let c2 = t.cw.new_utxo(&mut t.r.rng, acct, 4_000);
        t.utxo(c1, Some(t.r.abs(5)));
        t.utxo(c2, Some(t.r.abs(7)));
        t.utxo(c2, None);
        let e30 = t.r.abs(30);
        let s1 = t.cw.new_tx(&mut t.r.rng, &[c1], 0, &[(acct, 20_000), (0, 49_000)], e30);
        t.fulltx(s1, Some(t.r.abs(7)));
        t.trunc(t.r.abs(6), true); // settles on 3
        t.walk(6); // the new chain passes heights 5..9
        t.utxo(c1, Some(t.r.abs(6)));
        t.fulltx(s1, None);
        t.walk(2);
    }

    // G: unmined transactions whose mining the wallet learns from a status update (not from a second delivery)
    {
        id += 1;
        let mut t = T::new(out, id, false, json!("tG status updates"));
        t.prelude(3);
        t.empties(4);
        t.tip_top(); // tip 7
        let c1 = t.cw.new_utxo(&mut t.r.rng, 1, 90_000);
        t.utxo(c1, Some(t.r.abs(4)));
        let e10 = t.r.abs(10);
        let s1 = t.cw.new_tx(&mut t.r.rng, &[c1], 0, &[(2, 50_000), (0, 39_000)], e10);
        t.fulltx(s1, None);
        let s9 = t.cw.new_tx(&mut t.r.rng, &[], 1, &[(0, 1_000)], 0);
        t.status(s9, t.r.abs(5)); // a transaction the wallet has never heard of
        t.walk(2); // tip 9
        t.status(s1, t.r.abs(9)); // mined just before it would have expired
        t.walk(3); // tip 12: past the expiry height, the change still counts, the coin stays spent
        t.trunc(t.r.abs(3), true);
        t.walk(8); // un-mined by the rewind: the expiry height decides again
    }

    // D: a chain of unmined transactions (coin -> change -> change), delivered newest first
    {
        id += 1;
        let mut t = T::new(out, id, false, json!("tD chain newest first"));
        t.empties(5);
        t.tip_top();
        let c1 = t.cw.new_utxo(&mut t.r.rng, 1, 100_000);
        let (e8, e9) = (t.r.abs(8), t.r.abs(9));
        let s1 = t.cw.new_tx(&mut t.r.rng, &[c1], 0, &[(1, 70_000), (0, 29_000)], e9);
        let c2 = t.cw.txs[&s1].outs[0].0;
        let s2 = t.cw.new_tx(&mut t.r.rng, &[c2], 0, &[(2, 40_000), (0, 29_000)], 0);
        let c3 = t.cw.txs[&s2].outs[0].0;
        let s3 = t.cw.new_tx(&mut t.r.rng, &[c3], 0, &[(1, 4_000), (2, 5_000), (0, 30_000)], e8);
        t.fulltx(s3, None);
        t.fulltx(s2, None);
        t.fulltx(s1, None);
        t.utxo(c1, Some(t.r.abs(3)));
        t.walk(6);
        t.fulltx(s2, Some(t.r.abs(7)));
    }

    // E: two conflicting spenders of one coin, both stored before the coin
    for &first_mined in &[false, true] {
        id += 1;
        let mut t = T::new(out, id, false, json!(format!("tE conflict first_mined={first_mined}")));
        t.empties(6);
        t.tip_top();
        let c1 = t.cw.new_utxo(&mut t.r.rng, 1, 100_000);
        let e9 = t.r.abs(9);
        let s1 = t.cw.new_tx(&mut t.r.rng, &[c1], 0, &[(1, 70_000)], e9);
        let s2 = t.cw.new_tx(&mut t.r.rng, &[c1], 0, &[(2, 60_000)], 0);
        t.fulltx(s1, None);
        t.fulltx(s2, if first_mined { Some(t.r.abs(5)) } else { None });
        t.utxo(c1, Some(t.r.abs(2)));
        t.walk(5);
        t.fulltx(s2, Some(t.r.abs(10)));
    }
}

/// NOT part of the registered run (see notes/c01-coins-report.md, "conflicting spenders"): the minimal deterministic
/// history of the suspected defect - two conflicting spenders of a coin are both stored before the coin arrives; the
/// wallet links only the one mined first; a reorg replaces it by the other one, whose mining the wallet learns from a
/// UTXO report of its change; once the orphaned spender has expired the coin counts again although the wallet has the
/// full data of a mined transaction spending it.  Validated with CHECK_KNOWN_SPENDERS=1 the trace is rejected there.
fn conflict_scenario(out: &mut NdjsonWriter) {
    let mut t = T::new(out, 5900, false, json!("tK conflicting spenders, reorg"));
    t.prelude(8); // blocks 1..8 scanned, tip 8
    let c1 = t.cw.new_utxo(&mut t.r.rng, 1, 100_000);
    let e12 = t.r.abs(12);
    let s1 = t.cw.new_tx(&mut t.r.rng, &[c1], 0, &[(1, 60_000), (0, 39_000)], 0);
    let s2 = t.cw.new_tx(&mut t.r.rng, &[c1], 0, &[(2, 70_000), (0, 29_000)], e12);
    let c2 = t.cw.txs[&s1].outs[0].0;
    t.fulltx(s1, None);
    t.fulltx(s2, Some(t.r.abs(7)));
    t.utxo(c1, Some(t.r.abs(5)));
    t.trunc(t.r.abs(6), true); // S2 orphaned
    t.walk(3); // tip 9 on the new chain
    t.utxo(c2, Some(t.r.abs(8))); // the new chain mined S1: its change is reported as a UTXO at height 8
    t.walk(5); // tip 14: past S2's expiry
}

// -------------------------------------------------------------------------------------------
// random histories

struct Walk {
    /// coins created but never delivered to the wallet yet
    undelivered: Vec<u32>,
    /// full transactions created but not stored yet
    unstored: Vec<u32>,
    last_from: u32,
}

fn coin_value(t: &mut T) -> u64 {
    match t.r.rng.gen_range(0..10) {
        0 => 5000,
        1 => 5001,
        2 => 4999 - t.r.rng.gen_range(0..6),
        3 => 1000 + t.r.rng.gen_range(0..3000),
        _ => 20_000 + 1_000 * t.r.rng.gen_range(0..300) + t.r.rng.gen_range(0..1000),
    }
}

/// a height to deliver something at: mostly around the wallet's tip (below, at, above)
fn some_height(t: &mut T) -> u32 {
    let base = t.r.chain.base;
    let tip = t.wtip().max(base + 1);
    match t.r.rng.gen_range(0..10) {
        0..=3 => tip,
        4..=5 => tip + t.r.rng.gen_range(1..4),
        6 => t.r.rng.gen_range(base + 1..=tip),
        _ => tip.saturating_sub(t.r.rng.gen_range(1..8)).max(base + 1),
    }
}

/// a delivery height the wallet's schema will accept for transaction `tx`: the one it has on record while it has one
fn height_for(t: &mut T, tx: u32, want: Option<u32>) -> Option<u32> {
    match t.cw.wallet_mined(&t.r.w, tx) {
        Some(Some(m)) => if want.is_some() { Some(m) } else { None },
        _ => {
            // mined at or below the expiry height
            let e = t.cw.txs[&tx].expiry;
            match want {
                Some(h) if e != 0 && h > e => if t.r.rng.gen_bool(0.5) { Some(e) } else { None },
                w => w,
            }
        }
    }
}

fn new_spender(t: &mut T, wk: &mut Walk) {
    let all: Vec<u32> = t.cw.coins.keys().copied().collect();
    if all.is_empty() {
        return;
    }
    // prefer coins nothing spends yet; sometimes a conflicting spend
    let spent: std::collections::BTreeSet<u32> = t.cw.txs.values().flat_map(|x| x.ins.iter().copied()).collect();
    let free: Vec<u32> = all.iter().copied().filter(|c| !spent.contains(c)).collect();
    let pool = if !free.is_empty() && t.r.rng.gen_bool(0.85) { free } else { all };
    let mut ins = vec![*pool.choose(&mut t.r.rng).unwrap()];
    if t.r.rng.gen_bool(0.25) {
        let c = *pool.choose(&mut t.r.rng).unwrap();
        if !ins.contains(&c) {
            ins.push(c);
        }
    }
    let foreign_ins = if t.r.rng.gen_bool(0.2) { 1 } else { 0 };
    let total: u64 = ins.iter().map(|c| t.cw.coins[c].value).sum();
    let mut outs = vec![];
    let mut left = total;
    match t.r.rng.gen_range(0..10) {
        0..=1 => {}                                             // pays nobody in the wallet
        2..=6 => {                                              // change to one account
            let v = (left / 2).max(1).min(coin_value(t).max(1)).min(left);
            outs.push((*[1u32, 1, 2, 2, 3].choose(&mut t.r.rng).unwrap(), v));
            left -= v;
        }
        _ => {                                                  // two wallet outputs
            for _ in 0..2 {
                let v = (left / 3).max(1).min(left);
                if v > 0 && left > 0 {
                    outs.push((*[1u32, 1, 2, 2, 3].choose(&mut t.r.rng).unwrap(), v));
                    left -= v;
                }
            }
        }
    }
    if left > 1000 && t.r.rng.gen_bool(0.7) {
        outs.push((0, left - 1000));
    }
    if outs.is_empty() {
        outs.push((0, total.saturating_sub(1000).max(1).min(total)));
    }
    let tip = t.wtip();
    let expiry = match t.r.rng.gen_range(0..10) { 0..=2 => 0, 3..=6 => tip + t.r.rng.gen_range(1..6), 7..=8 => tip + 40, _ => tip + t.r.rng.gen_range(6..45) };
    let uid = t.cw.new_tx(&mut t.r.rng, &ins, foreign_ins, &outs, expiry);
    for (c, _, _, _) in t.cw.txs[&uid].outs.clone() {
        wk.undelivered.push(c);
    }
    if t.r.rng.gen_bool(0.75) {
        let want = if t.r.rng.gen_bool(0.45) { Some(some_height(t)) } else { None };
        let h = height_for(t, uid, want);
        t.fulltx(uid, h);
    } else {
        wk.unstored.push(uid);
    }
}

fn coin_op(t: &mut T, wk: &mut Walk) {
    if t.r.w.tip().is_none() && t.r.rng.gen_bool(0.8) {
        return; // (sometimes the refusal without a tip is exercised)
    }
    match t.r.rng.gen_range(0..100) {
        // a new coin of a transaction the wallet only hears of through reports
        0..=21 => {
            let ad = *[1u32, 1, 1, 2, 2, 3].choose(&mut t.r.rng).unwrap();
            let v = coin_value(t);
            let c = t.cw.new_utxo_at(&mut t.r.rng, ad, v);
            if t.r.rng.gen_bool(0.75) {
                let h = if t.r.rng.gen_bool(0.1) { None } else { Some(some_height(t)) };
                t.utxo(c, h);
            } else {
                wk.undelivered.push(c); // reported later, perhaps after its spender
            }
        }
        // a new transaction spending coins (delivered or not) with or without wallet outputs
        22..=51 => new_spender(t, wk),
        // deliver something that was held back
        52..=66 => {
            if !wk.unstored.is_empty() && t.r.rng.gen_bool(0.5) {
                let i = t.r.rng.gen_range(0..wk.unstored.len());
                let uid = wk.unstored.remove(i);
                let want = if t.r.rng.gen_bool(0.5) { Some(some_height(t)) } else { None };
                let h = height_for(t, uid, want);
                t.fulltx(uid, h);
            } else if !wk.undelivered.is_empty() {
                let i = t.r.rng.gen_range(0..wk.undelivered.len());
                let c = wk.undelivered.remove(i);
                let tx = t.cw.coins[&c].tx;
                let want = if t.r.rng.gen_bool(0.1) { None } else { Some(some_height(t)) };
                let h = height_for(t, tx, want);
                t.utxo(c, h);
            }
        }
        // something the wallet has heard of already: again, or now mined, or re-mined after a rewind
        67..=84 => {
            // (transactions the wallet created itself are on the harness chain or nowhere: they are delivered truthfully, see shield_op)
            let stored: Vec<u32> = t.cw.txs.iter().filter(|(u, x)| **u < SHARED_BASE && x.tx.is_some() && !wk.unstored.contains(u)).map(|(u, _)| *u).collect();
            if !stored.is_empty() && t.r.rng.gen_bool(0.55) {
                let uid = *stored.choose(&mut t.r.rng).unwrap();
                let want = if t.r.rng.gen_bool(0.7) { Some(some_height(t)) } else { None };
                let h = height_for(t, uid, want);
                t.fulltx(uid, h);
            } else {
                let known: Vec<u32> = t.cw.coins.keys().copied().filter(|c| !wk.undelivered.contains(c)).collect();
                if let Some(c) = known.choose(&mut t.r.rng).copied() {
                    let tx = t.cw.coins[&c].tx;
                    let want = if t.r.rng.gen_bool(0.1) { None } else { Some(some_height(t)) };
                    let h = height_for(t, tx, want);
                    t.utxo(c, h);
                }
            }
        }
        // the server answers a status request: a transaction the wallet has on record (or not) was mined
        85..=89 => {
            let uids: Vec<u32> = t.cw.txs.keys().copied().filter(|u| *u < SHARED_BASE).collect();
            if let Some(uid) = uids.choose(&mut t.r.rng).copied() {
                let want = Some(some_height(t));
                if let Some(h) = height_for(t, uid, want) {
                    t.status(uid, h);
                }
            }
        }
        // the tip walks forward block by block (across expiry heights)
        _ => {
            let k = *[1u32, 2, 3, 6, 12].choose(&mut t.r.rng).unwrap();
            t.walk(k);
        }
    }
}

fn shielded_op(t: &mut T, wk: &mut Walk, long_gaps: bool, gentle: bool) {
    let base = t.r.chain.base;
    let top = t.r.chain.top();
    let x = t.r.rng.gen_range(0..100);
    if x < 30 || top == base {
        let ntx = match t.r.rng.gen_range(0..10) { 0..=2 => 0, 3..=8 => 1, _ => 2 };
        let mut taken = vec![];
        let txs: Vec<TxReq> = (0..ntx).map(|_| t.r.random_tx(&mut taken)).collect();
        let remined = if !t.r.orphaned.is_empty() && t.r.rng.gen_bool(0.3) { vec![t.r.orphaned.remove(0)] } else { vec![] };
        t.r.block(&txs, &remined, true);
        t.chk();
    } else if x < 38 {
        let k = if long_gaps { *[3u32, 39, 40, 41, 99, 101].choose(&mut t.r.rng).unwrap() } else { t.r.rng.gen_range(1..6) };
        t.empties(k);
    } else if x < 52 {
        let h = if t.r.rng.gen_bool(0.7) { top } else { t.r.rng.gen_range(base + 1..=top) };
        t.tip(h);
    } else if x < 84 {
        let from = if t.r.rng.gen_bool(0.5) {
            let scanned = t.r.scanned();
            (base + 1..=top).find(|h| !scanned.contains(&t.r.w.rel(*h))).unwrap_or(t.r.rng.gen_range(base + 1..=top))
        } else {
            t.r.rng.gen_range(base + 1..=top)
        };
        let limit = match t.r.rng.gen_range(0..10) { 0..=3 => 1, 4..=6 => t.r.rng.gen_range(2..5), 7..=8 => t.r.rng.gen_range(5..30), _ => 250 };
        let last = (from + limit as u32 - 1).min(top);
        if t.r.w.tip().map(|tp| tp < last).unwrap_or(true) {
            t.tip(top);
        }
        if t.scan(from, limit) {
            wk.last_from = wk.last_from.max(from);
        }
    } else {
        let req = if gentle {
            let lo = wk.last_from.saturating_sub(1).max(base + 1).min(top);
            t.r.rng.gen_range(lo..=top)
        } else if t.r.rng.gen_bool(0.6) {
            top.saturating_sub(t.r.rng.gen_range(0..6)).max(base + 1)
        } else {
            t.r.rng.gen_range(base + 1..=top)
        };
        let fork = t.r.rng.gen_bool(0.7);
        if let Some(to) = t.trunc(req, fork) {
            wk.last_from = wk.last_from.min(to + 1);
        }
    }
}

fn random_history(t: &mut T, ops: usize) {
    let long_gaps = t.r.rng.gen_bool(0.25);
    let gentle = t.r.rng.gen_bool(0.6);
    let mut wk = Walk { undelivered: vec![], unstored: vec![], last_from: t.r.chain.base + 1 };
    for op_i in 0..ops {
        if t.r.aborted {
            return;
        }
        if op_i > 0 && op_i % 45 == 0 {
            t.r.catch_up_and_fresh();
            t.chk();
            continue;
        }
        if t.r.rng.gen_bool(0.5) {
            coin_op(t, &mut wk);
        } else {
            shielded_op(t, &mut wk, long_gaps, gentle);
        }
    }
    if !t.r.aborted {
        t.r.catch_up_and_fresh();
        t.chk();
    }
}


// -------------------------------------------------------------------------------------------
// C08: coins as proposal inputs

const NO_PROPOSAL: &str = r#"{"target": -1, "inputs": [], "notes": 0, "pay": 0, "change": [], "fee": 0, "anchor": -1}"#;

impl<'a> T<'a> {
    fn describe(&self, p: &ShProp) -> Value {
        let s = p.steps().first();
        let inputs: Vec<Value> = s
            .transparent_inputs()
            .iter()
            .map(|u| {
                let a: [u8; 32] = *u.outpoint().hash();
                let c = self.cw.by_outpoint.get(&(a, u.outpoint().n())).map(|c| *c as i64).unwrap_or(-1);
                json!([c, u64::from(u.value())])
            })
            .collect();
        let pay: u64 = s.transaction_request().payments().values().map(|p| p.amount().map(u64::from).unwrap_or(0)).sum();
        json!({
            "target": self.r.w.rel(u32::from(BlockHeight::from(p.min_target_height()))),
            "inputs": inputs,
            "notes": s.shielded_inputs().map(|si| si.notes().len()).unwrap_or(0) + s.prior_step_inputs().len() + (p.steps().len() - 1),
            "pay": pay,
            "change": s.balance().proposed_change().iter().map(|c| u64::from(c.value())).collect::<Vec<_>>(),
            "fee": u64::from(s.balance().fee_required()),
            "anchor": s.anchor_height().map(|h| self.r.w.rel(u32::from(h))).unwrap_or(-1),
        })
    }

    /// propose_shielding from the addresses `ads` to account `to`
    #[allow(clippy::too_many_arguments)]
    fn pshield(&mut self, ads: &[u32], to: u32, policy: (u32, u32, bool), threshold: u64, lock: Option<(usize, u32)>, lpol: u32, keep: bool) -> bool {
        let (trusted, untrusted, zc) = policy;
        let sel_policy = match lpol {
            1 => LockedInputPolicy::PreferUnlocked(NonEmptyBTreeSet::singleton(owner(0))),
            2 => LockedInputPolicy::PreferLocked(NonEmptyBTreeSet::singleton(owner(0))),
            _ => LockedInputPolicy::Exclude,
        };
        let admitted: Vec<i64> = if lpol >= 1 { vec![0] } else { vec![] };
        let from: Vec<_> = ads.iter().map(|a| self.cw.addrs[(*a - 1) as usize]).collect();
        let acct = self.r.w.acct_ids[(to - 1) as usize];
        let net = self.r.w.net;
        let filter = if self.r.rng.gen_bool(0.5) { CoinbaseFilter::AllTransparentOutputs } else { CoinbaseFilter::NonCoinbaseOnly };
        let st = &mut self.r.w.st;
        let res: Result<Result<ShProp, String>, String> = guarded(move || {
            let selector = GreedyInputSelector::new().with_locked_input_policy(sel_policy);
            let change = single_output_change_strategy(StandardFeeRule::Zip317, None, ShieldedPool::Sapling);
            propose_shielding::<_, _, _, _, Infallible>(
                st.wallet_mut(),
                &net,
                &selector,
                &change,
                Zatoshis::from_u64(threshold).unwrap(),
                &from,
                acct,
                ConfirmationsPolicy::new_unchecked(trusted, untrusted, zc),
                filter,
                lock.map(|(o, k)| LockRequest::new(owner(o), k)),
            )
            .map_err(|e| format!("{e:?}"))
        });
        let (c, e) = class(&res);
        let cl = if c == "err" {
            if e.contains("InsufficientFunds") { "insufficient" } else if e.contains("InputsLocked") || e.contains("LockFailure") { "inputs-locked" } else if e.contains("ScanRequired") || e.contains("SyncRequired") { "scan-required" } else { "other" }
        } else {
            c
        };
        let prop = match &res { Ok(Ok(p)) => self.describe(p), _ => serde_json::from_str(NO_PROPOSAL).unwrap() };
        let post = self.r.post();
        let coins = self.cw.project(&self.r.w);
        self.r.out.emit(&json!({
            "a": "pshield", "res": cl, "err": e, "addrs": ads, "to": to, "trusted": trusted, "untrusted": untrusted, "zc": zc,
            "threshold": threshold, "lock": lock.map(|(o, k)| json!([o as i64, k])).unwrap_or(json!([-1, 0])), "admitted": admitted,
            "prefer_locked": lpol == 2, "p": prop, "post": post, "coins": coins,
        }));
        self.r.aborted |= c == "panic";
        if let Ok(Ok(p)) = res {
            self.last_sum = prop_sum(&p);
            if keep {
                self.kept.push(Kept { p, locker: lock.map(|(o, _)| o), to });
                if self.kept.len() > 4 {
                    self.kept.remove(0);
                }
            }
            true
        } else {
            false
        }
    }

    /// propose_transfer of `amount` to a foreign shielded address, funded from the transparent coins of account `acct`
    /// only: any of its addresses (`ads` = None) or the listed ones
    fn ptrans(&mut self, acct: u32, ads: Option<&[u32]>, policy: (u32, u32, bool), amount: u64, lock: Option<(usize, u32)>, lpol: u32) -> bool {
        let (trusted, untrusted, zc) = policy;
        let sel_policy = match lpol {
            1 => LockedInputPolicy::PreferUnlocked(NonEmptyBTreeSet::singleton(owner(0))),
            2 => LockedInputPolicy::PreferLocked(NonEmptyBTreeSet::singleton(owner(0))),
            _ => LockedInputPolicy::Exclude,
        };
        let admitted: Vec<i64> = if lpol >= 1 { vec![0] } else { vec![] };
        let tsp = match ads {
            None => TransparentSpendPolicy::any_account_addr(),
            Some(l) => TransparentSpendPolicy::from_addresses(nonempty::NonEmpty::from_vec(l.iter().map(|a| self.cw.addrs[(*a - 1) as usize]).collect()).expect("non-empty list")),
        };
        let id = self.r.w.acct_ids[(acct - 1) as usize];
        let net = self.r.w.net;
        let to = zcash_keys::address::Address::Sapling(self.r.chain.foreign.sapling.default_address().1);
        let req = zip321::TransactionRequest::new(vec![zip321::Payment::without_memo(to.to_zcash_address(&net), Zatoshis::from_u64(amount).unwrap())]).unwrap();
        let st = &mut self.r.w.st;
        let res = guarded(move || {
            let selector = GreedyInputSelector::new();
            let change = single_output_change_strategy(StandardFeeRule::Zip317, None, ShieldedPool::Sapling);
            propose_transfer::<_, _, _, _, Infallible>(
                st.wallet_mut(),
                &net,
                id,
                &selector,
                &change,
                req,
                ConfirmationsPolicy::new_unchecked(trusted, untrusted, zc),
                &SpendPolicy::shielded_pools(std::iter::empty::<ShieldedPool>()).with_transparent(tsp).with_locked_input_policy(sel_policy),
                lock.map(|(o, k)| LockRequest::new(owner(o), k)),
                None,
            )
            .map_err(|e| format!("{e:?}"))
        });
        let (c, e) = class(&res);
        let cl = if c == "err" {
            if e.contains("InsufficientFunds") { "insufficient" } else if e.contains("InputsLocked") || e.contains("LockFailure") { "inputs-locked" } else if e.contains("ScanRequired") || e.contains("SyncRequired") { "scan-required" } else { "other" }
        } else {
            c
        };
        let prop: Value = match &res {
            Ok(Ok(p)) => {
                let s = p.steps().first();
                let inputs: Vec<Value> = s
                    .transparent_inputs()
                    .iter()
                    .map(|u| {
                        let a: [u8; 32] = *u.outpoint().hash();
                        json!([self.cw.by_outpoint.get(&(a, u.outpoint().n())).map(|c| *c as i64).unwrap_or(-1), u64::from(u.value())])
                    })
                    .collect();
                let pay: u64 = s.transaction_request().payments().values().map(|p| p.amount().map(u64::from).unwrap_or(0)).sum();
                json!({
                    "target": self.r.w.rel(u32::from(BlockHeight::from(p.min_target_height()))),
                    "inputs": inputs,
                    "notes": s.shielded_inputs().map(|si| si.notes().len()).unwrap_or(0) + s.prior_step_inputs().len() + (p.steps().len() - 1),
                    "pay": pay,
                    "change": s.balance().proposed_change().iter().map(|c| u64::from(c.value())).collect::<Vec<_>>(),
                    "fee": u64::from(s.balance().fee_required()),
                    "anchor": s.anchor_height().map(|h| self.r.w.rel(u32::from(h))).unwrap_or(-1),
                })
            }
            _ => serde_json::from_str(NO_PROPOSAL).unwrap(),
        };
        let post = self.r.post();
        let coins = self.cw.project(&self.r.w);
        self.r.out.emit(&json!({
            "a": "ptrans", "res": cl, "err": e, "acct": acct, "listed": ads.is_some(), "addrs": ads.unwrap_or(&[]), "trusted": trusted, "untrusted": untrusted,
            "zc": zc, "amount": amount, "lock": lock.map(|(o, k)| json!([o as i64, k])).unwrap_or(json!([-1, 0])), "admitted": admitted,
            "p": prop, "post": post, "coins": coins,
        }));
        self.r.aborted |= c == "panic";
        cl == "ok"
    }

    /// create_proposed_transactions on kept proposal `i` (possibly stale by now), signed with the key of account 1;
    /// expiry: None = the builder's default, Some(0) = never, Some(h) absolute
    fn cshield(&mut self, i: usize, expiry: Option<u32>) -> Option<u32> {
        let k = self.kept.remove(i);
        let desc = self.describe(&k.p);
        let target_abs = u32::from(BlockHeight::from(k.p.min_target_height()));
        let anchor_abs = k.p.steps().first().anchor_height().map(u32::from).unwrap_or(self.r.chain.base);
        let expreq: i64 = match expiry { None => -1, Some(0) => -100, Some(h) => self.r.w.rel(h) };
        let usk = self.r.w.st.test_account().unwrap().usk().clone();
        let net = self.r.w.net;
        let p = k.p;
        let st = &mut self.r.w.st;
        let res: Result<Result<Vec<TxId>, String>, String> = guarded(|| {
            create_proposed_transactions::<_, _, Infallible, _, Infallible, _>(
                st.wallet_mut(),
                &net,
                &sapling::prover::mock::MockSpendProver,
                &sapling::prover::mock::MockOutputProver,
                &SpendingKeys::from_unified_spending_key(usk),
                OvkPolicy::Sender,
                &p,
                expiry.map(BlockHeight::from),
            )
            .map(|ids| ids.into_iter().collect())
            .map_err(|e| format!("{e:?}"))
        });
        let (c, e) = class(&res);
        let coin_ids: Vec<u32> = desc["inputs"].as_array().unwrap().iter().map(|i| i[0].as_i64().unwrap().max(0) as u32).collect();
        let mut txs = vec![];
        let mut ct = None;
        if let Ok(Ok(ids)) = &res {
            for id in ids {
                let tx = self.r.w.st.wallet().get_transaction(*id).unwrap().expect("harness: created transaction not retrievable");
                let cr = self.r.chain.register_created(&tx, &[], anchor_abs);
                ct = Some(self.cw.register_shared(&tx, cr.abs.uid, &coin_ids));
                txs.push(json!({
                    "t": cr.abs.uid,
                    "exp": if cr.expiry == 0 { -100 } else { self.r.w.rel(cr.expiry) },
                    "outs": cr.abs.outs.iter().map(|o| json!({"n": o.note, "pool": o.pool.code(), "v": o.value, "acct": o.acct, "int": o.internal})).collect::<Vec<_>>(),
                    "spends": cr.abs.spends,
                    "tin": tx.transparent_bundle().map(|b| b.vin.len()).unwrap_or(0),
                    "tout": tx.transparent_bundle().map(|b| b.vout.len()).unwrap_or(0),
                }));
                self.r.created.push(cr);
            }
        }
        let post = self.r.post();
        let coins = self.cw.project(&self.r.w);
        self.r.out.emit(&json!({
            "a": "cshield", "res": c, "err": e, "to": 1, "proposal_to": k.to, "target": desc["target"], "expreq": expreq, "fee": desc["fee"],
            "inputs": desc["inputs"], "txs": txs, "post": post, "coins": coins,
        }));
        self.r.aborted |= c == "panic";
        let _ = target_abs;
        ct
    }

    fn clock(&mut self, cs: &[u32], o: usize, exp: u32) {
        let refs: Vec<_> = cs.iter().map(|c| self.cw.out_ref(*c)).collect();
        let st = &mut self.r.w.st;
        let res = guarded(move || st.wallet_mut().lock_outputs(&refs, owner(o), BlockHeight::from(exp)).map_err(|e| format!("{e:?}")));
        let (c, e) = class(&res);
        let cl = if c == "err" && e.contains("LockFailure") { "lock-failure" } else { c };
        let post = self.r.post();
        let coins = self.cw.project(&self.r.w);
        self.r.out.emit(&json!({"a": "clock", "res": cl, "err": e, "owner": o as i64, "exp": self.r.w.rel(exp), "cs": cs, "post": post, "coins": coins}));
        self.r.aborted |= c == "panic";
    }

    /// unlock_proposal_inputs of kept proposal `i` under owner `by`
    fn cunlock(&mut self, i: usize, by: usize) {
        let k = self.kept.remove(i);
        let cs: Vec<i64> = self.describe(&k.p)["inputs"].as_array().unwrap().iter().map(|i| i[0].as_i64().unwrap()).collect();
        let p = k.p;
        let st = &mut self.r.w.st;
        let res = guarded(move || unlock_proposal_inputs(st.wallet_mut(), &p, owner(by)).map_err(|e| format!("{e:?}")));
        let (c, e) = class(&res);
        let post = self.r.post();
        let coins = self.cw.project(&self.r.w);
        self.r.out.emit(&json!({"a": "cunlock", "res": c, "err": e, "owner": by as i64, "cs": cs, "post": post, "coins": coins}));
        self.r.aborted |= c == "panic";
    }

    fn cclear(&mut self, acct: u32) {
        let id = self.r.w.acct_ids[(acct - 1) as usize];
        let st = &mut self.r.w.st;
        let res = guarded(move || st.wallet_mut().clear_locked_outputs(id).map_err(|e| format!("{e:?}")));
        let (c, e) = class(&res);
        let n = match &res { Ok(Ok(n)) => *n as i64, _ => -1 };
        let post = self.r.post();
        let coins = self.cw.project(&self.r.w);
        self.r.out.emit(&json!({"a": "cclear", "res": c, "err": e, "acct": acct, "count": n, "post": post, "coins": coins}));
        self.r.aborted |= c == "panic";
    }

    /// the height at which the current harness chain has the shared transaction `ct`
    fn on_chain(&self, ct: u32) -> Option<u32> {
        let uid = ct - SHARED_BASE;
        self.r.chain.blocks.iter().find(|(_, b)| b.txs.iter().any(|t| t.uid == uid)).map(|(h, _)| *h)
    }

    /// the next block mines a shielding transaction the wallet created (if one can be mined); returns its coin-world id
    fn mine_created(&mut self) -> Option<u32> {
        let c = self.r.pick_created()?;
        self.r.block(&[], &[(c.abs.clone(), c.ctx.clone())], true);
        self.chk();
        Some(SHARED_BASE + c.abs.uid)
    }

    /// tip to the top and everything scanned (proposals need an anchor)
    fn catch_up(&mut self) {
        let top = self.r.chain.top();
        if top == self.r.chain.base {
            return;
        }
        self.tip(top);
        loop {
            let scanned = self.r.scanned();
            let Some(from) = (self.r.chain.base + 1..=top).find(|h| !scanned.contains(&self.r.w.rel(*h))) else { break };
            if !self.scan(from, 300) {
                break;
            }
        }
    }
}

fn prop_sum(p: &ShProp) -> u64 {
    p.steps().first().transparent_inputs().iter().map(|u| u64::from(u.value())).sum()
}

const ZC: (u32, u32, bool) = (1, 1, true);

fn shield_scenarios(out: &mut NdjsonWriter) {
    let mut id = 6000u64;

    // P: confirmations.  Coins mined 0..3 blocks below the target; every policy; the threshold exactly at / one above the sum
    {
        id += 1;
        let mut t = T::new(out, id, false, json!("sP confirmations and threshold"));
        t.prelude(8); // tip 8, target 9
        for (dh, v) in [(8u32, 61_000u64), (7, 52_000), (6, 43_000), (5, 34_000), (9, 25_000)] {
            let c = t.cw.new_utxo(&mut t.r.rng, 1, v);
            t.utxo(c, Some(t.r.abs(dh)));
        }
        let cu = t.cw.new_utxo(&mut t.r.rng, 1, 16_000);
        t.utxo(cu, None); // unmined, expiry unknown: never eligible
        for pol in [ZC, (1, 1, false), (1, 2, false), (1, 3, false), (2, 4, false), (3, 10, false), (1, 3, true)] {
            t.pshield(&[1], 1, pol, 0, None, 0, false);
        }
        // thresholds around the sum of what zero-conf shielding selects
        let s = t.last_sum;
        for th in [s - 1, s, s + 1, s - 20_000] {
            t.pshield(&[1], 1, ZC, th, None, 0, false);
        }
        t.walk(2); // two more confirmations
        for pol in [(1, 3, false), (2, 4, false), (1, 2, false)] {
            t.pshield(&[1], 1, pol, 0, None, 0, false);
        }
    }

    // Q: addresses and accounts.  Coins at the three addresses; every non-empty subset of them; to either account;
    // dust just below / at / above the marginal fee is never selected / selected
    {
        id += 1;
        let mut t = T::new(out, id, false, json!("sQ addresses, accounts, dust"));
        t.prelude(5);
        for (ad, v) in [(1u32, 70_000u64), (2, 60_000), (3, 50_000), (1, 5_000), (3, 5_001), (2, 4_999), (1, 12_000)] {
            let c = t.cw.new_utxo_at(&mut t.r.rng, ad, v);
            t.utxo(c, Some(t.r.abs(4)));
        }
        for ads in [vec![1u32], vec![2], vec![3], vec![1, 3], vec![1, 2], vec![2, 3], vec![1, 2, 3]] {
            t.pshield(&ads, 1, ZC, 0, None, 0, true);
        }
        t.pshield(&[2], 2, ZC, 0, None, 0, false);
        // the key of account 1 signs: a proposal that draws on account 2's address cannot be created, the others can
        // kept: [1,3] [1,2] [2,3] [1,2,3]
        t.cshield(3, None); // [1,2,3]: refused
        t.cshield(1, None); // [1,2]: refused
        t.cshield(0, None); // [1,3]: created
        t.pshield(&[1, 2, 3], 1, ZC, 0, None, 0, false); // account 2's coins are what is left
    }

    // T: transfers funded from coins only: the account filter and the address list
    {
        id += 1;
        let mut t = T::new(out, id, false, json!("sT transparent-funded transfers: account and address filters"));
        t.prelude(5);
        for (ad, v) in [(1u32, 40_000u64), (2, 90_000), (3, 70_000), (1, 30_000), (2, 20_000), (3, 5_000)] {
            let c = t.cw.new_utxo_at(&mut t.r.rng, ad, v);
            t.utxo(c, Some(t.r.abs(4)));
        }
        for amount in [10_000u64, 60_000, 95_000, 125_000, 200_000] {
            t.ptrans(1, None, ZC, amount, None, 0); // account 1: addresses 1 and 3, never account 2's larger coins
            t.ptrans(2, None, ZC, amount, None, 0);
            t.ptrans(1, Some(&[1]), ZC, amount, None, 0);
            t.ptrans(1, Some(&[3]), (1, 1, false), amount, None, 0);
        }
        t.ptrans(1, Some(&[2]), ZC, 10_000, None, 0); // account 2's address listed for account 1: nothing
        t.ptrans(2, Some(&[1, 2, 3]), ZC, 100_000, None, 0); // ... and the other way round: only address 2 counts
        t.ptrans(1, None, (1, 3, false), 10_000, None, 0); // not enough confirmations yet
        t.ptrans(1, None, ZC, 50_000, Some((0, 3)), 0); // locks what it selects
        t.ptrans(1, None, ZC, 50_000, Some((1, 3)), 0); // the next owner gets other coins
        t.ptrans(1, None, ZC, 50_000, None, 0);
        t.ptrans(1, None, ZC, 50_000, None, 1);
    }

    // R: the whole flow.  Propose, create, the coins leave the ledger and stay ineligible; the transaction expires -> they
    // are back; propose and create again, the block mining it is scanned / reported as a full transaction / by status
    for variant in 0..3u32 {
        id += 1;
        let mut t = T::new(out, id, false, json!(format!("sR flow v{variant}")));
        t.prelude(6);
        let c1 = t.cw.new_utxo_at(&mut t.r.rng, 1, 90_000);
        let c2 = t.cw.new_utxo_at(&mut t.r.rng, 3, 40_000);
        t.utxo(c1, Some(t.r.abs(5)));
        t.utxo(c2, Some(t.r.abs(6)));
        t.pshield(&[1, 3], 1, ZC, 0, None, 0, true);
        t.pshield(&[1, 3], 1, ZC, 0, None, 0, true); // a second, identical proposal: stale once the first is created
        let tip = t.wtip();
        t.cshield(0, Some(tip + 3)); // expires 2 blocks after its target
        t.pshield(&[1, 3], 1, ZC, 0, None, 0, false); // nothing left to shield
        t.cshield(0, None); // the stale twin: whatever the wallet answers, the ledger law holds
        t.walk(4); // past the first one's expiry
        t.pshield(&[1, 3], 1, ZC, 0, None, 0, false);
        t.walk(40); // past the default expiry of the twin (if it was created)
        t.pshield(&[1, 3], 1, (1, 1, false), 0, None, 0, true);
        if !t.kept.is_empty() {
            let ct = t.cshield(0, if variant == 2 { Some(0) } else { None });
            if let Some(ct) = ct {
                t.r.empties(1);
                t.chk();
                if let Some(mined) = t.mine_created() {
                    assert_eq!(mined, ct);
                    let h = t.on_chain(ct).unwrap();
                    match variant {
                        0 => { t.tip_top(); t.scan(h, 1); }
                        1 => { t.tip_top(); t.fulltx(ct, Some(h)); t.scan(h, 1); }
                        _ => { t.tip_top(); t.status(ct, h); }
                    }
                }
                t.pshield(&[1, 3], 1, ZC, 0, None, 0, false);
                t.catch_up();
                // a rewind below the block that mined it: pending again
                let top = t.r.chain.top();
                t.trunc(top - 2, true);
                t.pshield(&[1, 3], 1, ZC, 0, None, 0, false);
                t.walk(3);
                t.fulltx(ct, None);
            }
        }
        t.r.catch_up_and_fresh();
        t.chk();
    }

    // S: locks.  A proposal locks its coins; a second owner is refused them, the selector admitting owner 0 draws through;
    // locks expire with the target height; direct locks; unlock under the wrong / the right owner; clear per account
    {
        id += 1;
        let mut t = T::new(out, id, false, json!("sS locks"));
        t.prelude(6);
        let mut cs = vec![];
        for (ad, v) in [(1u32, 80_000u64), (1, 30_000), (3, 45_000), (2, 55_000)] {
            let c = t.cw.new_utxo_at(&mut t.r.rng, ad, v);
            t.utxo(c, Some(t.r.abs(5)));
            cs.push(c);
        }
        t.pshield(&[1], 1, ZC, 0, Some((0, 2)), 0, true); // owner 0 locks the coins of address 1 until target + 2
        t.pshield(&[1, 3], 1, ZC, 0, Some((1, 1)), 0, true); // owner 1 gets only address 3's coin
        t.pshield(&[1, 3], 1, ZC, 0, None, 0, false); // nothing unlocked left
        t.pshield(&[1, 3], 1, ZC, 0, None, 1, false); // admits owner 0: draws through its locks only
        t.pshield(&[1, 3], 1, ZC, 0, Some((1, 5)), 2, false); // ... and cannot lock them for owner 1
        t.pshield(&[1, 3], 1, ZC, 0, Some((0, 5)), 2, false); // owner 0 itself can
        t.walk(1);
        t.pshield(&[1, 3], 1, ZC, 0, None, 0, false);
        t.walk(2); // owner 1's lock (target + 1) has expired
        t.pshield(&[1, 3], 1, ZC, 0, None, 0, false);
        t.cunlock(0, 1); // owner 1 cannot release owner 0's locks
        let tip = t.wtip();
        t.clock(&[cs[3]], 1, tip + 4);
        t.clock(&[cs[3], cs[2]], 0, tip + 4); // all or nothing
        t.cclear(1);
        t.pshield(&[1, 2, 3], 1, ZC, 0, None, 0, false);
        t.cclear(2);
        t.pshield(&[1, 2, 3], 1, ZC, 0, Some((0, 30)), 0, true);
        // creating releases (or keeps) the locks; the coins stay out either way
        t.kept.retain(|k| k.to == 1);
        t.pshield(&[1, 3], 1, ZC, 0, None, 1, true);
        let n = t.kept.len();
        t.cshield(n - 1, None);
        t.pshield(&[1, 3], 1, ZC, 0, None, 1, false);
    }

    // U: unmined coins under zero-conf shielding: change of an unmined stored transaction is eligible while that transaction
    // has not expired, and only under a policy that needs no confirmations; a coin spent by a pending fabricated transaction
    // is not
    {
        id += 1;
        let mut t = T::new(out, id, false, json!("sU unmined coins"));
        t.prelude(6);
        let c1 = t.cw.new_utxo_at(&mut t.r.rng, 1, 100_000);
        t.utxo(c1, Some(t.r.abs(4)));
        let e9 = t.r.abs(9);
        let s1 = t.cw.new_tx(&mut t.r.rng, &[c1], 0, &[(3, 60_000), (0, 39_000)], e9);
        t.fulltx(s1, None);
        for pol in [ZC, (1, 1, false)] {
            t.pshield(&[1, 3], 1, pol, 0, None, 0, false);
        }
        t.walk(2); // tip 8: target 9 = expiry: still unexpired
        t.pshield(&[1, 3], 1, ZC, 0, None, 0, false);
        t.walk(1); // expired: the change is gone, the coin is back
        for pol in [ZC, (1, 1, false)] {
            t.pshield(&[1, 3], 1, pol, 0, None, 0, false);
        }
    }
}

fn shield_op(t: &mut T) {
    match t.r.rng.gen_range(0..100) {
        0..=54 => {
            if t.r.rng.gen_bool(0.6) {
                t.catch_up();
            }
            let ads: Vec<u32> = match t.r.rng.gen_range(0..10) { 0..=2 => vec![1], 3 => vec![3], 4..=6 => vec![1, 3], 7 => vec![2], 8 => vec![1, 2, 3], _ => vec![2, 3] };
            let to = if ads == vec![2] || t.r.rng.gen_bool(0.1) { 2 } else { 1 };
            let pol = *[ZC, ZC, (1, 1, false), (1, 2, false), (1, 3, false), (3, 10, false), (3, 10, true), (2, 5, false)].choose(&mut t.r.rng).unwrap();
            let s = t.last_sum;
            let threshold = match t.r.rng.gen_range(0..10) { 0..=3 => 0, 4 => s, 5 => s + 1, 6 => s.saturating_sub(1), 7 => s / 2, 8 => 30_000, _ => 400_000 };
            let lock = if t.r.rng.gen_bool(0.4) { Some((t.r.rng.gen_range(0..2usize), *[0u32, 1, 3, 20].choose(&mut t.r.rng).unwrap())) } else { None };
            let lpol = match t.r.rng.gen_range(0..10) { 0..=5 => 0, 6..=7 => 1, _ => 2 };
            let keep = t.r.rng.gen_bool(0.65);
            if t.r.rng.gen_bool(0.25) {
                // a transfer funded from coins instead: account, optional address list, amount
                let acct = if t.r.rng.gen_bool(0.3) { 2 } else { 1 };
                let amount = *[8_000u64, 25_000, 60_000, 150_000, 400_000].choose(&mut t.r.rng).unwrap();
                let listed = t.r.rng.gen_bool(0.5);
                t.ptrans(acct, if listed { Some(&ads) } else { None }, pol, amount, lock, lpol);
            } else {
                t.pshield(&ads, to, pol, threshold, lock, lpol, keep);
            }
        }
        55..=66 => {
            if t.kept.is_empty() {
                return;
            }
            // mostly proposals that can be created (account 1's own coins)
            let i = t.kept.iter().position(|k| k.to == 1).filter(|_| t.r.rng.gen_bool(0.8)).unwrap_or(t.r.rng.gen_range(0..t.kept.len()));
            let target = u32::from(BlockHeight::from(t.kept[i].p.min_target_height()));
            let expiry = match t.r.rng.gen_range(0..10) { 0..=3 => None, 4..=5 => Some(target), 6..=7 => Some(target + 2), 8 => Some(target + 12), _ => Some(0) };
            t.cshield(i, expiry);
        }
        67..=78 => {
            // the environment mines a shielding transaction; the wallet learns of it one way or another (or, for now, not)
            if let Some(ct) = t.mine_created() {
                let h = t.on_chain(ct).unwrap();
                match t.r.rng.gen_range(0..5) {
                    0 => { t.tip_top(); t.fulltx(ct, Some(h)); }
                    1 => { t.tip_top(); t.status(ct, h); }
                    2 | 3 => { t.tip_top(); t.scan(h, 1); }
                    _ => {}
                }
            }
        }
        79..=84 => {
            // a pending (or mined) shielding transaction is delivered again in full
            let shared: Vec<u32> = t.cw.txs.keys().copied().filter(|u| *u >= SHARED_BASE).collect();
            if let Some(ct) = shared.choose(&mut t.r.rng).copied() {
                let h = t.on_chain(ct).filter(|h| t.r.w.tip().map(|tp| *h <= tp + 3).unwrap_or(false));
                let h = if t.r.rng.gen_bool(0.5) { h } else { None };
                // (a height the wallet has on record is the chain's: no re-mining elsewhere)
                let h = match t.cw.wallet_mined(&t.r.w, ct) { Some(Some(m)) => h.filter(|x| *x == m), _ => h };
                t.fulltx(ct, h);
            }
        }
        85..=90 => {
            let known: Vec<u32> = t.cw.coins.keys().copied().filter(|c| t.cw.wallet_knows_coin(&t.r.w, *c)).collect();
            if known.is_empty() {
                return;
            }
            let k = t.r.rng.gen_range(1..=known.len().min(3));
            let picks: Vec<u32> = known.choose_multiple(&mut t.r.rng, k).copied().collect();
            let o = t.r.rng.gen_range(0..2usize);
            let exp = t.wtip() + *[0u32, 1, 2, 5, 30].choose(&mut t.r.rng).unwrap();
            t.clock(&picks, o, exp);
        }
        91..=95 => {
            if t.kept.is_empty() {
                return;
            }
            let i = t.r.rng.gen_range(0..t.kept.len());
            let o = t.kept[i].locker.unwrap_or(0);
            let by = if t.r.rng.gen_bool(0.7) { o } else { 1 - o };
            t.cunlock(i, by);
        }
        _ => {
            let a = t.r.rng.gen_range(1..=2u32);
            t.cclear(a);
        }
    }
}

fn shield_history(t: &mut T, ops: usize) {
    let mut wk = Walk { undelivered: vec![], unstored: vec![], last_from: t.r.chain.base + 1 };
    t.prelude(3);
    for op_i in 0..ops {
        if t.r.aborted {
            return;
        }
        if op_i > 0 && op_i % 60 == 0 {
            t.r.catch_up_and_fresh();
            t.chk();
            continue;
        }
        match t.r.rng.gen_range(0..100) {
            // funds: one to three economic coins at or a little below the tip (so that proposals have something to judge)
            0..=13 => {
                if t.r.w.tip().is_none() {
                    t.tip_top();
                }
                for _ in 0..t.r.rng.gen_range(1..=3) {
                    let ad = *[1u32, 1, 1, 3, 3, 2].choose(&mut t.r.rng).unwrap();
                    let v = match t.r.rng.gen_range(0..8) { 0 => 5_000, 1 => 5_001, 2 => 9_000, _ => 20_000 + 1_000 * t.r.rng.gen_range(0..200) };
                    let c = t.cw.new_utxo_at(&mut t.r.rng, ad, v);
                    let tip = t.wtip();
                    let h = tip.saturating_sub(*[0u32, 0, 1, 2, 3, 9, 10].choose(&mut t.r.rng).unwrap()).max(t.r.chain.base + 1);
                    t.utxo(c, Some(h));
                }
            }
            14..=33 => coin_op(t, &mut wk),
            34..=49 => shielded_op(t, &mut wk, false, true),
            _ => shield_op(t),
        }
    }
    if !t.r.aborted {
        t.r.catch_up_and_fresh();
        t.chk();
    }
}


// -------------------------------------------------------------------------------------------
// C08: multi-step proposals (ZIP 320: payments to TEX addresses)

type TxProp = Proposal<StandardFeeRule, zcash_client_sqlite::ReceivedNoteId>;

/// the recipient of a requested payment
#[derive(Clone, Copy, PartialEq, Eq, Debug)]
enum Rcpt {
    /// a ZIP 320 TEX address of a foreign key (tag 1, 2)
    Tex(u8),
    /// a plain foreign P2PKH address
    T,
    /// the foreign party's Sapling address
    Zs,
    /// a unified address with the foreign party's Orchard receiver only
    Ua,
}
const RCPTS: [Rcpt; 5] = [Rcpt::Tex(1), Rcpt::Tex(2), Rcpt::T, Rcpt::Zs, Rcpt::Ua];

impl Rcpt {
    fn code(self) -> (&'static str, u8) {
        match self {
            Rcpt::Tex(i) => ("tex", i),
            Rcpt::T => ("t", 0),
            Rcpt::Zs => ("zs", 0),
            Rcpt::Ua => ("ua", 0),
        }
    }
}

fn tex_hash(i: u8) -> [u8; 20] {
    [0x70 + i; 20]
}

fn pool_code(p: zcash_protocol::PoolType) -> &'static str {
    use zcash_protocol::PoolType;
    match p {
        PoolType::Transparent => "T",
        PoolType::Shielded(ShieldedPool::Sapling) => "S",
        PoolType::Shielded(ShieldedPool::Orchard) => "O",
        PoolType::Shielded(ShieldedPool::Ironwood) => "I",
    }
}

/// a transfer proposal the driver kept: who locked its inputs, and whether the driver will have it created (Sapling
/// and transparent parts only: the Sapling provers are mocked, Orchard proofs would be real; no coins as inputs: the
/// change of a transaction with transparent inputs follows the confirmation rule of shielding transactions)
struct KeptTex {
    p: TxProp,
    locker: Option<usize>,
    creatable: bool,
}

impl<'a> T<'a> {
    fn rcpt_addr(&self, r: Rcpt) -> zcash_keys::address::Address {
        use zcash_keys::address::{Address, UnifiedAddress};
        match r {
            Rcpt::Tex(i) => Address::Tex(tex_hash(i)),
            Rcpt::T => Address::Transparent(self.cw.foreign),
            Rcpt::Zs => Address::Sapling(self.r.chain.foreign.sapling.default_address().1),
            Rcpt::Ua => Address::Unified(
                UnifiedAddress::from_receivers(Some(self.r.chain.foreign.orchard.address_at(0u32, zip32::Scope::External)), None, None).unwrap(),
            ),
        }
    }

    /// harness id of the wallet note (txid, pool, index) - -1: not a note of the harness chain
    fn note_of(&self, txid: &TxId, pool: Pool, index: u32) -> i64 {
        let txid: [u8; 32] = *txid.as_ref();
        self.r
            .chain
            .tx_by_id
            .get(&txid)
            .and_then(|uid| self.r.chain.notes.iter().find(|(_, ni)| ni.tx == *uid && ni.pool == pool && ni.index == index))
            .map(|(n, _)| *n as i64)
            .unwrap_or(-1)
    }

    fn note_ref(&self, n: u32) -> zcash_client_backend::wallet::OutputRef {
        use zcash_protocol::PoolType;
        let ni = &self.r.chain.notes[&n];
        let txid = self.r.chain.tx_by_id.iter().find(|(_, u)| **u == ni.tx).map(|(t, _)| *t).unwrap();
        let pool = match ni.pool {
            Pool::Sapling => ShieldedPool::Sapling,
            Pool::Orchard => ShieldedPool::Orchard,
            Pool::Ironwood => ShieldedPool::Ironwood,
        };
        zcash_client_backend::wallet::OutputRef::new(TxId::from_bytes(txid), PoolType::Shielded(pool), ni.index)
    }

    /// the lock columns of the received-note tables (all accounts) and the shielded outputs get_locked_outputs reports
    /// for account 1, by harness note id (as c08_driver logs them)
    fn note_locks(&self) -> Value {
        use zcash_protocol::PoolType;
        let conn = self.r.w.st.wallet().conn();
        let mut v = vec![];
        for pool in [Pool::Sapling, Pool::Orchard, Pool::Ironwood] {
            let p = pool.table();
            let idx = if pool == Pool::Sapling { "output_index" } else { "action_index" };
            let mut stmt = conn
                .prepare(&format!(
                    "SELECT t.txid, rn.{idx}, rn.lock_owner, rn.lock_expiry_height
                     FROM {p}_received_notes rn JOIN transactions t ON t.id_tx = rn.transaction_id
                     WHERE rn.lock_expiry_height IS NOT NULL OR rn.lock_owner IS NOT NULL"
                ))
                .unwrap();
            let rows: Vec<(Vec<u8>, u32, Option<Vec<u8>>, Option<u32>)> =
                stmt.query_map([], |r| Ok((r.get(0)?, r.get(1)?, r.get(2)?, r.get(3)?))).unwrap().map(|r| r.unwrap()).collect();
            for (txid, index, own, exp) in rows {
                let txid: [u8; 32] = txid.try_into().unwrap();
                let n = self.note_of(&TxId::from_bytes(txid), pool, index);
                let o = own.map(|b| if b == vec![1u8; 32] { 0 } else if b == vec![2u8; 32] { 1 } else { 9 }).unwrap_or(-1);
                v.push(json!([n, o, exp.map(|h| h as i64 - self.r.w.base as i64).unwrap_or(-1)]));
            }
        }
        v.sort_by_key(|x| x[0].as_i64().unwrap());
        let mut api: Vec<i64> = self
            .r
            .w
            .st
            .wallet()
            .get_locked_outputs(self.r.w.acct_ids[0])
            .unwrap_or_default() // ChainHeightUnknown before the first tip update
            .iter()
            .filter_map(|o| {
                let pool = match o.pool() {
                    PoolType::Shielded(ShieldedPool::Sapling) => Pool::Sapling,
                    PoolType::Shielded(ShieldedPool::Orchard) => Pool::Orchard,
                    PoolType::Shielded(ShieldedPool::Ironwood) => Pool::Ironwood,
                    PoolType::Transparent => return None,
                };
                Some(self.note_of(o.txid(), pool, o.output_index()))
            })
            .collect();
        api.sort();
        json!({"rows": v, "api": api})
    }

    /// the shielded projection with the note locks
    fn post_l(&mut self) -> Value {
        let mut p = self.r.post();
        p["locks"] = self.note_locks();
        p
    }

    /// every step of a proposal: what it selects (notes and coins by harness id), which outputs of earlier steps it
    /// consumes, whom it pays, its change and fee
    fn describe_multi(&self, p: &TxProp) -> Value {
        use zcash_client_backend::proposal::StepOutputIndex;
        use zcash_client_backend::wallet::Note;
        let net = self.r.w.net;
        let known: Vec<(Rcpt, zcash_address::ZcashAddress)> = RCPTS.iter().map(|r| (*r, self.rcpt_addr(*r).to_zcash_address(&net))).collect();
        let all: Vec<_> = p.steps().iter().collect();
        let steps: Vec<Value> = all
            .iter()
            .map(|s| {
                let mut notes = vec![];
                if let Some(si) = s.shielded_inputs() {
                    for rn in si.notes().iter() {
                        let (pool, v) = match rn.note() {
                            Note::Sapling(n) => (Pool::Sapling, n.value().inner()),
                            Note::Orchard { note, pool } => (if matches!(pool, orchard::ValuePool::Ironwood) { Pool::Ironwood } else { Pool::Orchard }, note.value().inner()),
                        };
                        notes.push(json!([self.note_of(rn.txid(), pool, rn.output_index() as u32), v, pool.code()]));
                    }
                }
                let coins: Vec<Value> = s
                    .transparent_inputs()
                    .iter()
                    .map(|u| {
                        let a: [u8; 32] = *u.outpoint().hash();
                        json!([self.cw.by_outpoint.get(&(a, u.outpoint().n())).map(|c| *c as i64).unwrap_or(-1), u64::from(u.value())])
                    })
                    .collect();
                // the value of a consumed output is read off the step that creates it (-1: there is no such output)
                let prior: Vec<Value> = s
                    .prior_step_inputs()
                    .iter()
                    .map(|so| {
                        let src = all.get(so.step_index());
                        let (kind, idx, v): (&str, usize, i64) = match so.output_index() {
                            StepOutputIndex::Payment(i) => (
                                "p",
                                i,
                                src.and_then(|x| x.transaction_request().payments().get(&i)).and_then(|pm| pm.amount()).map(|a| u64::from(a) as i64).unwrap_or(-1),
                            ),
                            StepOutputIndex::Change(i) => ("c", i, src.and_then(|x| x.balance().proposed_change().get(i)).map(|c| u64::from(c.value()) as i64).unwrap_or(-1)),
                        };
                        json!([so.step_index(), kind, idx, v])
                    })
                    .collect();
                let pays: Vec<Value> = s
                    .transaction_request()
                    .payments()
                    .iter()
                    .map(|(i, pm)| {
                        let (k, ad) = known.iter().find(|(_, z)| z == pm.recipient_address()).map(|(r, _)| r.code()).unwrap_or(("other", 0));
                        json!({"i": i, "k": k, "ad": ad, "v": pm.amount().map(u64::from).unwrap_or(0),
                               "pool": s.payment_pools().get(i).map(|p| pool_code(*p)).unwrap_or("none")})
                    })
                    .collect();
                let change: Vec<Value> = s
                    .balance()
                    .proposed_change()
                    .iter()
                    .map(|c| json!({"v": u64::from(c.value()), "pool": pool_code(c.output_pool()), "eph": c.is_ephemeral()}))
                    .collect();
                json!({
                    "notes": notes, "coins": coins, "prior": prior, "pays": pays, "change": change,
                    "fee": u64::from(s.balance().fee_required()),
                    "anchor": s.anchor_height().map(|h| self.r.w.rel(u32::from(h))).unwrap_or(-1),
                    "shielding": s.is_shielding(),
                })
            })
            .collect();
        json!({"target": self.r.w.rel(u32::from(BlockHeight::from(p.min_target_height()))), "steps": steps})
    }

    /// propose_transfer for account 1 paying `pays` (in request order), funded from the shielded `pools` and - `tp` 1: any
    /// transparent address of the account, 2: the listed addresses `ads` - its coins
    #[allow(clippy::too_many_arguments)]
    fn ptex(&mut self, pays: &[(Rcpt, u64)], policy: (u32, u32, bool), pools: &[ShieldedPool], tp: u32, ads: &[u32], lock: Option<(usize, u32)>, lpol: u32, keep: bool) -> bool {
        let (trusted, untrusted, zc) = policy;
        let sel_policy = match lpol {
            1 => LockedInputPolicy::PreferUnlocked(NonEmptyBTreeSet::singleton(owner(0))),
            2 => LockedInputPolicy::PreferLocked(NonEmptyBTreeSet::singleton(owner(0))),
            _ => LockedInputPolicy::Exclude,
        };
        let admitted: Vec<i64> = if lpol >= 1 { vec![0] } else { vec![] };
        let net = self.r.w.net;
        let id = self.r.w.acct_ids[0];
        let payments: Vec<zip321::Payment> = pays
            .iter()
            .map(|(r, v)| zip321::Payment::without_memo(self.rcpt_addr(*r).to_zcash_address(&net), Zatoshis::from_u64(*v).unwrap()))
            .collect();
        let req = zip321::TransactionRequest::new(payments).expect("harness: a valid request");
        let mut spend = SpendPolicy::shielded_pools(pools.iter().copied()).with_locked_input_policy(sel_policy);
        if tp == 1 {
            spend = spend.with_transparent(TransparentSpendPolicy::any_account_addr());
        } else if tp == 2 {
            spend = spend.with_transparent(TransparentSpendPolicy::from_addresses(
                nonempty::NonEmpty::from_vec(ads.iter().map(|a| self.cw.addrs[(*a - 1) as usize]).collect()).expect("non-empty list"),
            ));
        }
        let st = &mut self.r.w.st;
        let res: Result<Result<TxProp, String>, String> = guarded(move || {
            let selector = GreedyInputSelector::new();
            let change = single_output_change_strategy(StandardFeeRule::Zip317, None, ShieldedPool::Sapling);
            propose_transfer::<_, _, _, _, Infallible>(
                st.wallet_mut(),
                &net,
                id,
                &selector,
                &change,
                req,
                ConfirmationsPolicy::new_unchecked(trusted, untrusted, zc),
                &spend,
                lock.map(|(o, k)| LockRequest::new(owner(o), k)),
                None,
            )
            .map_err(|e| format!("{e:?}"))
        });
        let (c, e) = class(&res);
        let cl = if c == "err" {
            if e.contains("InsufficientFunds") { "insufficient" }
            else if e.contains("InputsLocked") || e.contains("LockFailure") { "inputs-locked" }
            else if e.contains("ScanRequired") || e.contains("SyncRequired") { "scan-required" }
            else if e.contains("PaymentPoolsMismatch") { "pools-mismatch" }
            else { "other" }
        } else {
            c
        };
        let prop = match &res { Ok(Ok(p)) => self.describe_multi(p), _ => json!({"target": -1, "steps": []}) };
        let post = self.post_l();
        let coins = self.cw.project(&self.r.w);
        self.r.out.emit(&json!({
            "a": "ptex", "res": cl, "err": e, "acct": 1,
            "pays": pays.iter().map(|(r, v)| json!({"k": r.code().0, "ad": r.code().1, "v": v})).collect::<Vec<_>>(),
            "trusted": trusted, "untrusted": untrusted, "zc": zc,
            "pools": pools.iter().map(|p| pool_code(zcash_protocol::PoolType::Shielded(*p))).collect::<Vec<_>>(),
            "tp": tp, "listed": tp == 2, "addrs": if tp == 2 { ads } else { &[] },
            "lock": lock.map(|(o, k)| json!([o as i64, k])).unwrap_or(json!([-1, 0])), "admitted": admitted, "prefer_locked": lpol == 2,
            "p": prop, "post": post, "coins": coins,
        }));
        self.r.aborted |= c == "panic";
        if let Ok(Ok(p)) = res {
            if keep {
                let st = &prop["steps"];
                let only = |key: &str, f: &dyn Fn(&Value) -> bool| st.as_array().unwrap().iter().all(|s| s[key].as_array().unwrap().iter().all(|x| f(x)));
                let creatable = only("notes", &|n| n[2] == "S" && n[0].as_i64().unwrap() > 0)
                    && only("coins", &|_| false)
                    && only("pays", &|x| x["pool"] == "T" || x["pool"] == "S")
                    && only("change", &|x| x["pool"] == "T" || x["pool"] == "S");
                self.ktex.push(KeptTex { p, locker: lock.map(|(o, _)| o), creatable });
                if self.ktex.len() > 5 {
                    self.ktex.remove(0);
                }
            }
            true
        } else {
            false
        }
    }

    /// what a transparent output of a created transaction pays: a TEX / plain foreign recipient of the driver, an
    /// ephemeral address of the wallet, one of the wallet's ordinary addresses, or something else
    fn vout_kind(&self, o: &zcash_transparent::bundle::TxOut, eph: &[zcash_transparent::address::TransparentAddress]) -> (&'static str, u8) {
        use zcash_transparent::address::TransparentAddress;
        match o.recipient_address() {
            Some(a) if a == TransparentAddress::PublicKeyHash(tex_hash(1)) => ("tex", 1),
            Some(a) if a == TransparentAddress::PublicKeyHash(tex_hash(2)) => ("tex", 2),
            Some(a) if a == self.cw.foreign => ("t", 0),
            Some(a) if eph.contains(&a) => ("eph", 0),
            Some(a) if self.cw.addrs.contains(&a) => ("own", 0),
            _ => ("other", 0),
        }
    }

    /// create_proposed_transactions on kept proposal `i` (possibly stale by now), signed with the key of account 1; every
    /// transaction the wallet stored is read back: its shielded inputs (nullifiers against the step's notes) and outputs
    /// (trial decryption), its transparent inputs (which output of which transaction each consumes, and what that output
    /// really is) and outputs. expiry: None = the builder's default, Some(0) = never, Some(h) absolute
    fn ctex(&mut self, i: usize, expiry: Option<u32>) -> Vec<u32> {
        if i >= self.ktex.len() {
            return vec![];
        }
        let k = self.ktex.remove(i);
        let desc = self.describe_multi(&k.p);
        let anchor_abs = k.p.steps().first().anchor_height().map(u32::from).unwrap_or(self.r.chain.base);
        let expreq: i64 = match expiry { None => -1, Some(0) => -100, Some(h) => self.r.w.rel(h) };
        let usk = self.r.w.st.test_account().unwrap().usk().clone();
        let net = self.r.w.net;
        let p = k.p;
        let st = &mut self.r.w.st;
        let res: Result<Result<Vec<TxId>, String>, String> = guarded(|| {
            create_proposed_transactions::<_, _, Infallible, _, Infallible, _>(
                st.wallet_mut(),
                &net,
                &sapling::prover::mock::MockSpendProver,
                &sapling::prover::mock::MockOutputProver,
                &SpendingKeys::from_unified_spending_key(usk),
                OvkPolicy::Sender,
                &p,
                expiry.map(BlockHeight::from),
            )
            .map(|ids| ids.into_iter().collect())
            .map_err(|e| format!("{e:?}"))
        });
        let (c, e) = class(&res);
        let mut txs = vec![];
        let mut uids = vec![];
        if let Ok(Ok(ids)) = &res {
            let eph: Vec<zcash_transparent::address::TransparentAddress> = self
                .r
                .w
                .st
                .wallet()
                .get_known_ephemeral_addresses(self.r.w.acct_ids[0], None)
                .expect("harness: ephemeral addresses")
                .into_iter()
                .map(|(a, _)| a)
                .collect();
            // the transactions of this call, by txid: (harness uid, the transaction)
            let mut here: Vec<([u8; 32], u32, zcash_primitives::transaction::Transaction)> = vec![];
            for (si, id) in ids.iter().enumerate() {
                let tx = self.r.w.st.wallet().get_transaction(*id).unwrap().expect("harness: created transaction not retrievable");
                let step = &desc["steps"][si];
                let ids_of = |key: &str| -> Vec<u32> {
                    step[key].as_array().map(|a| a.iter().map(|x| x[0].as_i64().unwrap().max(0) as u32).collect()).unwrap_or_default()
                };
                let cr = self.r.chain.register_created(&tx, &ids_of("notes"), anchor_abs);
                let txid: [u8; 32] = *tx.txid().as_ref();
                let (vin, vout): (Vec<Value>, Vec<Value>) = match tx.transparent_bundle() {
                    None => (vec![], vec![]),
                    Some(b) => (
                        b.vin
                            .iter()
                            .map(|i| {
                                let h: [u8; 32] = *i.prevout().hash();
                                let n = i.prevout().n();
                                let coin = self.cw.by_outpoint.get(&(h, n)).map(|c| *c as i64).unwrap_or(-1);
                                // an output of a transaction created by this very call: what is it, really?
                                let (t, kind, v) = match here.iter().find(|(x, _, _)| *x == h) {
                                    Some((_, uid, ftx)) => match ftx.transparent_bundle().and_then(|fb| fb.vout.get(n as usize)) {
                                        Some(o) => (*uid as i64, self.vout_kind(o, &eph).0, u64::from(o.value()) as i64),
                                        None => (*uid as i64, "none", -1),
                                    },
                                    None => (-1, if coin >= 0 { "coin" } else { "none" }, if coin >= 0 { self.cw.coins[&(coin as u32)].value as i64 } else { -1 }),
                                };
                                json!({"t": t, "n": n, "c": coin, "k": kind, "v": v})
                            })
                            .collect(),
                        b.vout
                            .iter()
                            .enumerate()
                            .map(|(n, o)| {
                                let (kind, ad) = self.vout_kind(o, &eph);
                                if kind == "eph" {
                                    self.cw.ephemeral.insert((txid, n as u32));
                                }
                                json!({"k": kind, "ad": ad, "v": u64::from(o.value())})
                            })
                            .collect(),
                    ),
                };
                let ct = self.cw.register_shared(&tx, cr.abs.uid, &ids_of("coins"));
                txs.push(json!({
                    "t": cr.abs.uid,
                    "exp": if cr.expiry == 0 { -100 } else { self.r.w.rel(cr.expiry) },
                    "outs": cr.abs.outs.iter().map(|o| json!({"n": o.note, "pool": o.pool.code(), "v": o.value, "acct": o.acct, "int": o.internal})).collect::<Vec<_>>(),
                    "spends": cr.abs.spends,
                    "nf_missing": cr.nf_missing, "nf_extra": cr.nf_extra,
                    "nsap": tx.sapling_bundle().map(|b| b.shielded_spends().len()).unwrap_or(0),
                    "nact": tx.orchard_bundle().map(|b| b.actions().len()).unwrap_or(0) + tx.ironwood_bundle().map(|b| b.actions().len()).unwrap_or(0),
                    "vin": vin, "vout": vout,
                }));
                uids.push(ct);
                if si == 0 {
                    self.r.created.push(cr.clone());
                } else {
                    self.seconds.push((here[0].1, cr.clone()));
                }
                here.push((txid, cr.abs.uid, tx));
            }
        }
        let post = self.post_l();
        let coins = self.cw.project(&self.r.w);
        self.r.out.emit(&json!({
            "a": "ctex", "res": c, "err": e, "target": desc["target"], "expreq": expreq, "steps": desc["steps"], "txs": txs,
            "post": post, "coins": coins,
        }));
        self.r.aborted |= c == "panic";
        uids
    }

    /// unlock_proposal_inputs of kept transfer proposal `i` under owner `by`
    fn untex(&mut self, i: usize, by: usize) {
        if i >= self.ktex.len() {
            return;
        }
        let k = self.ktex.remove(i);
        let desc = self.describe_multi(&k.p);
        let ids = |key: &str| -> Vec<i64> {
            desc["steps"].as_array().unwrap().iter().flat_map(|s| s[key].as_array().unwrap().iter().map(|x| x[0].as_i64().unwrap()).collect::<Vec<_>>()).collect()
        };
        let p = k.p;
        let st = &mut self.r.w.st;
        let res = guarded(move || unlock_proposal_inputs(st.wallet_mut(), &p, owner(by)).map_err(|e| format!("{e:?}")));
        let (c, e) = class(&res);
        let post = self.post_l();
        let coins = self.cw.project(&self.r.w);
        self.r.out.emit(&json!({"a": "untex", "res": c, "err": e, "owner": by as i64, "notes": ids("notes"), "cs": ids("coins"), "post": post, "coins": coins}));
        self.r.aborted |= c == "panic";
    }

    /// lock_outputs on wallet notes directly (all or nothing)
    fn lock_notes(&mut self, picks: &[u32], o: usize, exp: u32) {
        let refs: Vec<_> = picks.iter().map(|n| self.note_ref(*n)).collect();
        let st = &mut self.r.w.st;
        let res = guarded(move || st.wallet_mut().lock_outputs(&refs, owner(o), BlockHeight::from(exp)).map_err(|e| format!("{e:?}")));
        let (c, e) = class(&res);
        let cl = if c == "err" && e.contains("LockFailure") { "lock-failure" } else { c };
        let post = self.post_l();
        self.r.out.emit(&json!({"a": "lock", "res": cl, "err": e, "owner": o as i64, "exp": self.r.w.rel(exp), "notes": picks, "post": post}));
        self.r.aborted |= c == "panic";
        self.chk();
    }

    fn chain_height_of(&self, uid: u32) -> Option<u32> {
        self.r.chain.blocks.iter().find(|(_, b)| b.txs.iter().any(|t| t.uid == uid)).map(|(h, _)| *h)
    }

    /// a second transaction of a ZIP 320 pair that the next block could mine: its first transaction is on the chain (or
    /// is `with`, mined just before it in the same block), it is not, and it has not expired
    fn pick_second(&mut self, with: Option<u32>) -> Option<h_wallet::chain::Created> {
        let next = self.r.chain.top() + 1;
        let c: Vec<h_wallet::chain::Created> = self
            .seconds
            .iter()
            .filter(|(first, c)| (self.chain_height_of(*first).is_some() || with == Some(*first)) && self.chain_height_of(c.abs.uid).is_none() && (c.expiry == 0 || next <= c.expiry))
            .map(|(_, c)| c.clone())
            .collect();
        if c.is_empty() { None } else { Some(c[self.r.rng.gen_range(0..c.len())].clone()) }
    }

    /// the environment tells the wallet that created transaction `ct` (coin-world id) was mined where the chain has it
    /// (a status update), unless the wallet has another height on record
    fn report_mined(&mut self, ct: u32) {
        let Some(h) = self.on_chain(ct) else { return };
        if self.r.w.tip().map(|tp| h > tp).unwrap_or(true) {
            self.tip_top();
        }
        match self.cw.wallet_mined(&self.r.w, ct) {
            Some(Some(m)) if m != h => {}
            _ => { self.status(ct, h); }
        }
    }

    /// the shielded balance the wallet reports for account 1
    fn shielded_balance(&self) -> u64 {
        let p = self.r.w.project(&self.r.chain);
        ["S", "O", "I"].iter().map(|k| p["bal"][0][*k][0].as_u64().unwrap_or(0)).sum()
    }
}

const SAP: [ShieldedPool; 1] = [ShieldedPool::Sapling];
const ALL_POOLS: [ShieldedPool; 3] = [ShieldedPool::Sapling, ShieldedPool::Orchard, ShieldedPool::Ironwood];
const P11: (u32, u32, bool) = (1, 1, false);

fn tex_scenarios(out: &mut NdjsonWriter) {
    let mut id = 8000u64;

    // A: the whole flow. Propose to a TEX recipient, create both transactions, the notes are out of the ledger and
    // ineligible; the first is mined (scanned), the second (status update); propose again out of the change
    for variant in 0..4u32 {
        id += 1;
        let mut t = T::new(out, id, variant == 3, json!(format!("xA flow v{variant}")));
        t.prelude(4);
        t.recv(Pool::Sapling, 100_000);
        t.recv(Pool::Sapling, 60_000);
        t.catch_up();
        t.ptex(&[(Rcpt::Tex(1), 50_000)], P11, &SAP, 0, &[], None, 0, true);
        t.ptex(&[(Rcpt::Tex(1), 50_000)], P11, &SAP, 0, &[], None, 0, true); // the twin: stale once the first is created
        let cts = t.ctex(0, None);
        t.ptex(&[(Rcpt::Tex(2), 50_000)], P11, &SAP, 0, &[], None, 0, false); // funded by what is left
        t.ptex(&[(Rcpt::Tex(2), 120_000)], P11, &SAP, 0, &[], None, 0, false); // too much now
        t.ctex(0, None); // the stale twin: whatever the wallet answers, the ledger law holds
        if cts.len() == 2 {
            match variant {
                0 | 3 => {
                    // first mined and scanned, then the second mined, reported by a status update
                    t.mine_created();
                    t.catch_up();
                    if let Some(c2) = t.pick_second(None) {
                        t.r.block(&[], &[(c2.abs.clone(), c2.ctx.clone())], true);
                        t.chk();
                        t.report_mined(SHARED_BASE + c2.abs.uid);
                    }
                    t.catch_up();
                }
                1 => {
                    // both in one block; the wallet hears of the second first, then of the first, scans later
                    if let Some(c1) = t.r.pick_created() {
                        let c2 = t.pick_second(Some(c1.abs.uid)).expect("harness: the pair's second transaction");
                        t.r.block(&[], &[(c1.abs.clone(), c1.ctx.clone()), (c2.abs.clone(), c2.ctx.clone())], true);
                        t.chk();
                        t.report_mined(SHARED_BASE + c2.abs.uid);
                        t.report_mined(SHARED_BASE + c1.abs.uid);
                        t.ptex(&[(Rcpt::Tex(2), 20_000)], P11, &SAP, 0, &[], None, 0, false);
                        t.catch_up();
                    }
                }
                _ => {
                    // only the first is ever mined; the second expires
                    t.mine_created();
                    t.catch_up();
                    t.walk(42);
                }
            }
        }
        t.ptex(&[(Rcpt::Tex(2), 20_000)], P11, &SAP, 0, &[], None, 0, true);
        t.ptex(&[(Rcpt::Tex(2), 20_000)], (1, 3, false), &SAP, 0, &[], None, 0, false);
        // a rewind below the block that mined the first transaction: pending again
        let top = t.r.chain.top();
        t.trunc(top.saturating_sub(3).max(t.r.chain.base + 5), true);
        t.ptex(&[(Rcpt::Tex(2), 20_000)], P11, &SAP, 0, &[], None, 0, false);
        t.walk(3);
        t.r.catch_up_and_fresh();
        t.chk();
    }

    // B: requests. One / two TEX recipients, TEX with a shielded or a plain transparent recipient (TEX first / last), plain
    // requests; amounts tiny / a fraction / nearly everything / too much; every shielded pool or Sapling only
    for ironwood in [false, true] {
        id += 1;
        let mut t = T::new(out, id, ironwood, json!(format!("xB requests ironwood={ironwood}")));
        t.prelude(4);
        for v in [90_000u64, 70_000, 40_000] {
            t.recv(Pool::Sapling, v);
        }
        t.recv(Pool::Orchard, 80_000);
        t.catch_up();
        let bal = t.shielded_balance();
        for pools in [&ALL_POOLS[..], &SAP[..]] {
            for amount in [1_000u64, 12_000, bal / 4, bal / 2, bal - 40_000, bal - 20_001, bal - 14_999, bal + 1] {
                t.ptex(&[(Rcpt::Tex(1), amount)], P11, pools, 0, &[], None, 0, false);
            }
            t.ptex(&[(Rcpt::Tex(1), 30_000), (Rcpt::Tex(2), 45_000)], P11, pools, 0, &[], None, 0, false);
            t.ptex(&[(Rcpt::Tex(1), 30_000), (Rcpt::Zs, 45_000)], P11, pools, 0, &[], None, 0, false);
            t.ptex(&[(Rcpt::Tex(2), 30_000), (Rcpt::T, 25_000)], P11, pools, 0, &[], None, 0, false);
            t.ptex(&[(Rcpt::Tex(1), 10_000), (Rcpt::Tex(2), 10_000), (Rcpt::Zs, 10_000)], P11, pools, 0, &[], None, 0, false);
            // a TEX recipient behind another one: the payment indices of the second step do not start at 0 (refused)
            t.ptex(&[(Rcpt::Zs, 45_000), (Rcpt::Tex(1), 30_000)], P11, pools, 0, &[], None, 0, false);
            t.ptex(&[(Rcpt::T, 45_000), (Rcpt::Tex(1), 30_000)], P11, pools, 0, &[], None, 0, false);
            t.ptex(&[(Rcpt::Zs, 45_000)], P11, pools, 0, &[], None, 0, false);
            t.ptex(&[(Rcpt::T, 45_000)], P11, pools, 0, &[], None, 0, false);
            t.ptex(&[(Rcpt::Ua, 45_000)], P11, pools, 0, &[], None, 0, false);
            t.ptex(&[(Rcpt::Tex(1), 30_000), (Rcpt::Ua, 45_000)], P11, pools, 0, &[], None, 0, false);
        }
        // confirmations: a note mined at the tip needs its confirmations for a TEX payment as for any other
        t.recv(Pool::Sapling, 300_000);
        t.catch_up();
        for pol in [P11, (1, 2, false), (2, 5, false), (3, 10, false)] {
            t.ptex(&[(Rcpt::Tex(1), bal + 100_000)], pol, &ALL_POOLS, 0, &[], None, 0, false);
        }
        t.walk(2);
        t.catch_up();
        t.ptex(&[(Rcpt::Tex(1), bal + 100_000)], (1, 2, false), &ALL_POOLS, 0, &[], None, 0, false);
    }

    // C: locks. A TEX proposal locks the notes of its first step; another owner gets other notes or nothing; a selector
    // admitting owner 0 draws through; wrong-owner unlock; creating releases (or keeps) the locks
    {
        id += 1;
        let mut t = T::new(out, id, false, json!("xC locks"));
        t.prelude(4);
        let mut ns = vec![];
        for v in [90_000u64, 70_000, 50_000] {
            ns.push(t.r.recv(Pool::Sapling, v, false));
            t.chk();
        }
        t.catch_up();
        t.ptex(&[(Rcpt::Tex(1), 100_000)], P11, &SAP, 0, &[], Some((0, 3)), 0, true); // owner 0 locks two notes until target + 3
        t.ptex(&[(Rcpt::Tex(2), 100_000)], P11, &SAP, 0, &[], Some((1, 1)), 0, false); // not enough left for owner 1
        t.ptex(&[(Rcpt::Tex(2), 20_000)], P11, &SAP, 0, &[], Some((1, 1)), 0, true); // ... but for this
        t.ptex(&[(Rcpt::Tex(2), 20_000)], P11, &SAP, 0, &[], None, 0, false); // nothing unlocked left
        t.ptex(&[(Rcpt::Tex(2), 20_000)], P11, &SAP, 0, &[], None, 1, false); // admits owner 0: draws through its locks
        t.ptex(&[(Rcpt::Tex(2), 20_000)], P11, &SAP, 0, &[], Some((1, 5)), 2, false); // ... and cannot lock them for owner 1
        t.ptex(&[(Rcpt::Tex(2), 20_000)], P11, &SAP, 0, &[], Some((0, 5)), 2, false); // owner 0 itself can
        t.walk(2); // owner 1's lock (target + 1) has expired
        t.catch_up();
        t.ptex(&[(Rcpt::Tex(2), 20_000)], P11, &SAP, 0, &[], None, 0, false);
        t.untex(1, 0); // owner 0 cannot release owner 1's (expired) lock
        let tip = t.wtip();
        t.lock_notes(&[ns[2]], 1, tip + 4);
        t.lock_notes(&[ns[2], ns[0]], 0, tip + 4); // all or nothing
        t.ctex(0, None); // creating through the locks: released or kept, the notes stay out either way
        t.ptex(&[(Rcpt::Tex(2), 20_000)], P11, &SAP, 0, &[], None, 1, false);
        t.cclear(1);
        t.ptex(&[(Rcpt::Tex(2), 20_000)], P11, &SAP, 0, &[], None, 0, false);
    }

    // D: expiry. A pair created with an early expiry: the tip walks past it, the notes are back; with the default expiry;
    // never expiring
    {
        id += 1;
        let mut t = T::new(out, id, false, json!("xD expiry"));
        t.prelude(4);
        t.recv(Pool::Sapling, 100_000);
        t.catch_up();
        t.ptex(&[(Rcpt::Tex(1), 40_000)], P11, &SAP, 0, &[], None, 0, true);
        let tip = t.wtip();
        t.ctex(0, Some(tip + 3));
        t.ptex(&[(Rcpt::Tex(1), 40_000)], P11, &SAP, 0, &[], None, 0, false);
        t.walk(4);
        t.ptex(&[(Rcpt::Tex(1), 40_000)], P11, &SAP, 0, &[], None, 0, true);
        t.ctex(0, None);
        t.walk(41);
        t.ptex(&[(Rcpt::Tex(1), 40_000)], P11, &SAP, 0, &[], None, 0, true);
        t.ctex(0, Some(0));
        t.walk(45);
        t.ptex(&[(Rcpt::Tex(1), 40_000)], P11, &SAP, 0, &[], None, 0, false);
        t.recv(Pool::Sapling, 70_000);
        t.catch_up();
        t.ptex(&[(Rcpt::Tex(1), 40_000)], P11, &SAP, 0, &[], None, 0, true);
        let tip = t.wtip();
        t.ctex(0, Some(tip)); // below the target: refused
    }

    // F: coins. The first step may draw on the account's coins (any address / a list), alone or next to notes; coins of
    // the other account, of an unlisted address, unconfirmed or locked ones never
    {
        id += 1;
        let mut t = T::new(out, id, false, json!("xF coins as inputs of the first step"));
        t.prelude(4);
        t.recv(Pool::Sapling, 60_000);
        t.catch_up();
        let mut cs = vec![];
        for (ad, v, dh) in [(1u32, 40_000u64, 1u32), (2, 90_000, 1), (3, 70_000, 1), (1, 30_000, 0), (3, 5_000, 1)] {
            let c = t.cw.new_utxo_at(&mut t.r.rng, ad, v);
            let h = t.wtip() - dh;
            t.utxo(c, Some(h));
            cs.push(c);
        }
        let none: [ShieldedPool; 0] = [];
        for amount in [10_000u64, 60_000, 95_000, 125_000, 180_000, 400_000] {
            t.ptex(&[(Rcpt::Tex(1), amount)], ZC, &none, 1, &[], None, 0, false); // coins only
            t.ptex(&[(Rcpt::Tex(1), amount)], ZC, &SAP, 1, &[], None, 0, false); // coins and notes
            t.ptex(&[(Rcpt::Tex(1), amount)], (1, 2, false), &SAP, 2, &[3], None, 0, false); // listed address, confirmations
        }
        // a list naming the other account's address: its 90 000 coin is not account 1's - only address 3's 70 000 coin is
        t.ptex(&[(Rcpt::Tex(1), 80_000)], ZC, &none, 2, &[2, 3], None, 0, false);
        t.ptex(&[(Rcpt::Tex(1), 50_000)], ZC, &none, 2, &[2, 3], None, 0, false);
        t.ptex(&[(Rcpt::Tex(1), 80_000)], ZC, &SAP, 2, &[2], None, 0, false); // notes only, then
        t.ptex(&[(Rcpt::Tex(1), 30_000), (Rcpt::Tex(2), 30_000)], ZC, &none, 1, &[], Some((0, 3)), 0, true); // locks its coins
        t.ptex(&[(Rcpt::Tex(1), 30_000)], ZC, &none, 1, &[], Some((1, 3)), 0, false); // the next owner gets other coins or none
        t.ptex(&[(Rcpt::Tex(1), 30_000)], ZC, &none, 1, &[], None, 1, false);
        t.ptex(&[(Rcpt::Tex(1), 30_000)], ZC, &SAP, 1, &[], Some((1, 2)), 0, true); // notes and coins locked together
        let tip = t.wtip();
        t.clock(&[cs[2]], 1, tip + 4);
        t.ptex(&[(Rcpt::Tex(1), 100_000)], ZC, &SAP, 1, &[], None, 0, false);
        t.untex(1, 1);
        t.untex(0, 1); // wrong owner
        t.ptex(&[(Rcpt::Tex(1), 100_000)], ZC, &SAP, 1, &[], None, 0, false);
    }
}

/// one request of a random history: recipients and amounts relative to what the wallet holds
fn random_request(t: &mut T) -> Vec<(Rcpt, u64)> {
    let bal = t.shielded_balance();
    let rng = &mut t.r.rng;
    let amount: u64 = match rng.gen_range(0..9) {
        0 => 1_000,
        1 => 12_000,
        2 => bal / 4 + 1,
        3 => bal / 2 + 1,
        4 => bal.saturating_sub(20_000).max(1),
        5 => bal.saturating_sub(35_000).max(1),
        6 => bal + 1,
        7 => 25_000,
        _ => 60_000,
    };
    let tex = if rng.gen_bool(0.5) { Rcpt::Tex(1) } else { Rcpt::Tex(2) };
    let other = |r: Rcpt| if r == Rcpt::Tex(1) { Rcpt::Tex(2) } else { Rcpt::Tex(1) };
    let half = (amount / 2).max(1);
    match rng.gen_range(0..100) {
        0..=44 => vec![(tex, amount)],
        45..=59 => vec![(tex, half), (other(tex), amount - half + 1)],
        60..=71 => vec![(tex, half), (Rcpt::Zs, amount - half + 1)],
        72..=76 => vec![(tex, half), (Rcpt::T, amount - half + 1)],
        77..=80 => vec![(Rcpt::Zs, half), (tex, amount - half + 1)],
        81..=83 => vec![(tex, half), (Rcpt::Ua, amount - half + 1)],
        84..=91 => vec![(Rcpt::Zs, amount)],
        92..=95 => vec![(Rcpt::T, amount)],
        _ => vec![(Rcpt::Ua, amount)],
    }
}

fn tex_op(t: &mut T) {
    match t.r.rng.gen_range(0..100) {
        0..=44 => {
            if t.r.rng.gen_bool(0.7) {
                t.catch_up();
            }
            let pays = random_request(t);
            let pol = *[P11, P11, (1, 2, false), (1, 3, false), (3, 10, false), (2, 5, false), ZC].choose(&mut t.r.rng).unwrap();
            let (pools, tp): (&[ShieldedPool], u32) = match t.r.rng.gen_range(0..20) {
                0..=8 => (&SAP, 0),
                9..=14 => (&ALL_POOLS, 0),
                15 => (&ALL_POOLS[1..2], 0),
                16 => (&SAP, 1),
                17 => (&ALL_POOLS, 2),
                18 => (&ALL_POOLS, 1),
                _ => (&[], 1),
            };
            // (a list may name an address of the OTHER account: its coins are not the requested account's)
            let ads: Vec<u32> = match t.r.rng.gen_range(0..4) { 0 => vec![1], 1 => vec![1, 3], 2 => vec![1, 2, 3], _ => vec![2, 3] };
            let lock = if t.r.rng.gen_bool(0.4) { Some((t.r.rng.gen_range(0..2usize), *[0u32, 1, 3, 20].choose(&mut t.r.rng).unwrap())) } else { None };
            let lpol = match t.r.rng.gen_range(0..10) { 0..=5 => 0, 6..=7 => 1, _ => 2 };
            let keep = t.r.rng.gen_bool(0.75);
            t.ptex(&pays, pol, pools, tp, &ads, lock, lpol, keep);
        }
        45..=59 => {
            // create a kept proposal (only those without Orchard parts and without coins, see KeptTex)
            let Some(i) = t.ktex.iter().position(|k| k.creatable) else { return };
            let target = u32::from(BlockHeight::from(t.ktex[i].p.min_target_height()));
            let expiry = match t.r.rng.gen_range(0..10) { 0..=4 => None, 5 => Some(target), 6..=7 => Some(target + 2), 8 => Some(target + 12), _ => Some(0) };
            t.ctex(i, expiry);
        }
        60..=73 => {
            // the environment mines: a first (or single) transaction, a second one whose first is on the chain, or a pair
            // in one block; the wallet learns of it by scanning / a status update, in either order, or not yet
            let how = t.r.rng.gen_range(0..10);
            let mut mined: Vec<u32> = vec![];
            if how < 4 {
                if let Some(ct) = t.mine_created() {
                    mined.push(ct);
                }
            } else if how < 8 {
                if let Some(c2) = t.pick_second(None) {
                    t.r.block(&[], &[(c2.abs.clone(), c2.ctx.clone())], true);
                    t.chk();
                    mined.push(SHARED_BASE + c2.abs.uid);
                }
            } else if let Some(c1) = t.r.pick_created() {
                let mut txs = vec![(c1.abs.clone(), c1.ctx.clone())];
                mined.push(SHARED_BASE + c1.abs.uid);
                if let Some(c2) = t.pick_second(Some(c1.abs.uid)).filter(|c2| t.seconds.iter().any(|(f, c)| *f == c1.abs.uid && c.abs.uid == c2.abs.uid)) {
                    mined.push(SHARED_BASE + c2.abs.uid);
                    txs.push((c2.abs.clone(), c2.ctx.clone()));
                }
                t.r.block(&[], &txs, true);
                t.chk();
            }
            if mined.is_empty() {
                return;
            }
            if t.r.rng.gen_bool(0.5) {
                mined.reverse();
            }
            match t.r.rng.gen_range(0..5) {
                0 => { for ct in &mined { t.report_mined(*ct); } }
                1 => { t.catch_up(); for ct in &mined { t.report_mined(*ct); } }
                2 => { for ct in &mined { t.report_mined(*ct); } t.catch_up(); }
                3 => { t.catch_up(); }
                _ => {}
            }
        }
        74..=78 => {
            let k = *[1u32, 2, 3, 6, 41].choose(&mut t.r.rng).unwrap();
            t.walk(k);
        }
        79..=84 => {
            // direct locks on notes / coins
            if t.r.rng.gen_bool(0.6) {
                let known: Vec<u32> = t.r.post()["notes"].as_array().unwrap().iter().map(|n| n["n"].as_i64().unwrap()).filter(|n| *n > 0).map(|n| n as u32).collect();
                if known.is_empty() {
                    return;
                }
                let k = t.r.rng.gen_range(1..=known.len().min(3));
                let picks: Vec<u32> = known.choose_multiple(&mut t.r.rng, k).copied().collect();
                let o = t.r.rng.gen_range(0..2usize);
                let exp = t.wtip() + *[0u32, 1, 2, 5, 30].choose(&mut t.r.rng).unwrap();
                t.lock_notes(&picks, o, exp);
            } else {
                let known: Vec<u32> = t.cw.coins.keys().copied().filter(|c| t.cw.wallet_knows_coin(&t.r.w, *c)).collect();
                if known.is_empty() {
                    return;
                }
                let k = t.r.rng.gen_range(1..=known.len().min(3));
                let picks: Vec<u32> = known.choose_multiple(&mut t.r.rng, k).copied().collect();
                let o = t.r.rng.gen_range(0..2usize);
                let exp = t.wtip() + *[0u32, 1, 2, 5, 30].choose(&mut t.r.rng).unwrap();
                t.clock(&picks, o, exp);
            }
        }
        85..=90 => {
            if t.ktex.is_empty() {
                return;
            }
            let i = t.r.rng.gen_range(0..t.ktex.len());
            let o = t.ktex[i].locker.unwrap_or(0);
            let by = if t.r.rng.gen_bool(0.7) { o } else { 1 - o };
            t.untex(i, by);
        }
        91..=93 => {
            let a = t.r.rng.gen_range(1..=2u32);
            t.cclear(a);
        }
        _ => {
            // other proposals competing for the coins (never created here)
            let ads: Vec<u32> = match t.r.rng.gen_range(0..4) { 0 => vec![1], 1 => vec![1, 3], 2 => vec![3], _ => vec![1, 2, 3] };
            let lock = if t.r.rng.gen_bool(0.4) { Some((t.r.rng.gen_range(0..2usize), *[1u32, 3, 20].choose(&mut t.r.rng).unwrap())) } else { None };
            if t.r.rng.gen_bool(0.5) {
                t.pshield(&ads, 1, ZC, 0, lock, 0, false);
            } else {
                t.ptrans(1, None, ZC, 25_000, lock, 0);
            }
        }
    }
}

fn tex_history(t: &mut T, ops: usize) {
    let mut wk = Walk { undelivered: vec![], unstored: vec![], last_from: t.r.chain.base + 1 };
    t.prelude(3);
    for op_i in 0..ops {
        if t.r.aborted {
            return;
        }
        if op_i > 0 && op_i % 60 == 0 {
            t.r.catch_up_and_fresh();
            t.chk();
            continue;
        }
        match t.r.rng.gen_range(0..100) {
            // funds: Sapling notes of account 1 (what the created pairs spend), now and then Orchard, a few coins
            0..=13 => {
                let v = match t.r.rng.gen_range(0..8) { 0 => 5_001, 1 => 9_000, _ => 30_000 + 1_000 * t.r.rng.gen_range(0..300) };
                match t.r.rng.gen_range(0..10) {
                    0..=6 => t.recv(Pool::Sapling, v),
                    7 => t.recv(Pool::Orchard, v),
                    _ => {
                        if t.r.w.tip().is_none() {
                            t.tip_top();
                        }
                        let ad = *[1u32, 1, 3, 2].choose(&mut t.r.rng).unwrap();
                        let c = t.cw.new_utxo_at(&mut t.r.rng, ad, v);
                        let tip = t.wtip();
                        let h = tip.saturating_sub(*[0u32, 0, 1, 2, 9].choose(&mut t.r.rng).unwrap()).max(t.r.chain.base + 1);
                        t.utxo(c, Some(h));
                    }
                }
            }
            14..=21 => coin_op(t, &mut wk),
            22..=37 => shielded_op(t, &mut wk, false, true),
            _ => tex_op(t),
        }
    }
    if !t.r.aborted {
        t.r.catch_up_and_fresh();
        t.chk();
    }
}

fn main() {
    quiet_panics();
    let args: Vec<String> = std::env::args().collect();
    let mut out = NdjsonWriter::create(&args[1]);
    if args[2] == "scenarios" {
        scenarios(&mut out);
    } else if args[2] == "conflict-scenario" {
        conflict_scenario(&mut out);
    } else if args[2] == "shield-scenarios" {
        shield_scenarios(&mut out);
    } else if args[2] == "tex-scenarios" {
        tex_scenarios(&mut out);
    } else if args[2] == "tex" {
        let histories: usize = args[3].parse().unwrap();
        let ops: usize = args[4].parse().unwrap();
        let ironwood = args.get(5).map(|s| s == "ironwood").unwrap_or(false);
        let seed = seed_from_env();
        for hist in 0..histories {
            let mut t = T::new(&mut out, seed.wrapping_mul(1_000_003).wrapping_add(11_000 + hist as u64), ironwood, json!(format!("x{hist}")));
            tex_history(&mut t, ops);
        }
    } else if args[2] == "shield" {
        let histories: usize = args[3].parse().unwrap();
        let ops: usize = args[4].parse().unwrap();
        let ironwood = args.get(5).map(|s| s == "ironwood").unwrap_or(false);
        let seed = seed_from_env();
        for hist in 0..histories {
            let mut t = T::new(&mut out, seed.wrapping_mul(1_000_003).wrapping_add(9_000 + hist as u64), ironwood, json!(format!("s{hist}")));
            shield_history(&mut t, ops);
        }
    } else {
        let histories: usize = args[2].parse().unwrap();
        let ops: usize = args[3].parse().unwrap();
        let ironwood = args.get(4).map(|s| s == "ironwood").unwrap_or(false);
        let seed = seed_from_env();
        for hist in 0..histories {
            let mut t = T::new(&mut out, seed.wrapping_mul(1_000_003).wrapping_add(7_000 + hist as u64), ironwood, json!(format!("t{hist}")));
            random_history(&mut t, ops);
        }
    }
    let n = out.finish();
    println!("{}", json!({"events": n}));
}
