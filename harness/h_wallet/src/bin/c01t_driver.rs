//! C01, transparent coins (code -> spec): the shielded histories of c01_driver (block arrivals, scans of any
//! range in any order, tip updates, rewinds with and without a fork) interleaved with the two ways transparent
//! coins reach the wallet - UTXO reports and full transactions - in every arrival order, against the real SQLite
//! wallet built WITH `transparent-inputs`. One ndjson event per operation, logged after the call returned:
//!   utxo / fulltx   the coin operation, with the shielded projection (`post`) and the coin projection (`coins`)
//!   coinchk         the coin projection after a shielded operation (whose own event carries `post`)
//!
//! usage: c01t_driver <out.ndjson> <histories> <ops-per-history> [ironwood]     seeded random histories
//!        c01t_driver <out.ndjson> scenarios                                     the scenario library
//!        c01t_driver <out.ndjson> conflict-scenario                             probe of a suspected defect (not registered)
use h_wallet::chain::{Pool, TxReq};
use h_wallet::coins::{CoinWorld, class};
use h_wallet::run::Run;
use h_wallet::util::{NdjsonWriter, quiet_panics, seed_from_env};
use rand::{Rng, seq::SliceRandom};
use serde_json::json;

struct T<'a> {
    r: Run<'a>,
    cw: CoinWorld,
}

impl<'a> T<'a> {
    fn new(out: &'a mut NdjsonWriter, seed: u64, ironwood: bool, label: serde_json::Value) -> Self {
        let r = Run::new(out, seed, ironwood, label);
        let cw = CoinWorld::new(&r.w);
        let mut t = T { r, cw };
        t.chk();
        t
    }

    /// the coin projection after a shielded operation
    fn chk(&mut self) {
        let coins = self.cw.project(&self.r.w);
        self.r.out.emit(&json!({"a": "coinchk", "coins": coins}));
    }

    fn rel(&self, h: Option<u32>) -> i64 {
        h.map(|h| self.r.w.rel(h)).unwrap_or(-1)
    }

    fn utxo(&mut self, c: u32, h: Option<u32>) -> bool {
        let res = self.cw.report(&mut self.r.w, c, h);
        let (cl, e) = class(&res);
        let coin = self.cw.coins[&c].clone();
        let post = self.r.post();
        let coins = self.cw.project(&self.r.w);
        self.r.out.emit(&json!({"a": "utxo", "c": c, "t": coin.tx, "v": coin.value, "acct": coin.acct, "h": self.rel(h),
                                "res": cl, "err": e, "post": post, "coins": coins}));
        self.r.aborted |= cl == "panic";
        cl == "ok"
    }

    fn fulltx(&mut self, t: u32, h: Option<u32>) -> bool {
        let res = self.cw.store(&mut self.r.w, t, h);
        let (cl, e) = class(&res);
        let tx = self.cw.txs[&t].clone();
        let post = self.r.post();
        let coins = self.cw.project(&self.r.w);
        let ins: Vec<u32> = tx.ins.iter().copied().filter(|c| *c != 0).collect();
        let outs: Vec<serde_json::Value> = tx.outs.iter().map(|(c, v, a)| json!([c, v, a])).collect();
        let exp = if tx.expiry == 0 { 0 } else { self.r.w.rel(tx.expiry) };
        self.r.out.emit(&json!({"a": "fulltx", "t": t, "ins": ins, "nforeign": tx.ins.iter().filter(|c| **c == 0).count(), "outs": outs,
                                "h": self.rel(h), "e": exp, "res": cl, "err": e, "post": post, "coins": coins}));
        self.r.aborted |= cl == "panic";
        cl == "ok"
    }

    fn status(&mut self, t: u32, h: u32) -> bool {
        let res = self.cw.status_mined(&mut self.r.w, t, h);
        let (cl, e) = class(&res);
        let post = self.r.post();
        let coins = self.cw.project(&self.r.w);
        self.r.out.emit(&json!({"a": "txstatus", "t": t, "h": self.r.w.rel(h), "res": cl, "err": e, "post": post, "coins": coins}));
        self.r.aborted |= cl == "panic";
        cl == "ok"
    }

    // shielded operations, each followed by the coin projection
    fn empties(&mut self, k: u32) {
        self.r.empties(k);
        self.chk();
    }
    fn tip(&mut self, h: u32) {
        self.r.tip(h);
        self.chk();
    }
    fn tip_top(&mut self) {
        self.r.tip_top();
        self.chk();
    }
    fn scan(&mut self, from: u32, n: usize) -> bool {
        let ok = self.r.scan(from, n);
        self.chk();
        ok
    }
    fn trunc(&mut self, req: u32, fork: bool) -> Option<u32> {
        let to = self.r.trunc(req, fork);
        self.chk();
        to
    }
    fn recv(&mut self, pool: Pool, v: u64) {
        self.r.recv(pool, v, false);
        self.chk();
    }
    /// `k` blocks, the tip moved over each of them one by one (so every height is a balance observation)
    fn walk(&mut self, k: u32) {
        for _ in 0..k {
            self.r.empties(1);
            self.r.tip_top();
            self.chk();
        }
    }
    fn wtip(&self) -> u32 {
        self.r.w.tip().unwrap_or(self.r.chain.base)
    }
    /// a few blocks with a note each, scanned: rewinds have heights to settle on
    fn prelude(&mut self, blocks: u32) {
        for i in 0..blocks {
            self.recv(if i % 2 == 0 { Pool::Sapling } else { Pool::Orchard }, 50_000 + i as u64);
        }
        self.tip_top();
        self.scan(self.r.abs(1), blocks as usize);
    }
}

// -------------------------------------------------------------------------------------------
// scenario library: each is one history

fn scenarios(out: &mut NdjsonWriter) {
    let mut id = 5000u64;

    // A: a coin reported below / at / above the tip starts counting when the tip reaches its height; dust boundary values
    for &(acct, v) in &[(1u32, 60_000u64), (2, 5_000), (1, 5_001), (2, 4_999)] {
        id += 1;
        let mut t = T::new(out, id, false, json!(format!("tA acct={acct} v={v}")));
        // before the wallet knows a tip both operations are refused
        let c0 = t.cw.new_utxo(&mut t.r.rng, acct, v);
        t.utxo(c0, Some(t.r.abs(1)));
        t.prelude(3); // (no balance is reported before something was scanned)
        t.empties(3);
        t.tip(t.r.abs(4));
        // the first coin alone (so the dust boundary is observed on a single coin), then more at / below / above the tip
        for dh in [4u32, 2, 5, 6] {
            let c = t.cw.new_utxo(&mut t.r.rng, acct, v + dh as u64 - 4);
            t.utxo(c, Some(t.r.abs(dh)));
        }
        let cu = t.cw.new_utxo(&mut t.r.rng, acct, v);
        t.utxo(cu, None); // seen unmined: never counted until a height is reported
        t.tip(t.r.abs(5));
        t.tip(t.r.abs(6));
        t.utxo(cu, Some(t.r.abs(6)));
        t.utxo(c0, Some(t.r.abs(1)));
        t.utxo(c0, Some(t.r.abs(1))); // repeated report
    }

    // B: the spender arrives before the coin (either mined or unmined, expiry 0 / concrete), the coin is reported later;
    // then the tip walks across the expiry height
    for &(mined, never, acct) in &[(false, false, 1u32), (false, true, 1), (true, false, 2), (true, true, 2), (false, false, 2)] {
        id += 1;
        let mut t = T::new(out, id, false, json!(format!("tB mined={mined} never={never} acct={acct}")));
        t.prelude(3);
        t.empties(4);
        t.tip_top(); // tip = 7
        let c1 = t.cw.new_utxo(&mut t.r.rng, acct, 80_000);
        let exp = if never { 0 } else { t.r.abs(12) };
        // S1 spends c1 and pays change to the other account and a foreign address
        let s1 = t.cw.new_tx(&mut t.r.rng, &[c1], 0, &[(3 - acct, 30_000), (0, 49_000)], exp);
        t.fulltx(s1, if mined { Some(t.r.abs(6)) } else { None });
        // S0 spends c1 too but concerns the wallet in no other way: the wallet cannot know, and drops it
        let s0 = t.cw.new_tx(&mut t.r.rng, &[c1], 1, &[(0, 70_000)], exp);
        t.fulltx(s0, None);
        t.utxo(c1, Some(t.r.abs(5)));
        t.walk(7); // tip 8 .. 14: across expiry 12
        if !mined {
            // finally mined (if it can still be): the change counts again, the coin stays spent
            if never { t.fulltx(s1, Some(t.r.abs(13))); }
        }
        t.r.catch_up_and_fresh();
        t.chk();
    }

    // C: the coin first, then its spender; a rewind below the spender's height un-mines it (its expiry decides from then on),
    // a rewind below the coin's height un-mines a reported coin (no expiry on record: it stops counting until reported again)
    for &(acct, never) in &[(1u32, false), (2, true)] {
        id += 1;
        let mut t = T::new(out, id, false, json!(format!("tC acct={acct} never={never}")));
        t.prelude(8); // blocks 1..8 scanned, tip 8
        let c1 = t.cw.new_utxo(&mut t.r.rng, acct, 90_000);
        let c2 = t.cw.new_utxo(&mut t.r.rng, acct, 3_000);
        let c3 = t.cw.new_utxo(&mut t.r.rng, acct, 2_500);
        t.utxo(c1, Some(t.r.abs(4)));
        t.utxo(c2, Some(t.r.abs(7)));
        t.utxo(c3, Some(t.r.abs(7))); // two dust coins
        let exp = if never { 0 } else { t.r.abs(20) };
        let s1 = t.cw.new_tx(&mut t.r.rng, &[c1], 0, &[(acct, 40_000), (0, 49_000)], exp);
        t.fulltx(s1, Some(t.r.abs(7)));
        t.trunc(t.r.abs(6), true); // below the spender and the dust coins
        t.utxo(c2, Some(t.r.abs(7))); // re-mined in the new chain, reported above the tip
        t.r.recv(Pool::Sapling, 61_000, false);
        t.chk();
        t.r.recv(Pool::Orchard, 62_000, false);
        t.chk();
        t.tip_top();
        t.scan(t.r.abs(7), 2);
        t.trunc(t.r.abs(3), false); // below the coin
        t.utxo(c1, Some(t.r.abs(4)));
        t.walk(3);
        t.fulltx(s1, Some(t.r.abs(9)));
        t.walk(18); // across expiry 20
        t.r.catch_up_and_fresh();
        t.chk();
    }

    // F: coins and a spender mined at heights the wallet has NOT scanned (transparent transactions need no scanned block);
    // a rewind below them un-mines them all the same; the new chain grows past their old heights; a height-less report of
    // a mined coin must not un-mine it
    for &acct in &[1u32, 2] {
        id += 1;
        let mut t = T::new(out, id, false, json!(format!("tF unscanned heights acct={acct}")));
        t.prelude(3);
        t.empties(5);
        t.tip_top(); // tip 8, blocks 4..8 not scanned
        let c1 = t.cw.new_utxo(&mut t.r.rng, acct, 70_000);
        let c2 = t.cw.new_utxo(&mut t.r.rng, acct, 4_000);
        t.utxo(c1, Some(t.r.abs(5)));
        t.utxo(c2, Some(t.r.abs(7)));
        t.utxo(c2, None);
        let e30 = t.r.abs(30);
        let s1 = t.cw.new_tx(&mut t.r.rng, &[c1], 0, &[(acct, 20_000), (0, 49_000)], e30);
        t.fulltx(s1, Some(t.r.abs(7)));
        t.trunc(t.r.abs(6), true); // settles on 3
        t.walk(6); // the new chain passes heights 5..9
        t.utxo(c1, Some(t.r.abs(6)));
        t.fulltx(s1, None);
        t.walk(2);
    }

    // G: unmined transactions whose mining the wallet learns from a status update (not from a second delivery)
    {
        id += 1;
        let mut t = T::new(out, id, false, json!("tG status updates"));
        t.prelude(3);
        t.empties(4);
        t.tip_top(); // tip 7
        let c1 = t.cw.new_utxo(&mut t.r.rng, 1, 90_000);
        t.utxo(c1, Some(t.r.abs(4)));
        let e10 = t.r.abs(10);
        let s1 = t.cw.new_tx(&mut t.r.rng, &[c1], 0, &[(2, 50_000), (0, 39_000)], e10);
        t.fulltx(s1, None);
        let s9 = t.cw.new_tx(&mut t.r.rng, &[], 1, &[(0, 1_000)], 0);
        t.status(s9, t.r.abs(5)); // a transaction the wallet has never heard of
        t.walk(2); // tip 9
        t.status(s1, t.r.abs(9)); // mined just before it would have expired
        t.walk(3); // tip 12: past the expiry height, the change still counts, the coin stays spent
        t.trunc(t.r.abs(3), true);
        t.walk(8); // un-mined by the rewind: the expiry height decides again
    }

    // D: a chain of unmined transactions (coin -> change -> change), delivered newest first
    {
        id += 1;
        let mut t = T::new(out, id, false, json!("tD chain newest first"));
        t.empties(5);
        t.tip_top();
        let c1 = t.cw.new_utxo(&mut t.r.rng, 1, 100_000);
        let (e8, e9) = (t.r.abs(8), t.r.abs(9));
        let s1 = t.cw.new_tx(&mut t.r.rng, &[c1], 0, &[(1, 70_000), (0, 29_000)], e9);
        let c2 = t.cw.txs[&s1].outs[0].0;
        let s2 = t.cw.new_tx(&mut t.r.rng, &[c2], 0, &[(2, 40_000), (0, 29_000)], 0);
        let c3 = t.cw.txs[&s2].outs[0].0;
        let s3 = t.cw.new_tx(&mut t.r.rng, &[c3], 0, &[(1, 4_000), (2, 5_000), (0, 30_000)], e8);
        t.fulltx(s3, None);
        t.fulltx(s2, None);
        t.fulltx(s1, None);
        t.utxo(c1, Some(t.r.abs(3)));
        t.walk(6);
        t.fulltx(s2, Some(t.r.abs(7)));
    }

    // E: two conflicting spenders of one coin, both stored before the coin
    for &first_mined in &[false, true] {
        id += 1;
        let mut t = T::new(out, id, false, json!(format!("tE conflict first_mined={first_mined}")));
        t.empties(6);
        t.tip_top();
        let c1 = t.cw.new_utxo(&mut t.r.rng, 1, 100_000);
        let e9 = t.r.abs(9);
        let s1 = t.cw.new_tx(&mut t.r.rng, &[c1], 0, &[(1, 70_000)], e9);
        let s2 = t.cw.new_tx(&mut t.r.rng, &[c1], 0, &[(2, 60_000)], 0);
        t.fulltx(s1, None);
        t.fulltx(s2, if first_mined { Some(t.r.abs(5)) } else { None });
        t.utxo(c1, Some(t.r.abs(2)));
        t.walk(5);
        t.fulltx(s2, Some(t.r.abs(10)));
    }
}

/// NOT part of the registered run (see notes/c01-coins-report.md, "conflicting spenders"): the minimal deterministic
/// history of the suspected defect - two conflicting spenders of a coin are both stored before the coin arrives; the
/// wallet links only the one mined first; a reorg replaces it by the other one, whose mining the wallet learns from a
/// UTXO report of its change; once the orphaned spender has expired the coin counts again although the wallet has the
/// full data of a mined transaction spending it.  Validated with CHECK_KNOWN_SPENDERS=1 the trace is rejected there.
fn conflict_scenario(out: &mut NdjsonWriter) {
    let mut t = T::new(out, 5900, false, json!("tK conflicting spenders, reorg"));
    t.prelude(8); // blocks 1..8 scanned, tip 8
    let c1 = t.cw.new_utxo(&mut t.r.rng, 1, 100_000);
    let e12 = t.r.abs(12);
    let s1 = t.cw.new_tx(&mut t.r.rng, &[c1], 0, &[(1, 60_000), (0, 39_000)], 0);
    let s2 = t.cw.new_tx(&mut t.r.rng, &[c1], 0, &[(2, 70_000), (0, 29_000)], e12);
    let c2 = t.cw.txs[&s1].outs[0].0;
    t.fulltx(s1, None);
    t.fulltx(s2, Some(t.r.abs(7)));
    t.utxo(c1, Some(t.r.abs(5)));
    t.trunc(t.r.abs(6), true); // S2 orphaned
    t.walk(3); // tip 9 on the new chain
    t.utxo(c2, Some(t.r.abs(8))); // the new chain mined S1: its change is reported as a UTXO at height 8
    t.walk(5); // tip 14: past S2's expiry
}

// -------------------------------------------------------------------------------------------
// random histories

struct Walk {
    /// coins created but never delivered to the wallet yet
    undelivered: Vec<u32>,
    /// full transactions created but not stored yet
    unstored: Vec<u32>,
    last_from: u32,
}

fn coin_value(t: &mut T) -> u64 {
    match t.r.rng.gen_range(0..10) {
        0 => 5000,
        1 => 5001,
        2 => 4999 - t.r.rng.gen_range(0..6),
        3 => 1000 + t.r.rng.gen_range(0..3000),
        _ => 20_000 + 1_000 * t.r.rng.gen_range(0..300) + t.r.rng.gen_range(0..1000),
    }
}

/// a height to deliver something at: mostly around the wallet's tip (below, at, above)
fn some_height(t: &mut T) -> u32 {
    let base = t.r.chain.base;
    let tip = t.wtip().max(base + 1);
    match t.r.rng.gen_range(0..10) {
        0..=3 => tip,
        4..=5 => tip + t.r.rng.gen_range(1..4),
        6 => t.r.rng.gen_range(base + 1..=tip),
        _ => tip.saturating_sub(t.r.rng.gen_range(1..8)).max(base + 1),
    }
}

/// a delivery height the wallet's schema will accept for transaction `tx`: the one it has on record while it has one
fn height_for(t: &mut T, tx: u32, want: Option<u32>) -> Option<u32> {
    match t.cw.wallet_mined(&t.r.w, tx) {
        Some(Some(m)) => if want.is_some() { Some(m) } else { None },
        _ => {
            // mined at or below the expiry height
            let e = t.cw.txs[&tx].expiry;
            match want {
                Some(h) if e != 0 && h > e => if t.r.rng.gen_bool(0.5) { Some(e) } else { None },
                w => w,
            }
        }
    }
}

fn new_spender(t: &mut T, wk: &mut Walk) {
    let all: Vec<u32> = t.cw.coins.keys().copied().collect();
    if all.is_empty() {
        return;
    }
    // prefer coins nothing spends yet; sometimes a conflicting spend
    let spent: std::collections::BTreeSet<u32> = t.cw.txs.values().flat_map(|x| x.ins.iter().copied()).collect();
    let free: Vec<u32> = all.iter().copied().filter(|c| !spent.contains(c)).collect();
    let pool = if !free.is_empty() && t.r.rng.gen_bool(0.85) { free } else { all };
    let mut ins = vec![*pool.choose(&mut t.r.rng).unwrap()];
    if t.r.rng.gen_bool(0.25) {
        let c = *pool.choose(&mut t.r.rng).unwrap();
        if !ins.contains(&c) {
            ins.push(c);
        }
    }
    let foreign_ins = if t.r.rng.gen_bool(0.2) { 1 } else { 0 };
    let total: u64 = ins.iter().map(|c| t.cw.coins[c].value).sum();
    let mut outs = vec![];
    let mut left = total;
    match t.r.rng.gen_range(0..10) {
        0..=1 => {}                                             // pays nobody in the wallet
        2..=6 => {                                              // change to one account
            let v = (left / 2).max(1).min(coin_value(t).max(1)).min(left);
            outs.push((t.r.rng.gen_range(1..=2u32), v));
            left -= v;
        }
        _ => {                                                  // two wallet outputs
            for _ in 0..2 {
                let v = (left / 3).max(1).min(left);
                if v > 0 && left > 0 {
                    outs.push((t.r.rng.gen_range(1..=2u32), v));
                    left -= v;
                }
            }
        }
    }
    if left > 1000 && t.r.rng.gen_bool(0.7) {
        outs.push((0, left - 1000));
    }
    if outs.is_empty() {
        outs.push((0, total.saturating_sub(1000).max(1).min(total)));
    }
    let tip = t.wtip();
    let expiry = match t.r.rng.gen_range(0..10) { 0..=2 => 0, 3..=6 => tip + t.r.rng.gen_range(1..6), 7..=8 => tip + 40, _ => tip + t.r.rng.gen_range(6..45) };
    let uid = t.cw.new_tx(&mut t.r.rng, &ins, foreign_ins, &outs, expiry);
    for (c, _, _) in t.cw.txs[&uid].outs.clone() {
        wk.undelivered.push(c);
    }
    if t.r.rng.gen_bool(0.75) {
        let want = if t.r.rng.gen_bool(0.45) { Some(some_height(t)) } else { None };
        let h = height_for(t, uid, want);
        t.fulltx(uid, h);
    } else {
        wk.unstored.push(uid);
    }
}

fn coin_op(t: &mut T, wk: &mut Walk) {
    if t.r.w.tip().is_none() && t.r.rng.gen_bool(0.8) {
        return; // (sometimes the refusal without a tip is exercised)
    }
    match t.r.rng.gen_range(0..100) {
        // a new coin of a transaction the wallet only hears of through reports
        0..=21 => {
            let acct = if t.r.rng.gen_bool(0.35) { 2 } else { 1 };
            let v = coin_value(t);
            let c = t.cw.new_utxo(&mut t.r.rng, acct, v);
            if t.r.rng.gen_bool(0.75) {
                let h = if t.r.rng.gen_bool(0.1) { None } else { Some(some_height(t)) };
                t.utxo(c, h);
            } else {
                wk.undelivered.push(c); // reported later, perhaps after its spender
            }
        }
        // a new transaction spending coins (delivered or not) with or without wallet outputs
        22..=51 => new_spender(t, wk),
        // deliver something that was held back
        52..=66 => {
            if !wk.unstored.is_empty() && t.r.rng.gen_bool(0.5) {
                let i = t.r.rng.gen_range(0..wk.unstored.len());
                let uid = wk.unstored.remove(i);
                let want = if t.r.rng.gen_bool(0.5) { Some(some_height(t)) } else { None };
                let h = height_for(t, uid, want);
                t.fulltx(uid, h);
            } else if !wk.undelivered.is_empty() {
                let i = t.r.rng.gen_range(0..wk.undelivered.len());
                let c = wk.undelivered.remove(i);
                let tx = t.cw.coins[&c].tx;
                let want = if t.r.rng.gen_bool(0.1) { None } else { Some(some_height(t)) };
                let h = height_for(t, tx, want);
                t.utxo(c, h);
            }
        }
        // something the wallet has heard of already: again, or now mined, or re-mined after a rewind
        67..=84 => {
            let stored: Vec<u32> = t.cw.txs.iter().filter(|(u, x)| x.tx.is_some() && !wk.unstored.contains(u)).map(|(u, _)| *u).collect();
            if !stored.is_empty() && t.r.rng.gen_bool(0.55) {
                let uid = *stored.choose(&mut t.r.rng).unwrap();
                let want = if t.r.rng.gen_bool(0.7) { Some(some_height(t)) } else { None };
                let h = height_for(t, uid, want);
                t.fulltx(uid, h);
            } else {
                let known: Vec<u32> = t.cw.coins.keys().copied().filter(|c| !wk.undelivered.contains(c)).collect();
                if let Some(c) = known.choose(&mut t.r.rng).copied() {
                    let tx = t.cw.coins[&c].tx;
                    let want = if t.r.rng.gen_bool(0.1) { None } else { Some(some_height(t)) };
                    let h = height_for(t, tx, want);
                    t.utxo(c, h);
                }
            }
        }
        // the server answers a status request: a transaction the wallet has on record (or not) was mined
        85..=89 => {
            let uids: Vec<u32> = t.cw.txs.keys().copied().collect();
            if let Some(uid) = uids.choose(&mut t.r.rng).copied() {
                let want = Some(some_height(t));
                if let Some(h) = height_for(t, uid, want) {
                    t.status(uid, h);
                }
            }
        }
        // the tip walks forward block by block (across expiry heights)
        _ => {
            let k = *[1u32, 2, 3, 6, 12].choose(&mut t.r.rng).unwrap();
            t.walk(k);
        }
    }
}

fn shielded_op(t: &mut T, wk: &mut Walk, long_gaps: bool, gentle: bool) {
    let base = t.r.chain.base;
    let top = t.r.chain.top();
    let x = t.r.rng.gen_range(0..100);
    if x < 30 || top == base {
        let ntx = match t.r.rng.gen_range(0..10) { 0..=2 => 0, 3..=8 => 1, _ => 2 };
        let mut taken = vec![];
        let txs: Vec<TxReq> = (0..ntx).map(|_| t.r.random_tx(&mut taken)).collect();
        let remined = if !t.r.orphaned.is_empty() && t.r.rng.gen_bool(0.3) { vec![t.r.orphaned.remove(0)] } else { vec![] };
        t.r.block(&txs, &remined, true);
        t.chk();
    } else if x < 38 {
        let k = if long_gaps { *[3u32, 39, 40, 41, 99, 101].choose(&mut t.r.rng).unwrap() } else { t.r.rng.gen_range(1..6) };
        t.empties(k);
    } else if x < 52 {
        let h = if t.r.rng.gen_bool(0.7) { top } else { t.r.rng.gen_range(base + 1..=top) };
        t.tip(h);
    } else if x < 84 {
        let from = if t.r.rng.gen_bool(0.5) {
            let scanned = t.r.scanned();
            (base + 1..=top).find(|h| !scanned.contains(&t.r.w.rel(*h))).unwrap_or(t.r.rng.gen_range(base + 1..=top))
        } else {
            t.r.rng.gen_range(base + 1..=top)
        };
        let limit = match t.r.rng.gen_range(0..10) { 0..=3 => 1, 4..=6 => t.r.rng.gen_range(2..5), 7..=8 => t.r.rng.gen_range(5..30), _ => 250 };
        let last = (from + limit as u32 - 1).min(top);
        if t.r.w.tip().map(|tp| tp < last).unwrap_or(true) {
            t.tip(top);
        }
        if t.scan(from, limit) {
            wk.last_from = wk.last_from.max(from);
        }
    } else {
        let req = if gentle {
            let lo = wk.last_from.saturating_sub(1).max(base + 1).min(top);
            t.r.rng.gen_range(lo..=top)
        } else if t.r.rng.gen_bool(0.6) {
            top.saturating_sub(t.r.rng.gen_range(0..6)).max(base + 1)
        } else {
            t.r.rng.gen_range(base + 1..=top)
        };
        let fork = t.r.rng.gen_bool(0.7);
        if let Some(to) = t.trunc(req, fork) {
            wk.last_from = wk.last_from.min(to + 1);
        }
    }
}

fn random_history(t: &mut T, ops: usize) {
    let long_gaps = t.r.rng.gen_bool(0.25);
    let gentle = t.r.rng.gen_bool(0.6);
    let mut wk = Walk { undelivered: vec![], unstored: vec![], last_from: t.r.chain.base + 1 };
    for op_i in 0..ops {
        if t.r.aborted {
            return;
        }
        if op_i > 0 && op_i % 45 == 0 {
            t.r.catch_up_and_fresh();
            t.chk();
            continue;
        }
        if t.r.rng.gen_bool(0.5) {
            coin_op(t, &mut wk);
        } else {
            shielded_op(t, &mut wk, long_gaps, gentle);
        }
    }
    if !t.r.aborted {
        t.r.catch_up_and_fresh();
        t.chk();
    }
}

fn main() {
    quiet_panics();
    let args: Vec<String> = std::env::args().collect();
    let mut out = NdjsonWriter::create(&args[1]);
    if args[2] == "scenarios" {
        scenarios(&mut out);
    } else if args[2] == "conflict-scenario" {
        conflict_scenario(&mut out);
    } else {
        let histories: usize = args[2].parse().unwrap();
        let ops: usize = args[3].parse().unwrap();
        let ironwood = args.get(4).map(|s| s == "ironwood").unwrap_or(false);
        let seed = seed_from_env();
        for hist in 0..histories {
            let mut t = T::new(&mut out, seed.wrapping_mul(1_000_003).wrapping_add(7_000 + hist as u64), ironwood, json!(format!("t{hist}")));
            random_history(&mut t, ops);
        }
    }
    let n = out.finish();
    println!("{}", json!({"events": n}));
}
