//! C02 code -> spec driver: fault enumeration on the real SQLite wallet, recorded as a trace that
//! TLC validates against `spec/Wallet/TxnAtomic.tla`.
//!
//! The harness owns the `rusqlite::Connection` the wallet writes through (`WalletDb::from_connection`
//! over `&mut Connection`, file-backed database) and a second connection to the same file. On the
//! writer's connection it installs SQLite's own instrumentation (no hook in /repo):
//!   * `progress_handler(1, ..)`: counts VM steps; returning `true` at step k makes the running
//!     statement fail with `SQLITE_INTERRUPT` (the injected fault);
//!   * `commit_hook` / `rollback_hook` / `update_hook`: commit attempts, rollbacks, rows changed;
//!   * `sqlite3_trace_v2(SQLITE_TRACE_STMT)`: statement starts (BEGIN / write / read, autocommit or not).
//! From inside the writer's progress callback a reader on the second connection takes the canonical
//! dump (one read transaction) and `get_wallet_summary`; copies of the database files taken inside
//! the commit hook / at the fault / after the call are reopened fresh (crash images).
//!
//! The driver only records observations; every judgement is made by the specification.
//!
//! usage: c02_driver <out.ndjson> <workdir> <quick|thorough|self>
//! env:   VERIF_SEED, C02_ONLY="<state>/<op>[/<k>]" (restrict to one group / one fault position)
use std::collections::{BTreeMap, BTreeSet};
use std::ffi::{CStr, c_char, c_int, c_uint, c_void};
use std::path::{Path, PathBuf};
use std::sync::{Arc, Mutex};
use std::time::{Duration, SystemTime};

use h_wallet::chain::{Chain, Keys, OutReq, Pool, Source, TxReq};
use h_wallet::util::{NdjsonWriter, guarded, quiet_panics, seed_from_env};
use h_wallet::wallet::network;
use incrementalmerkletree::Hashable as _;
use rand::{Rng, SeedableRng, seq::SliceRandom};
use rand_chacha::ChaChaRng;
use rusqlite::{Connection, ffi, types::ValueRef};
use secrecy::SecretVec;
use serde_json::{Value, json};
use zcash_client_backend::data_api::{
    AccountBirthday, AccountPurpose, OutputLockStore, SentTransaction, SentTransactionOutput, WalletCommitmentTrees, WalletRead, WalletWrite,
    chain::{ChainState, CommitmentTreeRoot, scan_cached_blocks},
    TransactionStatus,
    scanning::ScanPriority,
    testing::single_output_change_strategy,
    wallet::{
        ConfirmationsPolicy, SpendingKeys, TargetHeight, create_proposed_transactions, decrypt_and_store_transaction, propose_transfer,
        input_selection::{GreedyInputSelector, SpendPolicy},
    },
};
use zcash_client_backend::wallet::{LockOwner, Note, OutputRef, OvkPolicy, Recipient};
use zcash_client_backend::{TransferType, decrypt_transaction, fees::StandardFeeRule};
use zcash_keys::keys::{UnifiedFullViewingKey, UnifiedSpendingKey};
use zcash_primitives::transaction::Transaction;
use zcash_protocol::ShieldedPool;
use shardtree::store::ShardStore as _;
use zcash_client_sqlite::{AccountUuid, WalletDb, util::testing::FixedClock, wallet::init::init_wallet_db};
use zcash_primitives::{block::BlockHash, transaction::TxId};
use zcash_protocol::{
    PoolType,
    consensus::{BlockHeight, NetworkUpgrade, Parameters},
    local_consensus::LocalNetwork,
};

use zcash_client_sqlite::pool_migration::orchard_ironwood::PoolMigrations;
use zcash_pool_migration::denomination::DenominationPlan;
use zcash_pool_migration::engine::{
    MigrationLockOwner, MigrationState, MigrationStatus, MigrationTransaction, MigrationTransferId, MigrationTxKind,
    MigrationTxState, PoolMigrationRead, PoolMigrationWrite, ProvedTransaction,
};
use zcash_pool_migration::preparation::{PrepInput, PrepOutput, PrepTransaction, PreparationPlan};
use zcash_pool_migration::satisfiability::ReplanThreshold;
use zcash_pool_migration::scheduling::AnchorBucketInterval;
use zcash_protocol::value::Zatoshis;

type Net = LocalNetwork;

thread_local! { static TIMES: std::cell::RefCell<BTreeMap<&'static str, (u64, u128)>> = std::cell::RefCell::new(BTreeMap::new()); }
fn timed<T>(k: &'static str, f: impl FnOnce() -> T) -> T {
    let t = std::time::Instant::now();
    let r = f();
    let d = t.elapsed().as_micros();
    TIMES.with(|m| { let mut m = m.borrow_mut(); let e = m.entry(k).or_insert((0, 0)); e.0 += 1; e.1 += d; });
    r
}

fn clock() -> FixedClock {
    FixedClock::new(SystemTime::UNIX_EPOCH + Duration::from_secs(1_740_441_600))
}

fn open(path: &Path) -> Connection {
    let c = Connection::open(path).expect("open database");
    rusqlite::vtab::array::load_module(&c).expect("array module");
    // never wait for a lock: a refused lock is an immediate SQLITE_BUSY (the harness is single-threaded)
    c.busy_timeout(Duration::ZERO).expect("busy_timeout");
    // durability against power loss is SQLite's business (trusted base); do not wait for the disk
    c.execute_batch("PRAGMA synchronous = OFF").expect("synchronous");
    c
}

fn wdb(conn: &mut Connection, net: Net, rng_seed: u64) -> WalletDb<&mut Connection, Net, FixedClock, ChaChaRng> {
    WalletDb::from_connection(conn, net, clock(), ChaChaRng::seed_from_u64(rng_seed))
}

// ------------------------------------------------------------------------------------------------
// canonical dump

/// Columns holding freshly drawn random identifiers (compared up to renaming: the row's integer key
/// identifies it).
const RANDOM_COLUMNS: &[(&str, &str)] = &[("accounts", "uuid"), ("orchard_ironwood_migrations", "uuid")];

fn short(h: &blake2b_simd::Hash) -> String {
    hex::encode(&h.as_bytes()[..10])
}

/// The result of one canonical dump: digest of the whole, one digest per table, and the cross-table facts
/// (`invariants`) computed in the same read transaction.
struct Dump {
    dig: String,
    per: BTreeMap<String, String>,
    inv: Value,
}

/// The facts of a content nothing is known about (no dump could be taken).
fn inv_unknown() -> Value {
    json!({"unknown": true})
}

/// Cross-table facts of a committed wallet database (the specification's `Sound`): nothing the wallet derived
/// from scanned blocks lies above the height the scan queue extends to (the wallet's view of the chain tip;
/// vacuous while the queue is empty).  Scanning a block extends the queue over it before anything else is
/// stored for it; a truncation / rewind trims the queue, un-mines the transactions, truncates the trees and
/// deletes the block rows and tx locators above the height in one database transaction.
fn invariants(conn: &Connection) -> Result<Value, String> {
    const TIP: &str = "(SELECT MAX(block_range_end) - 1 FROM scan_queue)";
    let q = |sql: String| -> Result<bool, String> { conn.query_row(&sql, [], |r| r.get::<_, bool>(0)).map_err(|e| e.to_string()) };
    Ok(json!({
        "blocks_le_tip": q(format!("SELECT NOT EXISTS (SELECT 1 FROM blocks WHERE height > {TIP})"))?,
        "checkpoints_le_tip": q(format!(
            "SELECT NOT EXISTS (SELECT 1 FROM sapling_tree_checkpoints WHERE checkpoint_id > {TIP})
                AND NOT EXISTS (SELECT 1 FROM orchard_tree_checkpoints WHERE checkpoint_id > {TIP})
                AND NOT EXISTS (SELECT 1 FROM ironwood_tree_checkpoints WHERE checkpoint_id > {TIP})"
        ))?,
        "mined_le_tip": q(format!("SELECT NOT EXISTS (SELECT 1 FROM transactions WHERE mined_height > {TIP})"))?,
        "locators_le_tip": q(format!("SELECT NOT EXISTS (SELECT 1 FROM tx_locator_map WHERE block_height > {TIP})"))?,
    }))
}

/// Every table (rows sorted by their full content, random identifiers blanked), read in one
/// transaction. Returns the digest of the whole, one digest per table and the cross-table facts.
fn dump(conn: &Connection) -> Result<Dump, String> {
    conn.execute_batch("BEGIN").map_err(|e| format!("begin: {e}"))?;
    let r = dump_in_txn(conn).and_then(|(dig, per)| Ok(Dump { dig, per, inv: invariants(conn)? }));
    let _ = conn.execute_batch("COMMIT");
    r
}

fn dump_in_txn(conn: &Connection) -> Result<(String, BTreeMap<String, String>), String> {
    let e = |e: rusqlite::Error| e.to_string();
    let tables: Vec<String> = {
        let mut s = conn.prepare_cached("SELECT name FROM sqlite_master WHERE type = 'table' ORDER BY name").map_err(e)?;
        let v = s.query_map([], |r| r.get::<_, String>(0)).map_err(e)?.collect::<Result<Vec<_>, _>>().map_err(e)?;
        v
    };
    let mut all = blake2b_simd::Params::new().hash_length(16).to_state();
    let mut per = BTreeMap::new();
    for t in tables {
        let mut stmt = conn.prepare_cached(&format!("SELECT * FROM \"{t}\"")).map_err(e)?;
        let names: Vec<String> = stmt.column_names().iter().map(|s| s.to_string()).collect();
        let blank: Vec<bool> = names.iter().map(|c| RANDOM_COLUMNS.iter().any(|(tt, cc)| *tt == t && cc == c)).collect();
        let mut rows: Vec<Vec<u8>> = vec![];
        let mut q = stmt.query([]).map_err(e)?;
        while let Some(r) = q.next().map_err(e)? {
            let mut buf = vec![];
            for (i, b) in blank.iter().enumerate() {
                if *b {
                    buf.push(9);
                    continue;
                }
                match r.get_ref(i).map_err(e)? {
                    ValueRef::Null => buf.push(0),
                    ValueRef::Integer(v) => {
                        buf.push(1);
                        buf.extend_from_slice(&v.to_le_bytes());
                    }
                    ValueRef::Real(v) => {
                        buf.push(2);
                        buf.extend_from_slice(&v.to_le_bytes());
                    }
                    ValueRef::Text(v) => {
                        buf.push(3);
                        buf.extend_from_slice(&(v.len() as u64).to_le_bytes());
                        buf.extend_from_slice(v);
                    }
                    ValueRef::Blob(v) => {
                        buf.push(4);
                        buf.extend_from_slice(&(v.len() as u64).to_le_bytes());
                        buf.extend_from_slice(v);
                    }
                }
            }
            rows.push(buf);
        }
        rows.sort();
        let mut h = blake2b_simd::Params::new().hash_length(16).to_state();
        h.update(&(rows.len() as u64).to_le_bytes());
        for r in &rows {
            h.update(&(r.len() as u64).to_le_bytes());
            h.update(r);
        }
        let d = h.finalize();
        all.update(t.as_bytes());
        all.update(&[0]);
        all.update(d.as_bytes());
        per.insert(t, short(&d));
    }
    Ok((short(&all.finalize()), per))
}

/// `get_wallet_summary` through the public API on the given (second) connection, as a digest of its
/// content with accounts in a canonical order.
fn summary(conn: &Connection, net: Net) -> String {
    let r = guarded(|| {
        let db = WalletDb::from_connection(conn, net, clock(), ());
        db.get_wallet_summary(ConfirmationsPolicy::MIN)
    });
    match r {
        Err(_) => "panic".into(),
        Ok(Err(e)) => {
            let s = format!("{e:?}");
            if s.contains("DatabaseBusy") || s.contains("DatabaseLocked") { "busy".into() } else { format!("err:{}", s.chars().take(80).collect::<String>()) }
        }
        Ok(Ok(None)) => "none".into(),
        Ok(Ok(Some(s))) => {
            let mut accts: Vec<String> = s.account_balances().values().map(|b| format!("{b:?}")).collect();
            accts.sort();
            let text = format!(
                "{:?}|{:?}|{:?}|{}|{}|{}|{:?}",
                s.chain_tip_height(),
                s.fully_scanned_height(),
                s.progress(),
                s.next_sapling_subtree_index(),
                s.next_orchard_subtree_index(),
                s.next_ironwood_subtree_index(),
                accts
            );
            short(&blake2b_simd::Params::new().hash_length(16).hash(text.as_bytes()))
        }
    }
}

/// What a reader sees of the database at this moment: canonical dump (digest, per table, cross-table facts) and
/// wallet summary.
fn observe(conn: &Connection, net: Net) -> (Dump, String) {
    match dump(conn) {
        Ok(d) => (d, summary(conn, net)),
        Err(e) => {
            let busy = e.contains("locked") || e.contains("busy");
            (Dump { dig: if busy { "busy".into() } else { format!("err:{e}") }, per: BTreeMap::new(), inv: inv_unknown() }, "busy".into())
        }
    }
}

// ------------------------------------------------------------------------------------------------
// instrumentation of the writer's connection

#[derive(Clone, Debug)]
struct StmtRec {
    /// progress callbacks seen before this statement started
    step: u64,
    write: bool,
    sql: String,
}

struct Probe {
    net: Net,
    steps: u64,
    fault_at: u64,
    fired: bool,
    observe_at_fault: bool,
    crash_at_fault: bool,
    crash_at_commit: bool,
    reader: Option<Connection>,
    db_path: PathBuf,
    scratch: PathBuf,
    ncrash: u32,
    ev: Vec<Value>,
    // statements since the last flushed event
    st_n: u32,
    st_w: u32,
    st_aw: u32,
    rows: u32,
    record: bool,
    stmts: Vec<StmtRec>,
    /// rows changed (update hook) before the fault fired
    rows_before_fault: u32,
    total_rows: u32,
    /// the writer's connection is inside a transaction, as far as the events emitted so far say
    in_txn: bool,
    /// the running statement is BEGIN / COMMIT / ...; the autocommit flag when it started
    cur_ctl: bool,
    cur_rollback: bool,
    /// the commit hook fired inside the running statement (COMMIT, or a write in autocommit mode)
    cur_committed: bool,
    cur_auto: bool,
    skipped_ctl: bool,
    /// raw handle of the writer's connection (only `sqlite3_get_autocommit` is called on it)
    handle: usize,
}

impl Probe {
    /// The transaction state is read off the connection's autocommit flag (a BEGIN that failed, or one
    /// that no statement followed, is thereby seen for what it was).
    fn sync_txn(&mut self, autocommit: bool) {
        if !autocommit && !self.in_txn {
            self.flush();
            self.ev.push(json!({"a": "wbegin"}));
            self.in_txn = true;
        } else if autocommit && self.in_txn {
            // closed, and neither hook fired: a transaction that wrote nothing
            self.flush();
            self.ev.push(json!({"a": "wend"}));
            self.in_txn = false;
        }
    }

    fn autocommit_now(&self) -> bool {
        unsafe { ffi::sqlite3_get_autocommit(self.handle as *mut ffi::sqlite3) != 0 }
    }

    fn flush(&mut self) {
        if self.st_n > 0 || self.rows > 0 {
            self.ev.push(json!({"a": "wstmt", "n": self.st_n, "w": self.st_w, "aw": self.st_aw, "rows": self.rows}));
            self.st_n = 0;
            self.st_w = 0;
            self.st_aw = 0;
            self.rows = 0;
        }
    }

    fn on_stmt(&mut self, sql: &str, readonly: bool, autocommit: bool) {
        let head: String = sql.trim_start().chars().take(12).collect::<String>().to_ascii_uppercase();
        if head.starts_with("--") {
            return; // trigger body
        }
        if self.record {
            let ctl = head.starts_with("BEGIN") || head.starts_with("COMMIT") || head.starts_with("ROLLBACK") || head.starts_with("END");
            self.stmts.push(StmtRec { step: self.steps, write: !readonly && !ctl, sql: sql.split_whitespace().collect::<Vec<_>>().join(" ").chars().take(110).collect() });
        }
        self.sync_txn(autocommit);
        self.cur_auto = autocommit;
        self.cur_rollback = head.starts_with("ROLLBACK");
        self.cur_committed = false;
        self.cur_ctl = head.starts_with("BEGIN") || head.starts_with("COMMIT") || head.starts_with("END") || head.starts_with("ROLLBACK") || head.starts_with("RELEASE") || head.starts_with("SAVEPOINT");
        if head.starts_with("BEGIN") || head.starts_with("COMMIT") || head.starts_with("END") || head.starts_with("ROLLBACK") || head.starts_with("RELEASE") || head.starts_with("SAVEPOINT") {
            // transaction control: seen through the autocommit flag and the commit / rollback hooks
        } else {
            self.st_n += 1;
            if !readonly {
                self.st_w += 1;
                if autocommit {
                    self.st_aw += 1;
                }
            }
        }
    }

    fn crash_image(&mut self, at: &str) {
        self.ncrash += 1;
        let dst = self.scratch.join(format!("crash{}.db", self.ncrash));
        copy_db(&self.db_path, &dst);
        let (dig, inv) = timed("crash_dump", || {
            let c = Connection::open(&dst).expect("open crash image");
            let _ = c.busy_timeout(Duration::ZERO);
            match dump(&c) {
                Ok(d) => (d.dig, d.inv),
                Err(e) => (format!("err:{e}"), inv_unknown()),
            }
        });
        remove_db(&dst);
        self.ev.push(json!({"a": "crash", "at": at, "dig": dig, "inv": inv}));
    }

    /// the progress callback: `true` interrupts the running statement
    fn on_step(&mut self) -> bool {
        self.steps += 1;
        if self.fault_at != 0 && self.steps == self.fault_at && !self.fired {
            let auto = self.autocommit_now();
            if self.cur_committed || (self.cur_ctl && (auto != self.cur_auto || self.cur_rollback)) {
                // (a) the last step of a BEGIN, of a COMMIT or of a write in autocommit mode that has already
                // taken effect (for the latter two: the commit hook fired inside this statement): SQLite would
                // report an error for a statement that ran to completion (an artefact of the progress handler,
                // not a failure such a statement can have); (b) a ROLLBACK: it is the recovery from
                // the error itself (rusqlite's `Transaction::drop` cannot report its failure; a connection
                // whose ROLLBACK was interrupted stays inside the transaction, whatever the wallet does).
                // No fault is injected at these steps.
                self.fired = true;
                self.skipped_ctl = true;
                return false;
            }
            self.sync_txn(auto);
            self.flush();
            if self.observe_at_fault {
                if let Some(r) = self.reader.as_ref() {
                    let (d, s) = timed("observe_cb", || observe(r, self.net));
                    self.ev.push(json!({"a": "rbegin"}));
                    self.ev.push(json!({"a": "rread", "kind": "dump", "val": d.dig, "inv": d.inv}));
                    self.ev.push(json!({"a": "rread", "kind": "summary", "val": s, "inv": inv_unknown()}));
                    self.ev.push(json!({"a": "rend"}));
                }
            }
            if self.crash_at_fault {
                self.crash_image("fault");
            }
            self.fired = true;
            self.rows_before_fault = self.total_rows;
            self.ev.push(json!({"a": "winterrupt", "k": self.steps}));
            return true;
        }
        false
    }
}

unsafe extern "C" fn trace_cb(mask: c_uint, ctx: *mut c_void, p: *mut c_void, x: *mut c_void) -> c_int {
    if mask != ffi::SQLITE_TRACE_STMT as c_uint {
        return 0;
    }
    unsafe {
        let probe = &*(ctx as *const Mutex<Probe>);
        let stmt = p as *mut ffi::sqlite3_stmt;
        let sql = if x.is_null() { "" } else { CStr::from_ptr(x as *const c_char).to_str().unwrap_or("") };
        let ro = ffi::sqlite3_stmt_readonly(stmt) != 0;
        let auto = ffi::sqlite3_get_autocommit(ffi::sqlite3_db_handle(stmt)) != 0;
        if let Ok(mut g) = probe.lock() {
            g.on_stmt(sql, ro, auto);
        }
    }
    0
}

fn install(conn: &Connection, probe: &Arc<Mutex<Probe>>) {
    let p = probe.clone();
    conn.progress_handler(1, Some(move || p.lock().map(|mut g| g.on_step()).unwrap_or(false)));
    let p = probe.clone();
    conn.commit_hook(Some(move || {
        if let Ok(mut g) = p.lock() {
            g.flush();
            if g.crash_at_commit {
                g.crash_image("commit-hook");
            }
            g.ev.push(json!({"a": "wcommit"}));
            g.in_txn = false;
            g.cur_committed = true;
        }
        false
    }));
    let p = probe.clone();
    conn.rollback_hook(Some(move || {
        if let Ok(mut g) = p.lock() {
            // a transaction no statement ran in (unless this is the rollback after a refused commit)
            let refused_commit = g.st_n == 0 && g.ev.last().map(|e| e["a"] == "wcommit").unwrap_or(false);
            if !refused_commit {
                g.sync_txn(false);
            }
            g.flush();
            g.ev.push(json!({"a": "wrollback"}));
            g.in_txn = false;
        }
    }));
    let p = probe.clone();
    conn.update_hook(Some(move |_a: rusqlite::hooks::Action, _db: &str, _t: &str, _r: i64| {
        if let Ok(mut g) = p.lock() {
            g.rows += 1;
            g.total_rows += 1;
        }
    }));
    unsafe {
        ffi::sqlite3_trace_v2(conn.handle(), ffi::SQLITE_TRACE_STMT as c_uint, Some(trace_cb), Arc::as_ptr(probe) as *mut c_void);
    }
}

fn uninstall(conn: &Connection) {
    conn.progress_handler(0, None::<fn() -> bool>);
    conn.commit_hook(None::<fn() -> bool>);
    conn.rollback_hook(None::<fn()>);
    conn.update_hook(None::<fn(rusqlite::hooks::Action, &str, &str, i64)>);
    unsafe {
        ffi::sqlite3_trace_v2(conn.handle(), 0, None, std::ptr::null_mut());
    }
}

fn side_files(p: &Path) -> Vec<PathBuf> {
    ["-journal", "-wal", "-shm"].iter().map(|s| PathBuf::from(format!("{}{}", p.display(), s))).collect()
}

fn remove_db(p: &Path) {
    let _ = std::fs::remove_file(p);
    for s in side_files(p) {
        let _ = std::fs::remove_file(s);
    }
}

/// Copies the database file and whatever journal / WAL files exist next to it.
fn copy_db(src: &Path, dst: &Path) {
    remove_db(dst);
    std::fs::copy(src, dst).expect("copy database");
    for (s, d) in side_files(src).into_iter().zip(side_files(dst)) {
        if s.exists() {
            std::fs::copy(&s, &d).expect("copy side file");
        }
    }
}

// ------------------------------------------------------------------------------------------------
// pre-states and operations

struct State {
    name: String,
    file: PathBuf,
    net: Net,
    wal: bool,
    chain: Chain,
    account: AccountUuid,
    /// heights: base (block before the birthday), highest scanned block, wallet's chain tip
    base: u32,
    scanned_to: u32,
    tip: u32,
    /// notes locked in the pre-state (owner PRE_OWNER)
    locked: Vec<u32>,
    /// a pool migration is persisted in the pre-state (variant 1: its preparation is mined in a scanned block)
    has_migration: bool,
    ufvk: UnifiedFullViewingKey,
    /// transactions the wallet itself created (each on its own scratch copy of this database: the pre-state has
    /// never seen them); each spends a note of the wallet and creates a change note (two payments of different
    /// amounts built independently from the same notes, as when a payment is built again)
    created: Vec<CreatedTx>,
    /// `Some((pool, h))`: the pool's note commitment tree retains checkpoints only above height h although the pool
    /// holds a note with a witness position mined at or below h (the state the crate documents for a pool whose
    /// post-migration rescan has only reached blocks near the tip): a rewind to h is refused half way
    refuses_rewind: Option<(Pool, u32)>,
}

/// A transaction built by `propose_transfer` + `create_proposed_transactions` from the wallet's own notes.
struct CreatedTx {
    tx: Transaction,
    /// the target height it was built for
    target: u32,
    fee: Zatoshis,
    /// the external recipient
    to: zcash_address::ZcashAddress,
    /// the pool that funded it (Sapling: mock provers; else a real Orchard proof was made)
    funded: &'static str,
}

const PRE_OWNER: [u8; 32] = [0x50; 32];

type Outcome = Result<Result<String, String>, String>;
type OpFn = Box<dyn Fn(&mut Connection, &State) -> Outcome>;

struct OpDef {
    name: String,
    run: OpFn,
}

fn opdef(name: &str, f: impl Fn(&mut Connection, &State) -> Outcome + 'static) -> OpDef {
    OpDef { name: name.to_string(), run: Box::new(f) }
}

fn cls<T, E: std::fmt::Debug>(r: Result<Result<T, E>, String>, show: impl Fn(&T) -> String) -> Outcome {
    match r {
        Err(p) => Err(p),
        Ok(Ok(v)) => Ok(Ok(show(&v))),
        Ok(Err(e)) => Ok(Err(format!("{e:?}").chars().take(160).collect())),
    }
}

fn recv(pool: Pool, value: u64) -> TxReq {
    TxReq { outs: vec![OutReq { pool, acct: 1, internal: false, diversified: false, value }], spends: vec![], foreign_spends: vec![] }
}

fn foreign(pool: Pool) -> TxReq {
    TxReq { outs: vec![OutReq { pool, acct: 0, internal: false, diversified: false, value: 12_345 }], spends: vec![], foreign_spends: vec![pool] }
}

fn spend(chain: &Chain, note: u32, change: u64) -> TxReq {
    let ni = &chain.notes[&note];
    let mut outs = vec![OutReq { pool: ni.pool, acct: 0, internal: false, diversified: false, value: ni.value - change - 10_000 }];
    if change > 0 {
        outs.push(OutReq { pool: ni.pool, acct: 1, internal: ni.pool != Pool::Sapling, diversified: false, value: change });
    }
    TxReq { outs, spends: vec![note], foreign_spends: vec![] }
}

fn pool_type(p: Pool) -> PoolType {
    match p {
        Pool::Sapling => PoolType::SAPLING,
        Pool::Orchard => PoolType::ORCHARD,
        Pool::Ironwood => PoolType::IRONWOOD,
    }
}

fn output_ref(chain: &Chain, note: u32) -> OutputRef {
    let ni = &chain.notes[&note];
    let txid = chain.tx_by_id.iter().find(|(_, u)| **u == ni.tx).map(|(t, _)| *t).expect("txid of note");
    OutputRef::new(TxId::from_bytes(txid), pool_type(ni.pool), ni.index)
}

/// Builds a wallet database file by a short history on the harness chain: `blocks` blocks with
/// receipts in every pool, spends with change and foreign traffic; the first `scan` are scanned.
#[allow(clippy::too_many_arguments)]
fn build_state(dir: &Path, name: &str, seed: u64, ironwood: bool, wal: bool, blocks: u32, scan: u32, migration: bool, with_tx: bool, refuse: Option<Pool>) -> State {
    let mut rng = ChaChaRng::seed_from_u64(seed);
    let net = network(ironwood);
    let file = dir.join(format!("{name}.db"));
    remove_db(&file);
    let mut conn = open(&file);
    if wal {
        let mode: String = conn.query_row("PRAGMA journal_mode = WAL", [], |r| r.get(0)).expect("journal_mode");
        assert_eq!(mode, "wal");
    }
    let base = u32::from(net.activation_height(NetworkUpgrade::Sapling).unwrap()) - 1;
    let (account, usk) = {
        let mut db = wdb(&mut conn, net, seed);
        init_wallet_db(&mut db, None).expect("init wallet db");
        let birthday = AccountBirthday::from_parts(ChainState::empty(BlockHeight::from(base), BlockHash([0; 32])), None);
        db.create_account("c02", &SecretVec::new(vec![7u8; 32]), &birthday, None).expect("create account")
    };
    let keys = vec![Keys::from_ufvk(&usk.to_unified_full_viewing_key())];
    let mut chain = Chain::new(base, keys, &mut rng, ironwood);
    let pools: Vec<Pool> = if ironwood { vec![Pool::Sapling, Pool::Orchard, Pool::Ironwood] } else { vec![Pool::Sapling, Pool::Orchard] };
    let mut value = 100_000u64;
    for i in 1..=blocks {
        let mut txs = vec![];
        let p = pools[(i as usize) % pools.len()];
        match i % 5 {
            1 | 2 => {
                value += 10_000;
                txs.push(recv(p, value));
                if i % 2 == 0 {
                    value += 10_000;
                    txs.push(recv(pools[(i as usize + 1) % pools.len()], value));
                }
            }
            3 => {
                txs.push(foreign(p));
                // spend the oldest spendable note, with change
                // (a long history grinds the change down: notes too small to pay the fabricated fee stay unspent)
                if let Some(n) = chain.spendable().into_iter().find(|n| { let v = chain.notes[n].value; v - v / 3 > 10_000 }) {
                    let v = chain.notes[&n].value;
                    txs.push(spend(&chain, n, v / 3));
                }
            }
            4 => {
                value += 10_000;
                txs.push(recv(p, value));
                if let Some(n) = chain.spendable().into_iter().filter(|n| chain.notes[n].value > 10_000).nth(1) {
                    txs.push(spend(&chain, n, 0));
                }
            }
            _ => {
                if rng.gen_bool(0.5) {
                    txs.push(foreign(p));
                }
            }
        }
        chain.extend(&net, &txs, &mut rng);
    }
    let tip = base + blocks;
    {
        let mut db = wdb(&mut conn, net, seed);
        db.update_chain_tip(BlockHeight::from(tip)).expect("update tip");
        if scan > 0 {
            let st = chain.state_at(base);
            scan_cached_blocks(&net, &Source(&chain), &mut db, BlockHeight::from(base + 1), &st, scan as usize).expect("scan");
        }
    }
    let ufvk = usk.to_unified_full_viewing_key();
    let mut st = State {
        name: name.to_string(), file: file.clone(), net, wal, chain, account, base, scanned_to: base + scan, tip, locked: vec![], has_migration: migration,
        ufvk, created: vec![], refuses_rewind: None,
    };
    // two notes are locked already
    let pre: Vec<u32> = lockable_notes(&st).into_iter().rev().take(2).collect();
    if pre.len() == 2 {
        let refs: Vec<OutputRef> = pre.iter().map(|n| output_ref(&st.chain, *n)).collect();
        wdb(&mut conn, net, seed).lock_outputs(&refs, LockOwner::new(PRE_OWNER), BlockHeight::from(tip + 20)).expect("pre-state locks");
        st.locked = pre;
    }
    if migration {
        // an Orchard note reserved by the migration's proved preparation, and the migration itself
        let orch: Vec<u32> = lockable_notes(&st).into_iter().filter(|n| st.chain.notes[n].pool == Pool::Orchard && !st.locked.contains(n)).collect();
        let held: Vec<u32> = orch.iter().take(2).copied().collect();
        assert!(!held.is_empty(), "the migration wallet holds an Orchard note to reserve");
        let refs: Vec<OutputRef> = held.iter().map(|n| output_ref(&st.chain, *n)).collect();
        wdb(&mut conn, net, seed).lock_outputs(&refs, LockOwner::new(MIG_TOKEN), BlockHeight::from(tip + 50)).expect("migration lock");
        st.locked.extend(held);
        let ms = migration_state(base, 1, base + scan - 1);
        PoolMigrations::for_account(net, clock(), &mut conn, account).and_then(|mut m| m.replace_migration(&ms)).expect("persist migration");
        let back = PoolMigrations::for_account(net, clock(), &conn, account).and_then(|m| m.get_migration()).expect("read migration");
        assert!(back.is_some());
    }
    if let Some(pool) = refuse {
        // The pool's tree loses every checkpoint at or below h (public API: WalletCommitmentTrees + ShardStore; no
        // sequence of scans / truncations reaches this state: see notes/c02-report.md), a note of the pool with a
        // witness position was mined at or below h.
        let h = base + 4;
        assert!(
            st.chain.blocks.range(..=h).flat_map(|(_, b)| b.txs.iter()).flat_map(|t| t.outs.iter()).any(|o| o.note > 0 && o.pool == pool),
            "the refusing pool holds a note mined at or below the rewind height"
        );
        let mut db = wdb(&mut conn, net, seed);
        let ids: Vec<BlockHeight> = (base..=h).map(BlockHeight::from).collect();
        match pool {
            Pool::Sapling => db.with_sapling_tree_mut(|t| { for id in &ids { t.store_mut().remove_checkpoint(id).map_err(shardtree::error::ShardTreeError::Storage)?; } Ok::<_, shardtree::error::ShardTreeError<zcash_client_sqlite::wallet::commitment_tree::Error>>(()) }).map(|_| ()).map_err(|e| format!("{e:?}")),
            Pool::Orchard => db.with_orchard_tree_mut(|t| { for id in &ids { t.store_mut().remove_checkpoint(id).map_err(shardtree::error::ShardTreeError::Storage)?; } Ok::<_, shardtree::error::ShardTreeError<zcash_client_sqlite::wallet::commitment_tree::Error>>(()) }).map(|_| ()).map_err(|e| format!("{e:?}")),
            Pool::Ironwood => db.with_ironwood_tree_mut(|t| { for id in &ids { t.store_mut().remove_checkpoint(id).map_err(shardtree::error::ShardTreeError::Storage)?; } Ok::<_, shardtree::error::ShardTreeError<zcash_client_sqlite::wallet::commitment_tree::Error>>(()) }).map(|_| ()).map_err(|e| format!("{e:?}")),
        }
        .expect("remove checkpoints");
        st.refuses_rewind = Some((pool, h));
    }
    drop(conn);
    assert!(side_files(&file).iter().all(|p| !p.exists()), "pre-state database closed cleanly");
    if with_tx {
        st.created = [20_000u64, 35_000].iter().filter_map(|amount| make_tx(dir, &st, &usk, seed, *amount)).collect();
        assert!(!st.created.is_empty(), "the wallet can create a transaction from the pre-state's notes");
    }
    st
}

/// A real wallet-created transaction: on a scratch COPY of the pre-state database the chain is cut back to the
/// scanned blocks (the pre-state's own tip lies above them: nothing would be spendable), a payment to a foreign
/// Sapling address is proposed and built, and the raw transaction read back. Funded from Sapling notes if the
/// wallet has enough of them (every other note is locked on the scratch copy; the Sapling provers are the crates'
/// mock provers), else from whatever the wallet selects (a real Orchard proof). The pre-state file is not touched.
fn make_tx(dir: &Path, st: &State, usk: &UnifiedSpendingKey, seed: u64, amount: u64) -> Option<CreatedTx> {
    let net = st.net;
    for sapling_only in [true, false] {
        let scratch = dir.join(format!("{}_tx.db", st.name));
        copy_db(&st.file, &scratch);
        let r = (|| -> Result<CreatedTx, String> {
            let mut conn = open(&scratch);
            let mut db = wdb(&mut conn, net, seed ^ 0x7c02 ^ amount);
            db.truncate_to_chain_state(st.chain.state_at(st.scanned_to)).map_err(|e| format!("cut back: {e:?}"))?;
            if sapling_only {
                let others: Vec<OutputRef> =
                    lockable_notes(st).into_iter().filter(|n| st.chain.notes[n].pool != Pool::Sapling && !st.locked.contains(n)).map(|n| output_ref(&st.chain, n)).collect();
                if !others.is_empty() {
                    db.lock_outputs(&others, LockOwner::new([0x60; 32]), BlockHeight::from(st.tip + 100)).map_err(|e| format!("lock: {e:?}"))?;
                }
            }
            let to = zcash_keys::address::Address::Sapling(st.chain.foreign.sapling.default_address().1).to_zcash_address(&net);
            let req = zip321::TransactionRequest::new(vec![zip321::Payment::without_memo(to.clone(), zat(amount))]).map_err(|e| format!("{e:?}"))?;
            let selector = GreedyInputSelector::new();
            let change = single_output_change_strategy(StandardFeeRule::Zip317, None, ShieldedPool::Sapling);
            let prop = propose_transfer::<_, _, _, _, std::convert::Infallible>(
                &mut db, &net, st.account, &selector, &change, req, ConfirmationsPolicy::MIN, &SpendPolicy::default(), None, None,
            )
            .map_err(|e| format!("propose: {e:?}"))?;
            if prop.steps().len() != 1 {
                return Err("multi-step proposal".into());
            }
            let step = prop.steps().first();
            let fee = step.balance().fee_required();
            let funded = match step.shielded_inputs().map(|i| i.notes().iter().all(|n| matches!(n.note(), Note::Sapling(_)))) {
                Some(true) => "sapling",
                _ => "mixed",
            };
            let target = u32::from(BlockHeight::from(prop.min_target_height()));
            let ids = create_proposed_transactions::<_, _, std::convert::Infallible, _, std::convert::Infallible, _>(
                &mut db, &net, &sapling::prover::mock::MockSpendProver, &sapling::prover::mock::MockOutputProver,
                &SpendingKeys::from_unified_spending_key(usk.clone()), OvkPolicy::Sender, &prop, None,
            )
            .map_err(|e| format!("create: {e:?}"))?;
            let tx = db.get_transaction(*ids.first()).map_err(|e| format!("{e:?}"))?.ok_or("created transaction not retrievable")?;
            Ok(CreatedTx { tx, target, fee, to, funded })
        })();
        remove_db(&scratch);
        match r {
            Ok(c) => return Some(c),
            Err(e) => {
                if std::env::var("C02_DEBUG").is_ok() {
                    eprintln!("make_tx({}, sapling_only={sapling_only}): {e}", st.name);
                }
            }
        }
    }
    None
}

/// The outputs of the created transaction as `create_proposed_transactions` would hand them to
/// `store_transactions_to_be_sent`, rebuilt by hand: what the account's outgoing viewing key recovers is the
/// payment to the external recipient, what its internal incoming viewing key decrypts is the change.
fn sent_outputs(s: &State, ct: &CreatedTx) -> Vec<SentTransactionOutput<AccountUuid>> {
    let ufvks = std::collections::HashMap::from([(s.account, s.ufvk.clone())]);
    let d = decrypt_transaction(&s.net, None, Some(BlockHeight::from(s.scanned_to)), &ct.tx, &ufvks);
    let mut outs = vec![];
    for o in d.sapling_outputs() {
        let recipient = match o.transfer_type() {
            TransferType::Outgoing => Recipient::External { recipient_address: ct.to.clone(), output_pool: PoolType::SAPLING },
            _ => Recipient::InternalShielded { receiving_account: s.account, external_address: None, note: Box::new(Note::Sapling(o.note().clone())) },
        };
        outs.push(SentTransactionOutput::from_parts(o.index(), recipient, o.note_value(), Some(o.memo().clone())));
    }
    for (list, pt) in [(d.orchard_outputs(), PoolType::ORCHARD), (d.ironwood_outputs(), PoolType::IRONWOOD)] {
        for o in list {
            let (note, pool) = *o.note();
            let recipient = match o.transfer_type() {
                TransferType::Outgoing => Recipient::External { recipient_address: ct.to.clone(), output_pool: pt },
                _ => Recipient::InternalShielded { receiving_account: s.account, external_address: None, note: Box::new(Note::Orchard { note, pool }) },
            };
            outs.push(SentTransactionOutput::from_parts(o.index(), recipient, zat(note.value().inner()), Some(o.memo().clone())));
        }
    }
    outs
}

const MIG_TOKEN: [u8; 32] = [0x77; 32];

fn zat(v: u64) -> Zatoshis {
    Zatoshis::from_u64(v).expect("amount")
}

/// A committed Orchard -> Ironwood migration of three transactions (one preparation, two transfers
/// depending on it), as the store persists it. `variant` 0: the preparation is proved (holds the note
/// lock MIG_TOKEN), transfers signed; 1: preparation mined at `mined`, first transfer broadcast.
fn migration_state(base: u32, variant: u8, mined: u32) -> MigrationState {
    migration_state_with(base, variant, mined, MigrationStatus::InProgress)
}

fn migration_state_with(base: u32, variant: u8, mined: u32, status: MigrationStatus) -> MigrationState {
    let cv = [200_000u64, 100_000];
    let total: u64 = cv.iter().sum();
    let denominations = DenominationPlan::from_stored_parts(
        cv.iter().copied().map(zat).collect(),
        zat(15_000),
        Some(zat(777)),
        zat(30_000),
        zat(total + 15_000 * cv.len() as u64 + 30_777),
        zat(total),
    )
    .expect("consistent stored plan");
    let preparation = PreparationPlan::from_parts(
        vec![vec![PrepTransaction::from_parts(
            vec![PrepInput::Wallet { index: 0, value: zat(total + 50_000) }],
            vec![PrepOutput::Funding(zat(total)), PrepOutput::Change(zat(777))],
        )]],
        vec![(1, zat(115_000))],
    );
    let tid = |i: u32| MigrationTransferId::new(i);
    let txid = |i: u8| TxId::from_bytes([0xA0 + i; 32]);
    let h = |d: u32| BlockHeight::from(base + d);
    let mut txs = vec![];
    for i in 0..3u32 {
        let kind = if i == 0 { MigrationTxKind::Preparation { layer: 0, index: 0 } } else { MigrationTxKind::Transfer { crossing: (i - 1) as usize } };
        let state = match (variant, i) {
            (0, 0) => MigrationTxState::Proved,
            (0, _) => MigrationTxState::Signed,
            (_, 0) => MigrationTxState::Mined { txid: txid(0), height: BlockHeight::from(mined) },
            (_, 1) => MigrationTxState::Broadcast { txid: txid(1) },
            _ => MigrationTxState::Proved,
        };
        let lock = match state {
            MigrationTxState::Signed | MigrationTxState::AwaitingSignature => None,
            // the proved, never-broadcast row holds the note reservation MIG_TOKEN
            MigrationTxState::Proved => Some(MigrationLockOwner::from_bytes(MIG_TOKEN)),
            _ => Some(MigrationLockOwner::from_bytes([0x78 + i as u8; 32])),
        };
        txs.push(MigrationTransaction::from_parts(
            tid(i),
            kind,
            vec![0xB0 + i as u8; 40 + i as usize],
            if i == 0 { vec![] } else { vec![tid(0)] },
            h(40 + i),
            h(200 + i),
            Some(h(10)),
            txid(i as u8),
            state,
            lock,
            None,
            vec![[i as u8 + 1; 32], [0x40 + i as u8; 32]],
            None,
        ));
    }
    MigrationState::from_parts(status, denominations, preparation, txs, AnchorBucketInterval::ZIP_318, ReplanThreshold::DEFAULT)
}

fn mig_ops(s: &State) -> Vec<OpDef> {
    let mut v = vec![];
    let base = s.base;
    let mined = s.scanned_to - 1;
    // persist a (new or changed) migration: the whole record in one transaction
    v.push(opdef("mig_replace", move |c, s| {
        let st = migration_state(base, if s.has_migration { 0 } else { 1 }, mined);
        cls(
            guarded(|| PoolMigrations::for_account(s.net, clock(), &mut *c, s.account).and_then(|mut m| m.replace_migration(&st))),
            |_| String::new(),
        )
    }));
    if s.has_migration {
        // the migration in flight (its proved, never-broadcast transaction holds the reservation MIG_TOKEN on
        // received-note rows) is persisted in a terminal status: the reservations are released and the record
        // rewritten by one call
        for (name, status) in [
            ("mig_terminal_superseded", MigrationStatus::Superseded),
            ("mig_terminal_cancelled", MigrationStatus::Cancelled),
            ("mig_terminal_failed", MigrationStatus::Failed),
        ] {
            v.push(opdef(name, move |c, s| {
                let st = migration_state_with(base, 1, mined, status);
                cls(
                    guarded(|| PoolMigrations::for_account(s.net, clock(), &mut *c, s.account).and_then(|mut m| m.replace_migration(&st))),
                    |_| String::new(),
                )
            }));
        }
        v.push(opdef("mig_update_tx", move |c, s| {
            let new_state = MigrationTxState::Mined { txid: TxId::from_bytes([0xA1; 32]), height: BlockHeight::from(mined) };
            cls(
                guarded(|| PoolMigrations::for_account(s.net, clock(), &mut *c, s.account).and_then(|mut m| m.update_transaction(MigrationTransferId::new(1), new_state))),
                |_| String::new(),
            )
        }));
        v.push(opdef("mig_cancel", move |c, s| {
            cls(guarded(|| PoolMigrations::for_account(s.net, clock(), &mut *c, s.account).and_then(|mut m| m.cancel_migration())), |o| format!("{o:?}"))
        }));
        v.push(opdef("mig_store_proved", move |c, s| {
            let mut st = migration_state(base, 1, mined);
            cls(
                guarded(|| {
                    PoolMigrations::for_account(s.net, clock(), &mut *c, s.account)
                        .and_then(|mut m| m.store_proved_transaction(&mut st, ProvedTransaction::from_parts(MigrationTransferId::new(2), vec![0xC1; 64])))
                }),
                |_| String::new(),
            )
        }));
    }
    v
}

fn scan_op(n: usize) -> OpDef {
    opdef(&format!("scan{n}"), move |c, s| {
        let from = s.scanned_to + 1;
        let st = s.chain.state_at(from - 1);
        let net = s.net;
        cls(
            guarded(|| {
                let mut db = wdb(c, net, 11);
                scan_cached_blocks(&net, &Source(&s.chain), &mut db, BlockHeight::from(from), &st, n)
            }),
            |sum| format!("{:?}", sum.scanned_range()),
        )
    })
}

/// Notes of the wallet that are mined in scanned blocks and unspent on the harness chain.
fn lockable_notes(s: &State) -> Vec<u32> {
    let mut v = vec![];
    let mut spent = BTreeSet::new();
    for (_, b) in s.chain.blocks.range(..=s.scanned_to) {
        for t in &b.txs {
            spent.extend(t.spends.iter().copied());
            for o in &t.outs {
                if o.note > 0 {
                    v.push(o.note);
                }
            }
        }
    }
    v.retain(|n| !spent.contains(n));
    v
}

/// Operations on the wallet whose tree refuses the rewind half way (no fault involved): the uninterrupted call is
/// an Err and must leave the database exactly as it was -- and whatever it returns, what it commits is Consistent.
fn refused_ops(s: &State) -> Vec<OpDef> {
    let (_, h) = s.refuses_rewind.expect("state with a refusing tree");
    let mut v = vec![];
    // the birthday rewind of a new account (birthday h + 1) is refused after the scan queue was trimmed and the
    // transactions above h un-mined
    v.push(opdef("create_account_refused", move |c, s| {
        let birthday = AccountBirthday::from_parts(s.chain.state_at(h), None);
        cls(guarded(|| wdb(c, s.net, 15).create_account("second", &SecretVec::new(vec![9u8; 32]), &birthday, None)), |_| String::new())
    }));
    v.push(opdef("import_ufvk_refused", move |c, s| {
        let birthday = AccountBirthday::from_parts(s.chain.state_at(h), None);
        let usk = UnifiedSpendingKey::from_seed(&s.net, &[0x33u8; 32], zip32::AccountId::ZERO).expect("usk");
        let ufvk = usk.to_unified_full_viewing_key();
        cls(guarded(|| wdb(c, s.net, 16).import_account_ufvk("imported", &ufvk, &birthday, AccountPurpose::ViewOnly, None)), |_| String::new())
    }));
    v.push(opdef("rewind_witness_refused", move |c, s| {
        let st = s.chain.state_at(h);
        cls(guarded(|| wdb(c, s.net, 22).rewind_to_chain_state(st, std::collections::HashSet::new())), |_| String::new())
    }));
    // the same wallet accepts an account whose birthday lies above the scanned blocks (nothing to rewind)
    v.push(opdef("create_account_above", |c, s| {
        let birthday = AccountBirthday::from_parts(ChainState::empty(BlockHeight::from(s.scanned_to + 2), BlockHash([0; 32])), None);
        cls(guarded(|| wdb(c, s.net, 15).create_account("second", &SecretVec::new(vec![9u8; 32]), &birthday, None)), |_| String::new())
    }));
    v
}

fn ops_for(s: &State) -> Vec<OpDef> {
    if s.refuses_rewind.is_some() {
        return refused_ops(s);
    }
    if s.has_migration {
        // the wallet with a migration in flight: the store's own writes, and the wallet writes that cascade into it
        let mut v = mig_ops(s);
        v.push(scan_op(3));
        v.extend(ops_common(s).into_iter().filter(|o| ["truncate", "delete_account", "clear_locks", "rewind"].contains(&o.name.as_str())));
        return v;
    }
    let mut v = vec![scan_op(1), scan_op(3), scan_op(12)];
    v.extend(mig_ops(s).into_iter().filter(|_| s.wal));
    v.extend(ops_common(s));
    v
}

fn ops_common(s: &State) -> Vec<OpDef> {
    let mut v = vec![];
    v.push(opdef("tip_up", |c, s| {
        let h = s.tip + 7;
        cls(guarded(|| wdb(c, s.net, 12).update_chain_tip(BlockHeight::from(h))), |_| String::new())
    }));
    v.push(opdef("tip_noop", |c, s| {
        let h = s.base + 2;
        cls(guarded(|| wdb(c, s.net, 12).update_chain_tip(BlockHeight::from(h))), |_| String::new())
    }));
    v.push(opdef("truncate", |c, s| {
        let h = s.scanned_to - 4;
        cls(guarded(|| wdb(c, s.net, 13).truncate_to_height(BlockHeight::from(h))), |h| format!("{}", u32::from(*h)))
    }));
    v.push(opdef("truncate_refused", |c, s| {
        // below the birthday: no checkpoint to rewind to
        let h = s.base - 5;
        cls(guarded(|| wdb(c, s.net, 13).truncate_to_height(BlockHeight::from(h))), |h| format!("{}", u32::from(*h)))
    }));
    v.push(opdef("create_account", |c, s| {
        let birthday = AccountBirthday::from_parts(ChainState::empty(BlockHeight::from(s.base + 3), BlockHash([0; 32])), None);
        cls(guarded(|| wdb(c, s.net, 15).create_account("second", &SecretVec::new(vec![9u8; 32]), &birthday, None)), |_| String::new())
    }));
    v.push(opdef("import_ufvk", |c, s| {
        let birthday = AccountBirthday::from_parts(ChainState::empty(BlockHeight::from(s.base + 2), BlockHash([0; 32])), None);
        let usk = zcash_keys::keys::UnifiedSpendingKey::from_seed(&s.net, &[0x33u8; 32], zip32::AccountId::ZERO).expect("usk");
        let ufvk = usk.to_unified_full_viewing_key();
        cls(guarded(|| wdb(c, s.net, 16).import_account_ufvk("imported", &ufvk, &birthday, AccountPurpose::ViewOnly, None)), |_| String::new())
    }));
    v.push(opdef("import_hd", |c, s| {
        let birthday = AccountBirthday::from_parts(ChainState::empty(BlockHeight::from(s.base + 2), BlockHash([0; 32])), None);
        cls(
            guarded(|| wdb(c, s.net, 16).import_account_hd("hd", &SecretVec::new(vec![0x44u8; 32]), zip32::AccountId::try_from(3).unwrap(), &birthday, None)),
            |_| String::new(),
        )
    }));
    v.push(opdef("delete_account", |c, s| cls(guarded(|| wdb(c, s.net, 17).delete_account(s.account)), |_| String::new())));
    v.push(opdef("queue_rescans", |c, s| {
        let r1 = BlockHeight::from(s.base + 2)..BlockHeight::from(s.base + 5);
        let r2 = BlockHeight::from(s.base + 7)..BlockHeight::from(s.base + 9);
        cls(guarded(|| wdb(c, s.net, 18).queue_rescans(nonempty::NonEmpty::from((r1, vec![r2])), ScanPriority::FoundNote)), |_| String::new())
    }));
    v.push(opdef("prune_queue", |c, s| {
        let h = s.scanned_to + 6;
        cls(guarded(|| wdb(c, s.net, 18).prune_scan_queue_below(BlockHeight::from(h), Some(ScanPriority::FoundNote))), |n| format!("{n}"))
    }));
    v.push(opdef("next_address", |c, s| {
        cls(
            guarded(|| wdb(c, s.net, 19).get_next_available_address(s.account, zcash_keys::keys::UnifiedAddressRequest::SHIELDED)),
            |a| format!("{}", a.is_some()),
        )
    }));
    // a transaction the wallet knows (it received a note in it): un-mine it, then mine it elsewhere
    if let Some(txid) = s.chain.blocks.range(..=s.scanned_to).flat_map(|(_, b)| b.txs.iter()).find(|t| t.outs.iter().any(|o| o.note > 0)).map(|t| t.txid) {
        v.push(opdef("tx_status_unmined", move |c, s| {
            cls(guarded(|| wdb(c, s.net, 20).set_transaction_status(TxId::from_bytes(txid), TransactionStatus::NotInMainChain)), |_| String::new())
        }));
        v.push(opdef("tx_status_mined", move |c, s| {
            let h = s.scanned_to - 1;
            cls(guarded(|| wdb(c, s.net, 20).set_transaction_status(TxId::from_bytes(txid), TransactionStatus::Mined(BlockHeight::from(h)))), |_| String::new())
        }));
    }
    v.push(opdef("subtree_roots", |c, s| {
        let roots: Vec<CommitmentTreeRoot<sapling::Node>> = (0..3u32)
            .map(|i| CommitmentTreeRoot::from_parts(BlockHeight::from(s.base + 1 + i), sapling::Node::empty_root(incrementalmerkletree::Level::from(16 + i as u8))))
            .collect();
        cls(guarded(|| wdb(c, s.net, 21).put_sapling_subtree_roots(1, &roots)), |_| String::new())
    }));
    // roots that would leave a gap after the shards the wallet has: refused (SubtreeDiscontinuity)
    v.push(opdef("subtree_roots_gap", |c, s| {
        let roots: Vec<CommitmentTreeRoot<sapling::Node>> = (0..2u32)
            .map(|i| CommitmentTreeRoot::from_parts(BlockHeight::from(s.base + 1 + i), sapling::Node::empty_root(incrementalmerkletree::Level::from(16 + i as u8))))
            .collect();
        cls(guarded(|| wdb(c, s.net, 21).put_sapling_subtree_roots(5, &roots)), |_| String::new())
    }));
    v.push(opdef("subtree_roots_orchard", |c, s| {
        use incrementalmerkletree::Hashable;
        let roots: Vec<CommitmentTreeRoot<orchard::tree::MerkleHashOrchard>> = (0..2u32)
            .map(|i| CommitmentTreeRoot::from_parts(BlockHeight::from(s.base + 1 + i), orchard::tree::MerkleHashOrchard::empty_root(incrementalmerkletree::Level::from(16 + i as u8))))
            .collect();
        cls(guarded(|| wdb(c, s.net, 21).put_orchard_subtree_roots(1, &roots)), |_| String::new())
    }));
    v.push(opdef("rewind", |c, s| {
        let st = s.chain.state_at(s.scanned_to - 3);
        cls(guarded(|| wdb(c, s.net, 22).rewind_to_chain_state(st, std::collections::HashSet::new())), |_| String::new())
    }));
    v.push(opdef("rewind_reset_birthday", |c, s| {
        // below the account's birthday, acknowledged: birthdays are lowered
        let st = ChainState::empty(BlockHeight::from(s.base - 2), BlockHash([0; 32]));
        let acct = s.account;
        cls(guarded(|| wdb(c, s.net, 22).rewind_to_chain_state(st, std::collections::HashSet::from([acct]))), |_| String::new())
    }));
    v.push(opdef("rewind_refused", |c, s| {
        let st = ChainState::empty(BlockHeight::from(s.base - 2), BlockHash([0; 32]));
        cls(guarded(|| wdb(c, s.net, 22).rewind_to_chain_state(st, std::collections::HashSet::new())), |_| String::new())
    }));
    v.push(opdef("truncate_chain_state", |c, s| {
        let st = s.chain.state_at(s.scanned_to - 2);
        cls(guarded(|| wdb(c, s.net, 23).truncate_to_chain_state(st)), |_| String::new())
    }));
    if let Some(locked) = s.locked.first().copied() {
        let r = output_ref(&s.chain, locked);
        v.push(opdef("unlock", move |c, s| cls(guarded(|| wdb(c, s.net, 24).unlock_output(&r, LockOwner::new(PRE_OWNER))), |b| format!("{b}"))));
        v.push(opdef("clear_locks", |c, s| cls(guarded(|| wdb(c, s.net, 24).clear_locked_outputs(s.account)), |n| format!("{n}"))));
    }
    if !s.created.is_empty() {
        // a transaction the wallet created elsewhere (this database has never seen it): it spends a note of the
        // wallet and pays change back to it
        v.push(opdef("store_decrypted_unmined", |c, s| {
            let ct = &s.created[0];
            cls(guarded(|| decrypt_and_store_transaction(&s.net, &mut wdb(c, s.net, 25), &ct.tx, None)), |_| String::new())
        }));
        v.push(opdef("store_decrypted_mined", |c, s| {
            let ct = &s.created[0];
            let h = BlockHeight::from(s.scanned_to - 1);
            cls(guarded(|| decrypt_and_store_transaction(&s.net, &mut wdb(c, s.net, 25), &ct.tx, Some(h))), |_| String::new())
        }));
        // every created transaction in ONE call (one database transaction for the whole batch)
        v.push(opdef("store_to_be_sent", |c, s| {
            let outputs: Vec<Vec<SentTransactionOutput<AccountUuid>>> = s.created.iter().map(|ct| sent_outputs(s, ct)).collect();
            assert!(outputs.iter().all(|o| o.len() >= 2), "payment and change recovered from every created transaction");
            let created = time::OffsetDateTime::from_unix_timestamp(1_740_441_600).expect("timestamp");
            cls(
                guarded(|| {
                    let sent: Vec<SentTransaction<AccountUuid>> = s
                        .created
                        .iter()
                        .zip(outputs.iter())
                        .map(|(ct, outs)| {
                            SentTransaction::new(
                                &ct.tx,
                                created,
                                TargetHeight::from(ct.target),
                                s.account,
                                outs,
                                ct.fee,
                                #[cfg(feature = "transparent")]
                                &[],
                            )
                        })
                        .collect();
                    wdb(c, s.net, 26).store_transactions_to_be_sent(&sent)
                }),
                |_| format!("{}", s.created.len()),
            )
        }));
    }
    let notes: Vec<u32> = lockable_notes(s).into_iter().filter(|n| !s.locked.contains(n)).collect();
    if notes.len() >= 3 {
        let refs: Vec<OutputRef> = notes.iter().take(3).map(|n| output_ref(&s.chain, *n)).collect();
        let r2 = refs.clone();
        v.push(opdef("lock3", move |c, s| {
            let exp = s.tip + 30;
            cls(guarded(|| wdb(c, s.net, 14).lock_outputs(&r2, LockOwner::new([0x51; 32]), BlockHeight::from(exp))), |n| format!("{n}"))
        }));
        // the third output does not exist: a mid-batch LockFailure must release the first two
        let mut bad = refs.clone();
        bad[2] = OutputRef::new(TxId::from_bytes([0xee; 32]), PoolType::SAPLING, 0);
        v.push(opdef("lock_fail", move |c, s| {
            let exp = s.tip + 30;
            cls(guarded(|| wdb(c, s.net, 14).lock_outputs(&bad, LockOwner::new([0x52; 32]), BlockHeight::from(exp))), |n| format!("{n}"))
        }));
    }
    v
}

// ------------------------------------------------------------------------------------------------
// one execution

struct Exec {
    res: String,
    steps: u64,
    stmts: Vec<StmtRec>,
    rows_before_fault: u32,
    fired: bool,
    commits: u32,
}

struct Runner<'a> {
    out: &'a mut NdjsonWriter,
    scratch: PathBuf,
    run_db: PathBuf,
    execs: u64,
    nontrivial: BTreeSet<String>,
    faults_fired: u64,
    faults_with_pending_rows: u64,
    panics: u64,
    samples: Vec<Value>,
    crash_images: u64,
    err_after_commit: u64,
    fault_absorbed_ok: u64,
    reader_interleavings: u64,
    /// fault positions at which no fault was injected (last step of a BEGIN / COMMIT / autocommit write that
    /// had taken effect; inside a ROLLBACK)
    skipped_positions: u64,
    /// which read supplies the second component of a content ("summary" unless a reader group says otherwise)
    sum_kind: String,
}

impl Runner<'_> {
    fn restore(&mut self, s: &State, emit: bool) {
        timed("restore", || copy_db(&s.file, &self.run_db));
        if emit {
            self.out.emit(&json!({"a": "restore"}));
        }
    }

    /// Runs `op` on the working copy with the probe installed and writes the events.
    #[allow(clippy::too_many_arguments)]
    fn exec(&mut self, s: &State, op: &OpDef, mode: &str, fault_at: u64, record: bool, crash: bool, pre: &BTreeMap<String, String>) -> Exec {
        let mut conn = timed("open", || open(&self.run_db));
        let reader = timed("open", || open(&self.run_db));
        let probe = Arc::new(Mutex::new(Probe {
            net: s.net,
            steps: 0,
            fault_at,
            fired: false,
            observe_at_fault: fault_at != 0,
            crash_at_fault: crash && fault_at != 0,
            crash_at_commit: crash,
            reader: Some(reader),
            db_path: self.run_db.clone(),
            scratch: self.scratch.clone(),
            ncrash: 0,
            ev: vec![],
            st_n: 0,
            st_w: 0,
            st_aw: 0,
            rows: 0,
            record,
            stmts: vec![],
            rows_before_fault: 0,
            total_rows: 0,
            in_txn: false,
            cur_ctl: false,
            cur_rollback: false,
            cur_committed: false,
            cur_auto: true,
            skipped_ctl: false,
            handle: unsafe { conn.handle() } as usize,
        }));
        self.out.emit(&json!({"a": "opstart", "op": op.name, "mode": mode, "fault": fault_at}));
        install(&conn, &probe);
        let r = timed("op", || (op.run)(&mut conn, s));
        uninstall(&conn);
        let auto = conn.is_autocommit();
        let mut g = probe.lock().unwrap();
        g.sync_txn(auto);
        g.flush();
        if g.skipped_ctl {
            g.fired = false;
            self.skipped_positions += 1;
        }
        if crash {
            g.crash_image("after");
        }
        let reader = g.reader.take().unwrap();
        // what is durable now (second connection) and what the writer's own connection sees
        let (Dump { dig, per, inv }, mut sum) = timed("observe_end", || observe(&reader, s.net));
        if self.sum_kind != "summary" {
            sum = reader_call(&self.sum_kind, &reader, s);
        }
        let wdig = match timed("wdump", || dump(&conn)) {
            Ok(d) => d.dig,
            Err(e) => format!("err:{e}"),
        };
        let (res, detail) = match &r {
            Ok(Ok(d)) => ("ok", d.clone()),
            Ok(Err(e)) => ("err", e.clone()),
            Err(p) => ("panic", p.chars().take(160).collect()),
        };
        if res == "panic" {
            self.panics += 1;
        }
        // attach the observed content to the last commit that took effect
        let mut events = std::mem::take(&mut g.ev);
        let mut commits = 0;
        let n = events.len();
        let mut last_commit = None;
        for i in 0..n {
            if events[i]["a"] == "wcommit" && !(i + 1 < n && events[i + 1]["a"] == "wrollback") {
                commits += 1;
                last_commit = Some(i);
            }
        }
        for (i, e) in events.iter_mut().enumerate() {
            if e["a"] == "wcommit" {
                if Some(i) == last_commit {
                    e["dig"] = json!(dig);
                    e["sum"] = json!(sum);
                    e["inv"] = inv.clone();
                } else {
                    e["dig"] = json!("?");
                    e["sum"] = json!("?");
                    e["inv"] = inv_unknown();
                }
            }
        }
        for e in &events {
            self.out.emit(e);
        }
        let chg: Vec<&String> = per.iter().filter(|(t, d)| pre.get(*t) != Some(*d)).map(|(t, _)| t).collect();
        let end = json!({"a": "opend", "res": res, "detail": detail, "auto": auto, "dig": dig, "sum": sum, "inv": inv, "wdig": wdig, "chg": chg, "steps": g.steps});
        self.out.emit(&end);
        self.execs += 1;
        self.crash_images += g.ncrash as u64;
        if res != "ok" && commits > 0 {
            self.err_after_commit += 1;
        }
        if res == "ok" && g.fired {
            self.fault_absorbed_ok += 1;
        }
        if g.fired {
            self.faults_fired += 1;
            if g.rows_before_fault > 0 {
                self.faults_with_pending_rows += 1;
                self.nontrivial.insert(format!("{}/{}/{}", s.name, op.name, fault_at));
            }
        }
        if self.samples.len() < 4 && g.fired && g.rows_before_fault > 0 {
            self.samples.push(json!({"state": s.name, "op": op.name, "fault_at_vm_step": fault_at, "rows_changed_before_fault": g.rows_before_fault,
                                     "events": events, "end": end}));
        }
        Exec { res: res.to_string(), steps: g.steps, stmts: std::mem::take(&mut g.stmts), rows_before_fault: g.rows_before_fault, fired: g.fired, commits }
    }
}

/// Fault positions for one operation: statement boundaries (the first step inside each statement and
/// the last step of the one before), the steps around the COMMIT, and seeded interior steps.
fn positions(ex: &Exec, opname: &str, quick: bool, rng: &mut ChaChaRng) -> Vec<u64> {
    let n = ex.steps;
    let mut set = BTreeSet::new();
    let mut bw: Vec<u64> = vec![];
    let mut br: Vec<u64> = vec![];
    for st in &ex.stmts {
        if st.write { bw.push(st.step + 1) } else { br.push(st.step + 1) }
    }
    // heavy operations (a scan re-hashes note commitment trees: 50-130 ms a run) get fewer positions in quick
    let heavy = opname.starts_with("scan");
    let (cap_w, cap_r, interior) = match (quick, heavy) {
        (true, true) => (10, 5, 16),
        (true, false) => (30, 15, 16),
        (false, true) => (500, 200, 400),
        (false, false) => (1500, 800, 1000),
    };
    // every distinct statement text of the operation: the first step of its first and of its last
    // execution, and a step in the middle of the first
    let mut first: BTreeMap<&str, usize> = BTreeMap::new();
    let mut last: BTreeMap<&str, usize> = BTreeMap::new();
    for (i, st) in ex.stmts.iter().enumerate() {
        first.entry(st.sql.as_str()).or_insert(i);
        last.insert(st.sql.as_str(), i);
    }
    for (sql, i) in &first {
        let st = &ex.stmts[*i];
        let next = ex.stmts.get(i + 1).map(|x| x.step).unwrap_or(n);
        set.insert(st.step + 1);
        set.insert(st.step + 1 + (next.saturating_sub(st.step + 1)) / 2);
        let l = &ex.stmts[last[sql]];
        set.insert(l.step + 1);
    }
    bw.shuffle(rng);
    br.shuffle(rng);
    for k in bw.into_iter().take(cap_w).chain(br.into_iter().take(cap_r)) {
        set.insert(k);
        if k > 1 {
            set.insert(k - 1);
        }
    }
    // first and last statements, and the last steps (the COMMIT)
    for st in ex.stmts.iter().take(6).chain(ex.stmts.iter().rev().take(6)) {
        set.insert(st.step + 1);
    }
    for d in 0..4 {
        if n > d {
            set.insert(n - d);
        }
    }
    for _ in 0..interior {
        if n > 0 {
            set.insert(rng.gen_range(1..=n));
        }
    }
    set.into_iter().filter(|k| *k >= 1 && *k <= n).collect()
}

// ------------------------------------------------------------------------------------------------
// the converse interleaving: the whole write operation runs at a chosen VM step of a snapshot read

struct RCount {
    steps: u64,
    bounds: Vec<u64>,
}

unsafe extern "C" fn rcount_progress(ctx: *mut c_void) -> c_int {
    unsafe { (*(ctx as *mut RCount)).steps += 1 };
    0
}

unsafe extern "C" fn rcount_trace(mask: c_uint, ctx: *mut c_void, _p: *mut c_void, _x: *mut c_void) -> c_int {
    if mask == ffi::SQLITE_TRACE_STMT as c_uint {
        unsafe {
            let c = &mut *(ctx as *mut RCount);
            let s = c.steps;
            c.bounds.push(s);
        }
    }
    0
}

unsafe extern "C" fn dyn_progress(ctx: *mut c_void) -> c_int {
    let f = unsafe { &mut *(ctx as *mut &mut dyn FnMut() -> bool) };
    if f() { 1 } else { 0 }
}

/// The snapshot read under test: WalletRead::get_wallet_summary (documented as one snapshot:
/// unchecked_transaction()).  (The pool-migration store's mined_height oracle filters its answer by the
/// fully-scanned height read in the same snapshot, so a torn read of it is not observable in its result.)
fn reader_call(kind: &str, conn: &Connection, s: &State) -> String {
    match kind {
        "summary" => summary(conn, s.net),
        _ => unreachable!(),
    }
}

fn run_reader_group(rn: &mut Runner, s: &State, op: &OpDef, kind: &str, quick: bool, rng: &mut ChaChaRng, only_k: Option<u64>) {
    rn.restore(s, false);
    let (Dump { dig, per: pre, inv }, _sum) = {
        let c = open(&rn.run_db);
        observe(&c, s.net)
    };
    // the second component of a content is here the value of the read under test
    let val0 = {
        let c = open(&rn.run_db);
        reader_call(kind, &c, s)
    };
    rn.sum_kind = kind.to_string();
    rn.out.emit(&json!({"a": "reset", "state": s.name, "op": format!("{}@{}", op.name, kind), "wal": s.wal, "dig": dig, "sum": val0, "inv": inv}));
    rn.exec(s, op, "ref", 0, false, false, &pre);
    // counting pass of the read alone
    rn.restore(s, true);
    let (m, bounds) = {
        let c = open(&rn.run_db);
        let mut rc = RCount { steps: 0, bounds: vec![] };
        unsafe {
            ffi::sqlite3_progress_handler(c.handle(), 1, Some(rcount_progress), &mut rc as *mut _ as *mut c_void);
            ffi::sqlite3_trace_v2(c.handle(), ffi::SQLITE_TRACE_STMT as c_uint, Some(rcount_trace), &mut rc as *mut _ as *mut c_void);
        }
        let _ = reader_call(kind, &c, s);
        unsafe {
            ffi::sqlite3_progress_handler(c.handle(), 0, None, std::ptr::null_mut());
            ffi::sqlite3_trace_v2(c.handle(), 0, None, std::ptr::null_mut());
        }
        (rc.steps, rc.bounds)
    };
    let mut set = BTreeSet::new();
    let mut b = bounds.clone();
    b.shuffle(rng);
    for k in b.into_iter().take(if quick { 8 } else { 400 }) {
        set.insert(k + 1);
        if k >= 1 {
            set.insert(k);
        }
    }
    for _ in 0..(if quick { 6 } else { 300 }) {
        if m > 0 {
            set.insert(rng.gen_range(1..=m));
        }
    }
    set.insert(1);
    set.insert(m);
    let js: Vec<u64> = match only_k {
        Some(k) => vec![k],
        None => set.into_iter().filter(|k| *k >= 1 && *k <= m).collect(),
    };
    for j in js {
        rn.restore(s, true);
        let reader = open(&rn.run_db);
        rn.out.emit(&json!({"a": "rbegin", "at": j}));
        let mut steps = 0u64;
        let mut wres: Option<String> = None;
        let val = {
            let mut cb = || -> bool {
                steps += 1;
                if steps == j {
                    let ex = rn.exec(s, op, "plain", 0, false, false, &pre);
                    wres = Some(ex.res);
                }
                false
            };
            let mut dynref: &mut dyn FnMut() -> bool = &mut cb;
            unsafe { ffi::sqlite3_progress_handler(reader.handle(), 1, Some(dyn_progress), &mut dynref as *mut _ as *mut c_void) };
            let v = reader_call(kind, &reader, s);
            unsafe { ffi::sqlite3_progress_handler(reader.handle(), 0, None, std::ptr::null_mut()) };
            v
        };
        rn.out.emit(&json!({"a": "rread", "kind": "summary", "val": val, "inv": inv_unknown()}));
        rn.out.emit(&json!({"a": "rend"}));
        drop(reader);
        rn.reader_interleavings += 1;
        if wres.as_deref().map(|r| r != "ok").unwrap_or(false) {
            // the writer was refused (the reader's lock): the same call again now that the reader is gone
            rn.exec(s, op, "retry", 0, false, false, &pre);
        }
    }
    rn.sum_kind = "summary".to_string();
}

fn run_group(rn: &mut Runner, s: &State, op: &OpDef, quick: bool, rng: &mut ChaChaRng, only_k: Option<u64>) {
    rn.restore(s, false);
    let (Dump { dig, per: pre, inv }, sum) = {
        let c = open(&rn.run_db);
        observe(&c, s.net)
    };
    rn.out.emit(&json!({"a": "reset", "state": s.name, "op": op.name, "wal": s.wal, "dig": dig, "sum": sum, "inv": inv}));
    // the uninterrupted run: defines the complete post-state, the number of VM steps, the statements
    let reference = rn.exec(s, op, "ref", 0, true, true, &pre);
    if std::env::var("C02_STMTS").is_ok() {
        for st in &reference.stmts {
            eprintln!("{:>7} {} {}", st.step, if st.write { "W" } else { "r" }, st.sql);
        }
        eprintln!("total steps {}", reference.steps);
    }
    // a second uninterrupted run must agree with it (determinism of the comparison itself)
    rn.restore(s, true);
    rn.exec(s, op, "plain", 0, false, false, &pre);
    let ks: Vec<u64> = match only_k {
        Some(k) => vec![k],
        None => positions(&reference, &op.name, quick, rng),
    };
    // quick: the failed call is repeated after every third (scans: fourth) faulted execution
    let retry_every = if !quick || only_k.is_some() { 1 } else if op.name.starts_with("scan") { 4 } else { 3 };
    for (i, k) in ks.iter().enumerate() {
        rn.restore(s, true);
        let crash = i % 4 == 0;
        let ex = rn.exec(s, op, "fault", *k, false, crash, &pre);
        if (ex.res != "ok" || reference.res != "ok") && i % retry_every == 0 {
            // the same call again on the same database, no fault
            rn.exec(s, op, "retry", 0, false, false, &pre);
        }
        let _ = (ex.rows_before_fault, ex.fired, ex.commits);
    }
}

fn main() {
    quiet_panics();
    let args: Vec<String> = std::env::args().collect();
    if args.len() < 4 {
        eprintln!("usage: c02_driver <out.ndjson> <workdir> <quick|thorough|self>");
        std::process::exit(2);
    }
    let seed = seed_from_env();
    let tier = args[3].as_str();
    let quick = tier != "thorough";
    let work = PathBuf::from(&args[2]);
    std::fs::create_dir_all(&work).expect("workdir");
    let only: Option<Vec<String>> = std::env::var("C02_ONLY").ok().filter(|s| !s.is_empty()).map(|s| s.split('/').map(|x| x.to_string()).collect());
    let mut out = NdjsonWriter::create(&args[1]);
    let t0 = std::time::Instant::now();

    // quick: the journal mode of each wallet rotates with the seed (seed 1: A rollback journal, B WAL, M rollback
    // journal); thorough: these fixed modes plus, below, each wallet in the other mode
    let (wa, wb, wm) = if quick { (seed % 2 == 0, seed % 2 == 1, (seed / 2) % 2 == 1) } else { (false, true, false) };
    let states = vec![
        build_state(&work, "A", seed.wrapping_mul(1000) + 1, false, wa, 30, 10, false, true, None),
        build_state(&work, "B", seed.wrapping_mul(1000) + 2, true, wb, 28, 12, false, true, None),
        build_state(&work, "M", seed.wrapping_mul(1000) + 3, true, wm, 20, 14, true, false, None),
        // a wallet whose Sapling (odd seeds: Orchard) tree refuses the birthday rewind of a new account half way
        build_state(&work, "R", seed.wrapping_mul(1000) + 4, seed % 3 == 0, (seed / 2) % 2 == 0, 24, 16, false, false, Some(if seed % 2 == 0 { Pool::Sapling } else { Pool::Orchard })),
    ];
    let mut states = states;
    if !quick {
        // the other journal mode of each wallet
        states.push(build_state(&work, "Aw", seed.wrapping_mul(1000) + 1, false, true, 30, 10, false, true, None));
        states.push(build_state(&work, "Br", seed.wrapping_mul(1000) + 2, true, false, 28, 12, false, true, None));
        states.push(build_state(&work, "Mw", seed.wrapping_mul(1000) + 3, true, true, 20, 14, true, false, None));
        // the other pool refusing, the other journal mode
        states.push(build_state(&work, "Ro", seed.wrapping_mul(1000) + 4, seed % 3 != 0, (seed / 2) % 2 != 0, 24, 16, false, false, Some(if seed % 2 == 0 { Pool::Orchard } else { Pool::Sapling })));
    }
    let shard: (usize, usize) = std::env::var("C02_SHARD").ok().and_then(|s| {
        let (a, b) = s.split_once('/')?;
        Some((a.parse().ok()?, b.parse().ok()?))
    }).unwrap_or((0, 1));
    let mut rn = Runner {
        out: &mut out,
        scratch: work.clone(),
        run_db: work.join("run.db"),
        execs: 0,
        nontrivial: BTreeSet::new(),
        faults_fired: 0,
        faults_with_pending_rows: 0,
        panics: 0,
        samples: vec![],
        crash_images: 0,
        err_after_commit: 0,
        fault_absorbed_ok: 0,
        reader_interleavings: 0,
        skipped_positions: 0,
        sum_kind: "summary".to_string(),
    };
    let mut groups = vec![];
    // static assignment of groups to shards, heaviest first (a scan costs ~40 ms of note-commitment hashing)
    let weight = |op: &str| -> u64 {
        match op {
            "scan3@summary" => 12,
            "truncate@summary" | "tip_up@summary" | "mig_terminal_superseded@summary" => 3,
            "mig_replace" | "mig_store_proved" | "mig_terminal_superseded" | "mig_terminal_cancelled" | "mig_terminal_failed" => 5,
            "scan12" => 50,
            "scan3" => 28,
            "scan1" => 20,
            "create_account" | "import_hd" | "import_ufvk" | "create_account_above" => 16,
            "create_account_refused" | "import_ufvk_refused" | "rewind_witness_refused" | "store_decrypted_unmined" | "store_decrypted_mined" | "store_to_be_sent" => 6,
            "delete_account" | "rewind_reset_birthday" | "truncate_chain_state" | "truncate" | "rewind" => 7,
            _ => 2,
        }
    };
    let mut all: Vec<(usize, String)> = vec![];
    let reader_ops = |s: &State| -> Vec<&'static str> {
        if s.refuses_rewind.is_some() { vec![] } else if s.has_migration { vec!["mig_terminal_superseded"] } else if s.wal { vec!["scan3", "truncate", "tip_up"] } else { vec!["scan3", "truncate"] }
    };
    // quick: operations other than scans / truncations / rewinds / locks / tip updates run on one of the
    // wallets A, B per run, chosen by the seed (every operation runs on at least one pre-state in every run)
    const ON_ALL: &[&str] = &["scan1", "scan3", "scan12", "truncate", "rewind", "lock3", "lock_fail", "tip_up", "subtree_roots_gap", "mig_replace"];
    let only_set = only.is_some();
    let rotated_out = |s: &State, opname: &str| -> bool {
        if !quick || only_set || s.has_migration || s.refuses_rewind.is_some() || ON_ALL.contains(&opname) {
            return false;
        }
        let h = blake2b_simd::Params::new().hash_length(8).hash(opname.as_bytes());
        let pick = (u64::from_le_bytes(h.as_bytes().try_into().unwrap()).wrapping_add(seed)) % 2;
        (s.name == "A") != (pick == 0)
    };
    for (si, s) in states.iter().enumerate() {
        for op in ops_for(s) {
            if !rotated_out(s, &op.name) {
                all.push((si, op.name.clone()));
            }
        }
        for o in reader_ops(s) {
            all.push((si, format!("{o}@summary")));
        }
    }
    all.sort_by_key(|(si, n)| (std::cmp::Reverse(weight(n)), *si, n.clone()));
    let mut load = vec![0u64; shard.1];
    let mut mine = BTreeSet::new();
    for (si, n) in &all {
        let k = (0..shard.1).min_by_key(|k| load[*k]).unwrap();
        load[k] += weight(n);
        if k == shard.0 {
            mine.insert((*si, n.clone()));
        }
    }
    for (si, s) in states.iter().enumerate() {
        let ops = ops_for(s);
        let mut jobs: Vec<(String, &OpDef, bool)> = ops.iter().map(|o| (o.name.clone(), o, false)).collect();
        for o in reader_ops(s) {
            if let Some(op) = ops.iter().find(|x| x.name == o) {
                jobs.push((format!("{o}@summary"), op, true));
            }
        }
        for (gname, op, reader) in jobs {
            if !mine.contains(&(si, gname.clone())) {
                continue;
            }
            let gh = blake2b_simd::Params::new().hash_length(8).hash(format!("{seed}/{}/{}", s.name, gname).as_bytes());
            let mut rng = ChaChaRng::seed_from_u64(u64::from_le_bytes(gh.as_bytes().try_into().unwrap()));
            if let Some(o) = &only {
                if o[0] != s.name || o.get(1).map(|n| *n != gname).unwrap_or(false) {
                    continue;
                }
            }
            if tier == "self" && !(s.name == "A" && (gname == "scan3" || gname == "lock_fail" || gname == "truncate@summary")) {
                continue;
            }
            let only_k = only.as_ref().and_then(|o| o.get(2)).and_then(|k| k.parse::<u64>().ok());
            let t = std::time::Instant::now();
            let before = rn.execs;
            if reader {
                run_reader_group(&mut rn, s, op, "summary", quick, &mut rng, only_k);
            } else {
                run_group(&mut rn, s, op, quick, &mut rng, only_k);
            }
            groups.push(json!({"state": s.name, "op": gname, "execs": rn.execs - before, "ms": t.elapsed().as_millis() as u64}));
        }
    }
    remove_db(&rn.run_db);
    let stats = json!({
        "executions": rn.execs, "faults_fired": rn.faults_fired, "faults_with_pending_rows": rn.faults_with_pending_rows,
        "distinct_nontrivial": rn.nontrivial.len(), "panics": rn.panics, "groups": groups, "samples": rn.samples,
        "crash_images": rn.crash_images, "err_after_commit": rn.err_after_commit, "fault_absorbed_ok": rn.fault_absorbed_ok,
        "reader_interleavings": rn.reader_interleavings, "skipped_positions": rn.skipped_positions,
        "wall_ms": t0.elapsed().as_millis() as u64,
        "times_us": TIMES.with(|m| m.borrow().iter().map(|(k, (n, us))| json!([k, n, *us as u64])).collect::<Vec<_>>()),
    });
    let n = out.finish();
    for s in &states {
        remove_db(&s.file);
    }
    println!("{}", serde_json::to_string(&json!({"events": n, "stats": stats})).unwrap());
    fn _t<T: WalletCommitmentTrees + OutputLockStore>() {}
}
