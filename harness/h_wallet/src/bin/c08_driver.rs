//! C08 code -> spec driver: the wallet histories of C01 (blocks, scans in any order, tip updates,
//! rewinds) interleaved with proposals under different confirmation policies, amounts, lock
//! requests and locked-input policies, direct lock / unlock / clear operations. Every proposal the
//! real wallet produces is logged with the ids of the notes it selects, its anchor and its
//! balance; the specification decides from the logged history whether each selected note was
//! eligible.
//!
//! usage: c08_driver <out.ndjson> <histories> <ops-per-history> [ironwood]
use std::convert::Infallible;

use h_wallet::chain::{Pool, TxReq};
use h_wallet::run::{Run, res_class};
use h_wallet::util::{NdjsonWriter, guarded, quiet_panics, seed_from_env};
use rand::{Rng, seq::SliceRandom};
use serde_json::{Value, json};
use zcash_client_backend::{
    data_api::{
        Account as _,
        locking::{LockOwner, LockRequest, LockedInputPolicy, OutputLockStore, unlock_proposal_inputs},
        testing::single_output_change_strategy,
        wallet::{
            ConfirmationsPolicy, SpendingKeys, create_proposed_transactions, propose_send_max_transfer, propose_transfer,
            input_selection::{GreedyInputSelector, NonEmptyBTreeSet, SpendPolicy},
        },
    },
    fees::StandardFeeRule,
    proposal::Proposal,
    wallet::{Note, OutputRef},
};
use zcash_client_backend::{data_api::WalletRead, wallet::OvkPolicy};
use zcash_client_sqlite::ReceivedNoteId;
use zcash_primitives::transaction::TxId;
use zcash_protocol::{PoolType, ShieldedPool, consensus::BlockHeight, value::Zatoshis};

type Prop = Proposal<StandardFeeRule, ReceivedNoteId>;

fn owner(i: usize) -> LockOwner {
    LockOwner::from(TxId::from_bytes([(i + 1) as u8; 32]))
}

struct D<'a> {
    r: Run<'a>,
    kept: Vec<(Prop, Option<usize>)>,
}

impl<'a> D<'a> {
    fn note_of(&self, txid: &TxId, pool: Pool, index: u32) -> i64 {
        let txid: [u8; 32] = *txid.as_ref();
        self.r
            .chain
            .tx_by_id
            .get(&txid)
            .and_then(|uid| self.r.chain.notes.iter().find(|(_, ni)| ni.tx == *uid && ni.pool == pool && ni.index == index))
            .map(|(n, _)| *n as i64)
            .unwrap_or(-1)
    }

    fn out_ref(&self, n: u32) -> OutputRef {
        let ni = &self.r.chain.notes[&n];
        let txid = self.r.chain.tx_by_id.iter().find(|(_, u)| **u == ni.tx).map(|(t, _)| *t).unwrap();
        let pool = match ni.pool {
            Pool::Sapling => ShieldedPool::Sapling,
            Pool::Orchard => ShieldedPool::Orchard,
            Pool::Ironwood => ShieldedPool::Ironwood,
        };
        OutputRef::new(TxId::from_bytes(txid), PoolType::Shielded(pool), ni.index)
    }

    /// the lock columns of the received-note tables, by harness note id
    fn locks(&self) -> Value {
        let conn = self.r.w.st.wallet().conn();
        let mut v = vec![];
        for pool in [Pool::Sapling, Pool::Orchard, Pool::Ironwood] {
            let p = pool.table();
            let idx = if pool == Pool::Sapling { "output_index" } else { "action_index" };
            let mut stmt = conn
                .prepare(&format!(
                    "SELECT t.txid, rn.{idx}, rn.lock_owner, rn.lock_expiry_height
                     FROM {p}_received_notes rn JOIN transactions t ON t.id_tx = rn.transaction_id
                     WHERE rn.lock_expiry_height IS NOT NULL OR rn.lock_owner IS NOT NULL"
                ))
                .unwrap();
            let rows: Vec<(Vec<u8>, u32, Option<Vec<u8>>, Option<u32>)> =
                stmt.query_map([], |r| Ok((r.get(0)?, r.get(1)?, r.get(2)?, r.get(3)?))).unwrap().map(|r| r.unwrap()).collect();
            for (txid, index, own, exp) in rows {
                let txid: [u8; 32] = txid.try_into().unwrap();
                let n = self.note_of(&TxId::from_bytes(txid), pool, index);
                let o = own.map(|b| if b == vec![1u8; 32] { 0 } else if b == vec![2u8; 32] { 1 } else { 9 }).unwrap_or(-1);
                v.push(json!([n, o, exp.map(|h| h as i64 - self.r.w.base as i64).unwrap_or(-1)]));
            }
        }
        v.sort_by_key(|x| x[0].as_i64().unwrap());
        let acct = self.r.w.st.test_account().unwrap().id();
        let mut api: Vec<i64> = self
            .r
            .w
            .st
            .wallet()
            .get_locked_outputs(acct)
            .unwrap_or_default() // ChainHeightUnknown before the first tip update
            .iter()
            .map(|o| {
                let pool = match o.pool() {
                    PoolType::Shielded(ShieldedPool::Sapling) => Pool::Sapling,
                    PoolType::Shielded(ShieldedPool::Orchard) => Pool::Orchard,
                    _ => Pool::Ironwood,
                };
                self.note_of(o.txid(), pool, o.output_index())
            })
            .collect();
        api.sort();
        json!({"rows": v, "api": api})
    }

    fn post(&mut self) -> Value {
        let mut p = self.r.post();
        p["locks"] = self.locks();
        p
    }

    fn describe(&self, p: &Prop) -> Value {
        let steps: Vec<Value> = p
            .steps()
            .iter()
            .map(|s| {
                let mut inputs = vec![];
                let mut in_total = 0u64;
                if let Some(si) = s.shielded_inputs() {
                    for rn in si.notes().iter() {
                        let (pool, v) = match rn.note() {
                            Note::Sapling(n) => (Pool::Sapling, n.value().inner()),
                            Note::Orchard { note, pool } => (if matches!(pool, orchard::ValuePool::Ironwood) { Pool::Ironwood } else { Pool::Orchard }, note.value().inner()),
                        };
                        in_total += v;
                        inputs.push(json!([self.note_of(rn.txid(), pool, rn.output_index() as u32), v]));
                    }
                }
                let pay: u64 = s.transaction_request().payments().values().map(|p| p.amount().map(u64::from).unwrap_or(0)).sum();
                json!({
                    "inputs": inputs,
                    "in_total": in_total,
                    "pay": pay,
                    "change": s.balance().proposed_change().iter().map(|c| u64::from(c.value())).collect::<Vec<_>>(),
                    "fee": u64::from(s.balance().fee_required()),
                    "anchor": s.anchor_height().map(|h| self.r.w.rel(u32::from(h))).unwrap_or(-1),
                    "tin": s.transparent_inputs().len(),
                    "prior": s.prior_step_inputs().len(),
                })
            })
            .collect();
        json!({"target": self.r.w.rel(u32::from(BlockHeight::from(p.min_target_height()))), "steps": steps})
    }

    fn propose(&mut self) {
        let rng = &mut self.r.rng;
        let (trusted, untrusted) = *[(1u32, 1u32), (1, 3), (3, 10), (10, 10)].choose(rng).unwrap();
        let to_pool = if rng.gen_bool(0.5) { Pool::Sapling } else { Pool::Orchard };
        // amounts relative to what the wallet currently reports: tiny, a fraction, nearly everything, too much
        let bal: u64 = {
            let p = self.r.w.project(&self.r.chain);
            ["S", "O", "I"].iter().map(|k| p["bal"][0][*k][0].as_u64().unwrap_or(0)).sum()
        };
        let rng = &mut self.r.rng;
        let amount: u64 = match rng.gen_range(0..8) {
            0 => 1_000,
            1 => 12_000,
            2 => bal / 4 + 1,
            3 => bal / 2 + 1,
            4 => bal.saturating_sub(10_000).max(1),
            5 => bal.saturating_sub(30_000).max(1),
            6 => bal + 1,
            _ => 60_000,
        };
        let lock: Option<(usize, u32)> = if rng.gen_bool(0.45) { Some((rng.gen_range(0..2), *[0u32, 1, 3, 20].choose(rng).unwrap())) } else { None };
        let lpol = rng.gen_range(0..5);
        let policy = match lpol {
            3 => LockedInputPolicy::PreferUnlocked(NonEmptyBTreeSet::singleton(owner(0))),
            4 => LockedInputPolicy::PreferLocked(NonEmptyBTreeSet::singleton(owner(0))),
            _ => LockedInputPolicy::Exclude,
        };
        let admitted: Vec<i64> = if lpol >= 3 { vec![0] } else { vec![] };
        let keep = rng.gen_bool(0.6);
        let to = {
            let f = &self.r.chain.foreign;
            match to_pool {
                Pool::Sapling => zcash_keys::address::Address::Sapling(f.sapling.default_address().1),
                _ => zcash_keys::address::Address::Unified(
                    zcash_keys::address::UnifiedAddress::from_receivers(Some(f.orchard.address_at(0u32, zip32::Scope::External)), None, None).unwrap(),
                ),
            }
        };
        let net = self.r.w.net;
        let acct = self.r.w.st.test_account().unwrap().id();
        let req = zip321::TransactionRequest::new(vec![zip321::Payment::without_memo(to.to_zcash_address(&net), Zatoshis::from_u64(amount).unwrap())]).unwrap();
        let st = &mut self.r.w.st;
        let res: Result<Result<Prop, String>, String> = guarded(move || {
            let selector = GreedyInputSelector::new();
            let change = single_output_change_strategy(StandardFeeRule::Zip317, None, ShieldedPool::Sapling);
            propose_transfer::<_, _, _, _, Infallible>(
                st.wallet_mut(),
                &net,
                acct,
                &selector,
                &change,
                req,
                #[cfg(not(feature = "transparent"))]
                ConfirmationsPolicy::new_unchecked(trusted, untrusted),
                #[cfg(feature = "transparent")]
                ConfirmationsPolicy::new_unchecked(trusted, untrusted, false),
                &SpendPolicy::default().with_locked_input_policy(policy),
                lock.map(|(o, k)| LockRequest::new(owner(o), k)),
                None,
            )
            .map_err(|e| format!("{e:?}"))
        });
        let (c, e) = res_class(&res);
        let class = if c == "err" {
            if e.contains("InsufficientFunds") { "insufficient" } else if e.contains("InputsLocked") { "inputs-locked" } else if e.contains("ScanRequired") || e.contains("SyncRequired") { "scan-required" } else { "other" }
        } else {
            c
        };
        let prop = match &res { Ok(Ok(p)) => self.describe(p), _ => Value::Null };
        let post = self.post();
        self.r.out.emit(&json!({
            "a": "propose", "max": "no", "res": class, "err": e, "amount": amount, "trusted": trusted, "untrusted": untrusted,
            "lock": lock.map(|(o, k)| json!([o as i64, k])).unwrap_or(json!([-1, 0])), "admitted": admitted,
            "prefer_locked": lpol == 4, "p": if prop.is_null() { json!({"target": -1, "steps": []}) } else { prop }, "post": post,
        }));
        self.r.aborted |= c == "panic";
        if let Ok(Ok(p)) = res {
            if keep {
                self.kept.push((p, lock.map(|(o, _)| o)));
                if self.kept.len() > 4 {
                    self.kept.remove(0);
                }
            }
        }
    }

    /// send-max proposals (both modes): the same eligibility and balance laws, no fixed amount
    fn propose_max(&mut self) {
        use zcash_client_backend::data_api::MaxSpendMode;
        let rng = &mut self.r.rng;
        let (trusted, untrusted) = *[(1u32, 1u32), (1, 3), (3, 10), (2, 5), (10, 10)].choose(rng).unwrap();
        let everything = rng.gen_bool(0.4);
        let lock: Option<(usize, u32)> = if rng.gen_bool(0.3) { Some((rng.gen_range(0..2), *[0u32, 2, 20].choose(rng).unwrap())) } else { None };
        let to = zcash_keys::address::Address::Sapling(self.r.chain.foreign.sapling.default_address().1);
        let net = self.r.w.net;
        let acct = self.r.w.st.test_account().unwrap().id();
        let zaddr = to.to_zcash_address(&net);
        let st = &mut self.r.w.st;
        let res: Result<Result<Prop, String>, String> = guarded(move || {
            propose_send_max_transfer::<_, _, _, Infallible>(
                st.wallet_mut(),
                &net,
                acct,
                &[ShieldedPool::Sapling, ShieldedPool::Orchard],
                &StandardFeeRule::Zip317,
                zaddr,
                None,
                if everything { MaxSpendMode::Everything } else { MaxSpendMode::MaxSpendable },
                #[cfg(not(feature = "transparent"))]
                ConfirmationsPolicy::new_unchecked(trusted, untrusted),
                #[cfg(feature = "transparent")]
                ConfirmationsPolicy::new_unchecked(trusted, untrusted, false),
                &LockedInputPolicy::Exclude,
                lock.map(|(o, k)| LockRequest::new(owner(o), k)),
            )
            .map_err(|e| format!("{e:?}"))
        });
        let (c, e) = res_class(&res);
        let class = if c == "err" {
            if e.contains("InsufficientFunds") { "insufficient" } else if e.contains("InputsLocked") { "inputs-locked" } else if e.contains("ScanRequired") || e.contains("SyncRequired") { "scan-required" } else { "refused" }
        } else {
            c
        };
        let prop = match &res { Ok(Ok(p)) => self.describe(p), _ => json!({"target": -1, "steps": []}) };
        let post = self.post();
        self.r.out.emit(&json!({
            "a": "propose", "max": if everything { "everything" } else { "spendable" }, "res": class, "err": e, "amount": -1,
            "trusted": trusted, "untrusted": untrusted, "lock": lock.map(|(o, k)| json!([o as i64, k])).unwrap_or(json!([-1, 0])),
            "admitted": Vec::<i64>::new(), "prefer_locked": false, "p": prop, "post": post,
        }));
        self.r.aborted |= c == "panic";
    }

    /// create (build, "prove", sign, store) the transaction of a proposal made earlier -- possibly stale by now
    fn create(&mut self) {
        if self.kept.is_empty() {
            self.propose();
        }
        if self.kept.is_empty() {
            return;
        }
        let i = self.r.rng.gen_range(0..self.kept.len());
        let (p, _) = self.kept.remove(i);
        if p.steps().len() != 1 {
            return;
        }
        let desc = self.describe(&p);
        let target_abs = u32::from(BlockHeight::from(p.min_target_height()));
        let anchor_abs = p.steps().first().anchor_height().map(u32::from).unwrap_or(self.r.chain.base);
        // expiry: the builder's default, as soon as possible, a little later, never
        let (expiry, expreq): (Option<BlockHeight>, i64) = match self.r.rng.gen_range(0..10) {
            0..=3 => (None, -1),
            4..=6 => (Some(BlockHeight::from(target_abs)), self.r.w.rel(target_abs)),
            7..=8 => (Some(BlockHeight::from(target_abs + 2)), self.r.w.rel(target_abs + 2)),
            _ => (Some(BlockHeight::from(0)), -100),
        };
        let usk = self.r.w.st.test_account().unwrap().usk().clone();
        let net = self.r.w.net;
        let st = &mut self.r.w.st;
        let res: Result<Result<Vec<TxId>, String>, String> = guarded(move || {
            create_proposed_transactions::<_, _, Infallible, _, Infallible, _>(
                st.wallet_mut(),
                &net,
                &sapling::prover::mock::MockSpendProver,
                &sapling::prover::mock::MockOutputProver,
                &SpendingKeys::from_unified_spending_key(usk),
                OvkPolicy::Sender,
                &p,
                expiry,
            )
            .map(|ids| ids.into_iter().collect())
            .map_err(|e| format!("{e:?}"))
        });
        let (c, e) = res_class(&res);
        let inputs: Vec<u32> = desc["steps"][0]["inputs"].as_array().unwrap().iter().map(|i| i[0].as_i64().unwrap().max(0) as u32).collect();
        let mut txs = vec![];
        if let Ok(Ok(ids)) = &res {
            for id in ids {
                let tx = self.r.w.st.wallet().get_transaction(*id).unwrap().expect("harness: created transaction not retrievable");
                let cr = self.r.chain.register_created(&tx, &inputs, anchor_abs);
                txs.push(json!({
                    "t": cr.abs.uid,
                    "exp": if cr.expiry == 0 { -100 } else { self.r.w.rel(cr.expiry) },
                    "outs": cr.abs.outs.iter().map(|o| json!({"n": o.note, "pool": o.pool.code(), "v": o.value, "acct": o.acct, "int": o.internal})).collect::<Vec<_>>(),
                    "spends": cr.abs.spends,
                    "nf_missing": cr.nf_missing, "nf_extra": cr.nf_extra,
                }));
                self.r.created.push(cr);
            }
        }
        let post = self.post();
        self.r.out.emit(&json!({
            "a": "create", "res": c, "err": e, "target": desc["target"], "expreq": expreq, "fee": desc["steps"][0]["fee"],
            "inputs": desc["steps"][0]["inputs"], "txs": txs, "post": post,
        }));
        self.r.aborted |= c == "panic";
    }

    fn unlock_kept(&mut self) {
        if self.kept.is_empty() {
            return;
        }
        let i = self.r.rng.gen_range(0..self.kept.len());
        let (p, o) = self.kept.remove(i);
        // unlock under the owner that locked it, or under the other one (which must release nothing)
        let by = if self.r.rng.gen_bool(0.7) { o.unwrap_or(0) } else { 1 - o.unwrap_or(0) };
        let notes: Vec<i64> = self.describe(&p)["steps"].as_array().unwrap().iter().flat_map(|s| s["inputs"].as_array().unwrap().iter().map(|i| i[0].as_i64().unwrap()).collect::<Vec<_>>()).collect();
        let st = &mut self.r.w.st;
        let res = guarded(move || unlock_proposal_inputs(st.wallet_mut(), &p, owner(by)).map_err(|e| format!("{e:?}")));
        let (c, e) = res_class(&res);
        let post = self.post();
        self.r.out.emit(&json!({"a": "unlock", "res": c, "err": e, "owner": by as i64, "notes": notes, "post": post}));
        self.r.aborted |= c == "panic";
    }

    fn clear(&mut self) {
        let acct = self.r.w.st.test_account().unwrap().id();
        let st = &mut self.r.w.st;
        let res = guarded(move || st.wallet_mut().clear_locked_outputs(acct).map_err(|e| format!("{e:?}")));
        let (c, e) = res_class(&res);
        let n = match &res { Ok(Ok(n)) => *n as i64, _ => -1 };
        let post = self.post();
        self.r.out.emit(&json!({"a": "clearlocks", "res": c, "err": e, "count": n, "post": post}));
        self.r.aborted |= c == "panic";
    }

    /// lock some wallet notes directly (all-or-nothing; a note actively locked by the other owner makes it fail)
    fn lock_direct(&mut self) {
        let known: Vec<u32> = self.r.post()["notes"].as_array().unwrap().iter().map(|n| n["n"].as_i64().unwrap()).filter(|n| *n > 0).map(|n| n as u32).collect();
        if known.is_empty() {
            return;
        }
        let k = self.r.rng.gen_range(1..=known.len().min(3));
        let picks: Vec<u32> = known.choose_multiple(&mut self.r.rng, k).copied().collect();
        let o = self.r.rng.gen_range(0..2usize);
        let tip = self.r.w.tip().unwrap_or(self.r.w.base);
        let exp = tip + *[0u32, 1, 2, 5, 30].choose(&mut self.r.rng).unwrap();
        let refs: Vec<OutputRef> = picks.iter().map(|n| self.out_ref(*n)).collect();
        let st = &mut self.r.w.st;
        let res = guarded(move || st.wallet_mut().lock_outputs(&refs, owner(o), BlockHeight::from(exp)).map_err(|e| format!("{e:?}")));
        let (c, e) = res_class(&res);
        let class = if c == "err" && e.contains("LockFailure") { "lock-failure" } else { c };
        let post = self.post();
        self.r.out.emit(&json!({"a": "lock", "res": class, "err": e, "owner": o as i64, "exp": self.r.w.rel(exp), "notes": picks, "post": post}));
        self.r.aborted |= c == "panic";
    }

    fn history(&mut self, ops: usize) {
        let mut last_from = self.r.chain.base + 1;
        for _ in 0..ops {
            if self.r.aborted {
                break;
            }
            let top = self.r.chain.top();
            let x = self.r.rng.gen_range(0..100);
            if x < 22 || top == self.r.chain.base {
                // receipts dominate: proposals need funds
                let mut taken = vec![];
                let mut remined = if !self.r.orphaned.is_empty() && self.r.rng.gen_bool(0.3) { vec![self.r.orphaned.remove(0)] } else { vec![] };
                // a transaction the wallet created gets mined (never together with a fabricated spend of the same notes)
                if self.r.rng.gen_bool(0.6) {
                    if let Some(c) = self.r.pick_created() {
                        taken.extend(c.abs.spends.iter().copied());
                        remined.push((c.abs.clone(), c.ctx.clone()));
                    }
                }
                let ntx = if self.r.rng.gen_bool(0.8) { 1 } else { 2 };
                let txs: Vec<TxReq> = (0..ntx).map(|_| self.r.random_tx(&mut taken)).collect();
                self.r.block(&txs, &remined, false);
            } else if x < 30 {
                let k = *[1u32, 2, 3, 9, 10, 11, 40].choose(&mut self.r.rng).unwrap();
                self.r.empties(k);
            } else if x < 38 {
                self.r.tip(top);
            } else if x < 58 {
                let from = if self.r.rng.gen_bool(0.7) {
                    let scanned = self.r.scanned();
                    (self.r.chain.base + 1..=top).find(|h| !scanned.contains(&self.r.w.rel(*h))).unwrap_or(self.r.rng.gen_range(self.r.chain.base + 1..=top))
                } else {
                    self.r.rng.gen_range(self.r.chain.base + 1..=top)
                };
                let limit = match self.r.rng.gen_range(0..10) { 0..=2 => 1, 3..=5 => self.r.rng.gen_range(2..5), _ => 250 };
                let last = (from + limit as u32 - 1).min(top);
                if self.r.w.tip().map(|t| t < last).unwrap_or(true) {
                    self.r.tip(top);
                }
                if self.r.scan(from, limit) {
                    last_from = last_from.max(from);
                }
            } else if x < 63 {
                // gentle rewinds only (the C06 taint would only hide proposals behind refused scans)
                let lo = last_from.saturating_sub(1).max(self.r.chain.base + 1).min(top);
                let req = self.r.rng.gen_range(lo..=top);
                let fork = self.r.rng.gen_bool(0.7);
                if let Some(to) = self.r.trunc(req, fork) {
                    last_from = last_from.min(to + 1);
                }
            } else if x < 83 {
                // most proposals are made by a wallet that is caught up (else little is spendable)
                if self.r.rng.gen_bool(0.65) {
                    self.r.tip(top);
                    loop {
                        let scanned = self.r.scanned();
                        let Some(from) = (self.r.chain.base + 1..=top).find(|h| !scanned.contains(&self.r.w.rel(*h))) else { break };
                        if !self.r.scan(from, 300) { break }
                    }
                }
                if self.r.rng.gen_bool(0.25) { self.propose_max() } else { self.propose() }
            } else if x < 91 {
                self.create();
            } else if x < 94 {
                self.unlock_kept();
            } else if x < 96 {
                self.clear();
            } else {
                self.lock_direct();
            }
        }
    }
}

fn main() {
    quiet_panics();
    let args: Vec<String> = std::env::args().collect();
    let mut out = NdjsonWriter::create(&args[1]);
    let histories: usize = args[2].parse().unwrap();
    let ops: usize = args[3].parse().unwrap();
    let ironwood = args.get(4).map(|s| s == "ironwood").unwrap_or(false);
    let seed = seed_from_env();
    for hist in 0..histories {
        let r = Run::new(&mut out, seed.wrapping_mul(1_000_003).wrapping_add(hist as u64), ironwood, json!(hist));
        let mut d = D { r, kept: vec![] };
        if hist % 2 == 1 {
            d.r.value_scale = 4;
        }
        d.history(ops);
    }
    let n = out.finish();
    println!("{}", json!({"events": n}));
}
