pub use h_core::util;
pub mod chain;
pub mod wallet;
pub mod run;
#[cfg(feature = "transparent")] pub mod coins;
