pub use h_core::util;
pub mod chain;
pub mod wallet;
pub mod run;
