//! The real SQLite wallet under test, its operations as the trace records them, and the
//! projection of its state onto what the Wallet specification talks about.
use rand_chacha::ChaChaRng;
use serde_json::{Value, json};
use zcash_client_backend::data_api::{
    Account as _, WalletRead, WalletWrite,
    chain::scan_cached_blocks,
    testing::{TestBuilder, TestState},
    wallet::ConfirmationsPolicy,
};
use zcash_client_sqlite::testing::{BlockCache, db::{TestDb, TestDbFactory}};
use zcash_primitives::block::BlockHash;
use zcash_protocol::{consensus::BlockHeight, local_consensus::LocalNetwork};

use crate::chain::{Chain, Keys, Pool, Source};
use crate::util::guarded;

pub type St = TestState<BlockCache, TestDb, LocalNetwork>;

pub struct W {
    pub st: St,
    pub net: LocalNetwork,
    /// height of the block before the wallet birthday
    pub base: u32,
}

pub fn network(ironwood: bool) -> LocalNetwork {
    let mut n = TestBuilder::DEFAULT_NETWORK;
    if ironwood {
        let h = n.sapling;
        n.nu6 = h;
        n.nu6_1 = h;
        n.nu6_2 = h;
        n.nu6_3 = h;
    }
    n
}

impl W {
    /// A fresh wallet with one account whose birthday is the Sapling activation height.
    pub fn new(ironwood: bool) -> (W, Vec<Keys>) {
        let net = network(ironwood);
        let st = TestBuilder::new()
            .with_network(net)
            .with_data_store_factory(TestDbFactory::default())
            .with_block_cache(BlockCache::new())
            .with_account_from_sapling_activation(BlockHash([0; 32]))
            .build();
        let base = u32::from(st.sapling_activation_height()) - 1;
        let ufvk = st.test_account().unwrap().account().ufvk().unwrap().clone();
        let keys = vec![Keys::from_ufvk(&ufvk)];
        (W { st, net, base }, keys)
    }

    pub fn rel(&self, h: u32) -> i64 {
        h as i64 - self.base as i64
    }

    /// `scan_cached_blocks(from, limit)` with the chain state of the harness chain at `from - 1`.
    pub fn scan(&mut self, chain: &Chain, from: u32, limit: usize) -> Result<Result<(), String>, String> {
        let state = chain.state_at(from - 1);
        let net = self.net;
        let st = &mut self.st;
        guarded(move || {
            scan_cached_blocks(&net, &Source(chain), st.wallet_mut(), BlockHeight::from(from), &state, limit)
                .map(|_| ())
                .map_err(|e| format!("{e:?}"))
        })
    }

    pub fn update_tip(&mut self, h: u32) -> Result<Result<(), String>, String> {
        let st = &mut self.st;
        guarded(move || st.wallet_mut().update_chain_tip(BlockHeight::from(h)).map_err(|e| format!("{e:?}")))
    }

    pub fn truncate(&mut self, h: u32) -> Result<Result<u32, String>, String> {
        let st = &mut self.st;
        guarded(move || {
            st.wallet_mut().truncate_to_height(BlockHeight::from(h)).map(u32::from).map_err(|e| format!("{e:?}"))
        })
    }

    pub fn tip(&self) -> Option<u32> {
        self.st.wallet().chain_height().unwrap().map(u32::from)
    }

    /// Projection of the wallet database and of the public balance API onto the abstract state.
    /// Heights are relative to `base`; notes and transactions are named by the ids the harness
    /// chain gave them (-1: a row the harness chain knows nothing about).
    pub fn project(&self, chain: &Chain) -> Value {
        let conn = self.st.wallet().conn();
        let rel = |h: Option<u32>| h.map(|h| h as i64 - self.base as i64).unwrap_or(-1);
        let blocks: Vec<i64> = conn
            .prepare("SELECT height FROM blocks ORDER BY height")
            .unwrap()
            .query_map([], |r| r.get::<_, u32>(0))
            .unwrap()
            .map(|h| rel(Some(h.unwrap())))
            .collect();
        let mut notes = vec![];
        for pool in [Pool::Sapling, Pool::Orchard, Pool::Ironwood] {
            let p = pool.table();
            let idx = if pool == Pool::Sapling { "output_index" } else { "action_index" };
            let mut stmt = conn
                .prepare(&format!(
                    "SELECT rn.id, t.txid, rn.{idx}, rn.value, t.mined_height, t.min_observed_height, rn.account_id
                     FROM {p}_received_notes rn JOIN transactions t ON t.id_tx = rn.transaction_id"
                ))
                .unwrap();
            let rows: Vec<(i64, Vec<u8>, u32, i64, Option<u32>, u32, i64)> = stmt
                .query_map([], |r| Ok((r.get(0)?, r.get(1)?, r.get(2)?, r.get(3)?, r.get(4)?, r.get(5)?, r.get(6)?)))
                .unwrap()
                .map(|r| r.unwrap())
                .collect();
            for (id, txid, index, value, mined, minobs, _acct) in rows {
                let txid: [u8; 32] = txid.try_into().unwrap();
                let note = chain.tx_by_id.get(&txid).and_then(|uid| {
                    chain.notes.iter().find(|(_, ni)| ni.tx == *uid && ni.pool == pool && ni.index == index).map(|(n, _)| *n as i64)
                });
                let mut sp = conn
                    .prepare(&format!(
                        "SELECT st.txid, st.mined_height, st.min_observed_height
                         FROM {p}_received_note_spends rns JOIN transactions st ON st.id_tx = rns.transaction_id
                         WHERE rns.{p}_received_note_id = ?1"
                    ))
                    .unwrap();
                let mut spenders: Vec<(i64, i64, i64)> = sp
                    .query_map([id], |r| Ok((r.get::<_, Vec<u8>>(0)?, r.get::<_, Option<u32>>(1)?, r.get::<_, u32>(2)?)))
                    .unwrap()
                    .map(|r| {
                        let (stxid, smined, sminobs) = r.unwrap();
                        let stxid: [u8; 32] = stxid.try_into().unwrap();
                        (chain.tx_by_id.get(&stxid).map(|u| *u as i64).unwrap_or(-1), rel(smined), rel(Some(sminobs)))
                    })
                    .collect();
                spenders.sort();
                notes.push(json!({
                    "n": note.unwrap_or(-1), "pool": pool.code(), "v": value,
                    "mined": rel(mined), "minobs": rel(Some(minobs)),
                    "sp": spenders.iter().map(|(t, m, o)| json!([t, m, o])).collect::<Vec<_>>(),
                }));
            }
        }
        notes.sort_by_key(|n| n["n"].as_i64().unwrap());
        let queue: Vec<Value> = conn
            .prepare("SELECT block_range_start, block_range_end, priority FROM scan_queue ORDER BY block_range_start")
            .unwrap()
            .query_map([], |r| Ok((r.get::<_, u32>(0)?, r.get::<_, u32>(1)?, r.get::<_, i64>(2)?)))
            .unwrap()
            .map(|r| {
                let (s, e, p) = r.unwrap();
                json!([rel(Some(s)), rel(Some(e)), p / 10])
            })
            .collect();
        let summary = self.st.wallet().get_wallet_summary(ConfirmationsPolicy::MIN).unwrap();
        let zero = json!({"S": [0, 0], "O": [0, 0], "I": [0, 0]});
        let bal = match &summary {
            None => None,
            Some(s) => {
                let acct = self.st.test_account().unwrap().id();
                match s.account_balances().get(&acct) {
                    None => None,
                    Some(b) => Some(json!({
                        "S": [u64::from(b.sapling_balance().total()), u64::from(b.sapling_balance().uneconomic_value())],
                        "O": [u64::from(b.orchard_balance().total()), u64::from(b.orchard_balance().uneconomic_value())],
                        "I": [u64::from(b.ironwood_balance().total()), u64::from(b.ironwood_balance().uneconomic_value())],
                    })),
                }
            }
        };
        json!({
            "chk": true,
            "balp": bal.is_some(),
            "tip": rel(self.tip()),
            "blocks": blocks,
            "notes": notes,
            "queue": queue,
            "bal": bal.unwrap_or(zero),
        })
    }
}

pub fn _unused(_: &mut ChaChaRng) {}
