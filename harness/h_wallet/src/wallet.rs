//! The real SQLite wallet under test, its operations as the trace records them, and the
//! projection of its state onto what the Wallet specification talks about.
use rand_chacha::ChaChaRng;
use serde_json::{Value, json};
use zcash_client_backend::data_api::{
    Account as _, WalletRead, WalletWrite,
    chain::scan_cached_blocks,
    testing::{TestBuilder, TestState},
    wallet::ConfirmationsPolicy,
};
use zcash_client_sqlite::testing::{BlockCache, db::{TestDb, TestDbFactory}};
use zcash_primitives::block::BlockHash;
use zcash_protocol::{consensus::BlockHeight, local_consensus::LocalNetwork};

use crate::chain::{Chain, Keys, Pool, Source};
use crate::util::guarded;

pub type St = TestState<BlockCache, TestDb, LocalNetwork>;

pub struct W {
    pub st: St,
    pub net: LocalNetwork,
    /// height of the block before the wallet birthday
    pub base: u32,
    /// the wallet's accounts in harness order (account 1 = the test account, account 2 = a second one
    /// under the same seed), by the `accounts.id` of their database row
    pub acct_rows: Vec<i64>,
    pub acct_ids: Vec<zcash_client_sqlite::AccountUuid>,
    /// the wallet birthday the harness configured (absolute height)
    pub birthday: u32,
    /// commitments in the Sapling / Orchard / Ironwood tree as of block `base`
    pub init_sizes: [u64; 3],
}

fn second_account(st: &mut St) -> (Vec<Keys>, Vec<i64>, Vec<zcash_client_sqlite::AccountUuid>) {
    let first = st.test_account().unwrap().id();
    let ufvk1 = st.test_account().unwrap().account().ufvk().unwrap().clone();
    let (second, usk2) = st.create_account_from_test_seed("second");
    let ufvk2 = usk2.to_unified_full_viewing_key();
    let rows: Vec<(i64, Vec<u8>)> = st
        .wallet()
        .conn()
        .prepare("SELECT id, uuid FROM accounts ORDER BY id")
        .unwrap()
        .query_map([], |r| Ok((r.get(0)?, r.get(1)?)))
        .unwrap()
        .map(|r| r.unwrap())
        .collect();
    let row_of = |u: &zcash_client_sqlite::AccountUuid| rows.iter().find(|(_, b)| b.as_slice() == u.expose_uuid().as_bytes()).map(|(i, _)| *i).unwrap();
    (vec![Keys::from_ufvk(&ufvk1), Keys::from_ufvk(&ufvk2)], vec![row_of(&first), row_of(&second)], vec![first, second])
}

pub fn network(ironwood: bool) -> LocalNetwork {
    let mut n = TestBuilder::DEFAULT_NETWORK;
    if ironwood {
        let h = n.sapling;
        n.nu6 = h;
        n.nu6_1 = h;
        n.nu6_2 = h;
        n.nu6_3 = h;
    }
    n
}

impl W {
    /// A fresh wallet with one account whose birthday is the Sapling activation height.
    pub fn new(ironwood: bool) -> (W, Vec<Keys>) {
        Self::with_retention(ironwood, None)
    }

    /// As `new`, with a custom anchor-retention interval (blocks) instead of the ZIP 318 default.
    pub fn with_retention(ironwood: bool, interval: Option<u32>) -> (W, Vec<Keys>) {
        let net = network(ironwood);
        let mut b = TestBuilder::new();
        if let Some(i) = interval {
            b = b.with_anchor_retention_interval(zcash_protocol::zip318::AnchorBucketInterval::custom(std::num::NonZeroU32::new(i).unwrap()));
        }
        let st = b
            .with_network(net)
            .with_data_store_factory(TestDbFactory::default())
            .with_block_cache(BlockCache::new())
            .with_account_from_sapling_activation(BlockHash([0; 32]))
            .build();
        let mut st = st;
        let base = u32::from(st.sapling_activation_height()) - 1;
        let (keys, acct_rows, acct_ids) = second_account(&mut st);
        (W { st, net, base, acct_rows, acct_ids, birthday: base + 1, init_sizes: [0; 3] }, keys)
    }

    /// A wallet born into a chain whose Sapling and Orchard trees already hold `sap`/`orch` commitments (the
    /// crates' own random-frontier helper; completed shards are known to the wallet by their roots), so that
    /// fabricated blocks cross shard boundaries. Returns the chain state at the block before the birthday.
    pub fn sharded(ironwood: bool, sap: u64, orch: u64) -> (W, Vec<Keys>, zcash_client_backend::data_api::chain::ChainState) {
        use incrementalmerkletree::frontier::Frontier;
        use std::num::NonZeroU8;
        use zcash_client_backend::data_api::{chain::{ChainState, CommitmentTreeRoot}, testing::InitialChainState};
        let net = network(ironwood);
        let st = TestBuilder::new()
            .with_network(net)
            .with_data_store_factory(TestDbFactory::default())
            .with_block_cache(BlockCache::new())
            .with_initial_chain_state(|rng, network| {
                use zcash_protocol::consensus::{NetworkUpgrade, Parameters};
                let a0 = network.activation_height(NetworkUpgrade::Sapling).unwrap();
                let (sroots, sfr) = Frontier::random_with_prior_subtree_roots(rng, sap, NonZeroU8::new(16).unwrap());
                let (oroots, ofr) = Frontier::random_with_prior_subtree_roots(rng, orch, NonZeroU8::new(16).unwrap());
                InitialChainState {
                    chain_state: ChainState::new(a0 + 49, BlockHash([7; 32]), sfr, ofr, Frontier::empty()),
                    prior_sapling_roots: sroots.into_iter().zip(1u32..).map(|(r, i)| CommitmentTreeRoot::from_parts(a0 + 5 * i, r)).collect(),
                    prior_orchard_roots: oroots.into_iter().zip(1u32..).map(|(r, i)| CommitmentTreeRoot::from_parts(a0 + 5 * i, r)).collect(),
                }
            })
            .with_account_having_current_birthday()
            .build();
        let mut st = st;
        let init = st.latest_cached_block().unwrap().chain_state().clone();
        let base = u32::from(init.block_height());
        let (keys, acct_rows, acct_ids) = second_account(&mut st);
        (W { st, net, base, acct_rows, acct_ids, birthday: base + 1, init_sizes: [sap, orch, 0] }, keys, init)
    }

    /// As `sharded`, for the scan-queue histories of C15: all three trees may be non-empty (`sizes`), the wallet
    /// is NOT told the roots of the shards completed before its first block (they are returned, to be supplied
    /// later through `put_root` at heights of the caller's choosing, as a server would), and with `early` the
    /// account's birthday is the Sapling activation height, `gap` blocks below the first fabricated block, so
    /// that shard boundaries can lie between the birthday and the blocks the harness chain serves.
    pub fn sharded_ext(ironwood: bool, sizes: [u64; 3], early: bool, gap: u32)
        -> (W, Vec<Keys>, zcash_client_backend::data_api::chain::ChainState, Vec<(Pool, u64, [u8; 32])>) {
        use incrementalmerkletree::frontier::Frontier;
        use std::num::NonZeroU8;
        use zcash_client_backend::data_api::{chain::ChainState, testing::InitialChainState};
        let net = network(ironwood);
        let priors = std::cell::RefCell::new(vec![]);
        let b = TestBuilder::new()
            .with_network(net)
            .with_data_store_factory(TestDbFactory::default())
            .with_block_cache(BlockCache::new())
            .with_initial_chain_state(|rng, network| {
                use zcash_protocol::consensus::{NetworkUpgrade, Parameters};
                let a0 = network.activation_height(NetworkUpgrade::Sapling).unwrap();
                let (sroots, sfr): (Vec<sapling::Node>, crate::chain::SapFrontier) = Frontier::random_with_prior_subtree_roots(rng, sizes[0], NonZeroU8::new(16).unwrap());
                let (oroots, ofr): (Vec<orchard::tree::MerkleHashOrchard>, crate::chain::OrchFrontier) = Frontier::random_with_prior_subtree_roots(rng, sizes[1], NonZeroU8::new(16).unwrap());
                let (iroots, ifr): (Vec<orchard::tree::MerkleHashOrchard>, crate::chain::OrchFrontier) = if ironwood && sizes[2] > 0 {
                    Frontier::random_with_prior_subtree_roots(rng, sizes[2], NonZeroU8::new(16).unwrap())
                } else {
                    (vec![], Frontier::empty())
                };
                let mut p = priors.borrow_mut();
                for (i, r) in sroots.iter().enumerate() { p.push((Pool::Sapling, i as u64, r.to_bytes())); }
                for (i, r) in oroots.iter().enumerate() { p.push((Pool::Orchard, i as u64, r.to_bytes())); }
                for (i, r) in iroots.iter().enumerate() { p.push((Pool::Ironwood, i as u64, r.to_bytes())); }
                InitialChainState {
                    chain_state: ChainState::new(a0 + gap - 1, BlockHash([7; 32]), sfr, ofr, ifr),
                    prior_sapling_roots: vec![],
                    prior_orchard_roots: vec![],
                }
            });
        let b = if early { b.with_account_from_sapling_activation(BlockHash([0; 32])) } else { b.with_account_having_current_birthday() };
        let mut st = b.build();
        let init = st.latest_cached_block().unwrap().chain_state().clone();
        let base = u32::from(init.block_height());
        let birthday = if early { u32::from(st.sapling_activation_height()) } else { base + 1 };
        let (keys, acct_rows, acct_ids) = second_account(&mut st);
        let isz = [sizes[0], sizes[1], if ironwood { sizes[2] } else { 0 }];
        (W { st, net, base, acct_rows, acct_ids, birthday, init_sizes: isz }, keys, init, priors.into_inner())
    }

    /// What the scan-queue specification (C15, WalletQueue.tla) needs to know about this wallet: its birthday, the
    /// activation heights the found-note extension falls back to for the first shard of each pool, and the initial
    /// tree sizes (heights relative to `base`).
    pub fn queue_config(&self) -> Value {
        use zcash_protocol::consensus::{NetworkUpgrade, Parameters};
        let mut act = vec![];
        for (code, nu) in [("S", NetworkUpgrade::Sapling), ("O", NetworkUpgrade::Nu5), ("I", NetworkUpgrade::Nu6_3)] {
            if let Some(h) = self.net.activation_height(nu) {
                act.push(json!([code, self.rel(u32::from(h))]));
            }
        }
        json!({"bday": self.rel(self.birthday), "act": act, "sizes": self.init_sizes})
    }

    /// put_{sapling,orchard,ironwood}_subtree_roots for one completed shard of the harness chain
    pub fn put_root(&mut self, pool: Pool, index: u64, root: [u8; 32], end_height: u32) -> Result<Result<(), String>, String> {
        use zcash_client_backend::data_api::{WalletCommitmentTrees, chain::CommitmentTreeRoot};
        let st = &mut self.st;
        guarded(move || match pool {
            Pool::Sapling => st
                .wallet_mut()
                .put_sapling_subtree_roots(index, &[CommitmentTreeRoot::from_parts(BlockHeight::from(end_height), sapling::Node::from_bytes(root).unwrap())])
                .map_err(|e| format!("{e:?}")),
            Pool::Orchard => st
                .wallet_mut()
                .put_orchard_subtree_roots(index, &[CommitmentTreeRoot::from_parts(BlockHeight::from(end_height), orchard::tree::MerkleHashOrchard::from_bytes(&root).unwrap())])
                .map_err(|e| format!("{e:?}")),
            Pool::Ironwood => st
                .wallet_mut()
                .put_ironwood_subtree_roots(index, &[CommitmentTreeRoot::from_parts(BlockHeight::from(end_height), orchard::tree::MerkleHashOrchard::from_bytes(&root).unwrap())])
                .map_err(|e| format!("{e:?}")),
        })
    }

    /// put_*_subtree_roots for consecutive shards starting at `start`, in one call: (root, end height) each
    pub fn put_roots_from(&mut self, pool: Pool, start: u64, roots: &[([u8; 32], u32)]) -> Result<Result<(), String>, String> {
        use zcash_client_backend::data_api::{WalletCommitmentTrees, chain::CommitmentTreeRoot};
        let st = &mut self.st;
        let roots = roots.to_vec();
        guarded(move || match pool {
            Pool::Sapling => st
                .wallet_mut()
                .put_sapling_subtree_roots(start, &roots.iter().map(|(r, h)| CommitmentTreeRoot::from_parts(BlockHeight::from(*h), sapling::Node::from_bytes(*r).unwrap())).collect::<Vec<_>>())
                .map_err(|e| format!("{e:?}")),
            Pool::Orchard => st
                .wallet_mut()
                .put_orchard_subtree_roots(start, &roots.iter().map(|(r, h)| CommitmentTreeRoot::from_parts(BlockHeight::from(*h), orchard::tree::MerkleHashOrchard::from_bytes(r).unwrap())).collect::<Vec<_>>())
                .map_err(|e| format!("{e:?}")),
            Pool::Ironwood => st
                .wallet_mut()
                .put_ironwood_subtree_roots(start, &roots.iter().map(|(r, h)| CommitmentTreeRoot::from_parts(BlockHeight::from(*h), orchard::tree::MerkleHashOrchard::from_bytes(r).unwrap())).collect::<Vec<_>>())
                .map_err(|e| format!("{e:?}")),
        })
    }

    pub fn rel(&self, h: u32) -> i64 {
        h as i64 - self.base as i64
    }

    /// `scan_cached_blocks(from, limit)` with the chain state of the harness chain at `from - 1`.
    pub fn scan(&mut self, chain: &Chain, from: u32, limit: usize) -> Result<Result<(), String>, String> {
        let state = chain.state_at(from - 1);
        let net = self.net;
        let st = &mut self.st;
        guarded(move || {
            scan_cached_blocks(&net, &Source(chain), st.wallet_mut(), BlockHeight::from(from), &state, limit)
                .map(|_| ())
                .map_err(|e| format!("{e:?}"))
        })
    }

    pub fn update_tip(&mut self, h: u32) -> Result<Result<(), String>, String> {
        let st = &mut self.st;
        guarded(move || st.wallet_mut().update_chain_tip(BlockHeight::from(h)).map_err(|e| format!("{e:?}")))
    }

    pub fn truncate(&mut self, h: u32) -> Result<Result<u32, String>, String> {
        let st = &mut self.st;
        guarded(move || {
            st.wallet_mut().truncate_to_height(BlockHeight::from(h)).map(u32::from).map_err(|e| format!("{e:?}"))
        })
    }

    /// `truncate_to_chain_state` with the harness chain's state as of block `h` (precise rewind)
    pub fn truncate_cs(&mut self, chain: &Chain, h: u32) -> Result<Result<u32, String>, String> {
        let state = chain.state_at(h);
        let st = &mut self.st;
        guarded(move || st.wallet_mut().truncate_to_chain_state(state).map(|_| h).map_err(|e| format!("{e:?}")))
    }

    /// `rewind_to_chain_state` with the harness chain's state as of block `target`, no birthday may be lowered
    pub fn rewind_cs(&mut self, chain: &Chain, target: u32) -> Result<Result<(), String>, String> {
        let state = chain.state_at(target);
        let st = &mut self.st;
        guarded(move || st.wallet_mut().rewind_to_chain_state(state, std::collections::HashSet::new()).map_err(|e| format!("{e:?}")))
    }

    pub fn tip(&self) -> Option<u32> {
        self.st.wallet().chain_height().unwrap().map(u32::from)
    }

    /// priority as the scan_queue table stores it (0 Ignored, 1 Scanned, 2 Historic, 3 OpenAdjacent, 4 FoundNote, 5 ChainTip, 6 Verify)
    fn prio(code: i64) -> zcash_client_backend::data_api::scanning::ScanPriority {
        use zcash_client_backend::data_api::scanning::ScanPriority::*;
        match code { 0 => Ignored, 1 => Scanned, 2 => Historic, 3 => OpenAdjacent, 4 => FoundNote, 5 => ChainTip, _ => Verify }
    }

    /// `prune_scan_queue_below(h, retain)`; `retain` < 0: None
    pub fn prune_queue(&mut self, h: u32, retain: i64) -> Result<Result<u64, String>, String> {
        let st = &mut self.st;
        let r = if retain < 0 { None } else { Some(Self::prio(retain)) };
        guarded(move || st.wallet_mut().prune_scan_queue_below(BlockHeight::from(h), r).map_err(|e| format!("{e:?}")))
    }

    /// `queue_rescans(ranges, priority)` (absolute heights, non-empty ranges)
    pub fn queue_rescans(&mut self, ranges: &[(u32, u32)], prio: i64) -> Result<Result<(), String>, String> {
        let st = &mut self.st;
        let rs: Vec<std::ops::Range<BlockHeight>> = ranges.iter().map(|(s, e)| BlockHeight::from(*s)..BlockHeight::from(*e)).collect();
        let p = Self::prio(prio);
        guarded(move || {
            let ne = nonempty::NonEmpty::from_vec(rs).expect("at least one range");
            st.wallet_mut().db_mut().queue_rescans(ne, p).map_err(|e| format!("{e:?}"))
        })
    }

    /// Projection of the wallet database and of the public balance API onto the abstract state.
    /// Heights are relative to `base`; notes and transactions are named by the ids the harness
    /// chain gave them (-1: a row the harness chain knows nothing about).
    pub fn project(&self, chain: &Chain) -> Value {
        let conn = self.st.wallet().conn();
        let rel = |h: Option<u32>| h.map(|h| h as i64 - self.base as i64).unwrap_or(-1);
        let blocks: Vec<i64> = conn
            .prepare("SELECT height FROM blocks ORDER BY height")
            .unwrap()
            .query_map([], |r| r.get::<_, u32>(0))
            .unwrap()
            .map(|h| rel(Some(h.unwrap())))
            .collect();
        let mut notes = vec![];
        for pool in [Pool::Sapling, Pool::Orchard, Pool::Ironwood] {
            let p = pool.table();
            let idx = if pool == Pool::Sapling { "output_index" } else { "action_index" };
            let mut stmt = conn
                .prepare(&format!(
                    "SELECT rn.id, t.txid, rn.{idx}, rn.value, t.mined_height, t.min_observed_height, rn.account_id, t.expiry_height
                     FROM {p}_received_notes rn JOIN transactions t ON t.id_tx = rn.transaction_id"
                ))
                .unwrap();
            let rows: Vec<(i64, Vec<u8>, u32, i64, Option<u32>, u32, i64, Option<u32>)> = stmt
                .query_map([], |r| Ok((r.get(0)?, r.get(1)?, r.get(2)?, r.get(3)?, r.get(4)?, r.get(5)?, r.get(6)?, r.get(7)?)))
                .unwrap()
                .map(|r| r.unwrap())
                .collect();
            // expiry as the specification names it: -1 unknown (NULL), -100 never (0), else relative height
            let rel_exp = |e: Option<u32>| match e { None => -1, Some(0) => -100, Some(h) => h as i64 - self.base as i64 };
            for (id, txid, index, value, mined, minobs, acct_row, exp) in rows {
                let txid: [u8; 32] = txid.try_into().unwrap();
                let note = chain.tx_by_id.get(&txid).and_then(|uid| {
                    chain.notes.iter().find(|(_, ni)| ni.tx == *uid && ni.pool == pool && ni.index == index).map(|(n, _)| *n as i64)
                });
                let mut sp = conn
                    .prepare(&format!(
                        "SELECT st.txid, st.mined_height, st.min_observed_height, st.expiry_height
                         FROM {p}_received_note_spends rns JOIN transactions st ON st.id_tx = rns.transaction_id
                         WHERE rns.{p}_received_note_id = ?1"
                    ))
                    .unwrap();
                let mut spenders: Vec<(i64, i64, i64, i64)> = sp
                    .query_map([id], |r| Ok((r.get::<_, Vec<u8>>(0)?, r.get::<_, Option<u32>>(1)?, r.get::<_, u32>(2)?, r.get::<_, Option<u32>>(3)?)))
                    .unwrap()
                    .map(|r| {
                        let (stxid, smined, sminobs, sexp) = r.unwrap();
                        let stxid: [u8; 32] = stxid.try_into().unwrap();
                        (chain.tx_by_id.get(&stxid).map(|u| *u as i64).unwrap_or(-1), rel(smined), rel(Some(sminobs)), rel_exp(sexp))
                    })
                    .collect();
                spenders.sort();
                notes.push(json!({
                    "n": note.unwrap_or(-1), "pool": pool.code(), "v": value,
                    "acct": self.acct_rows.iter().position(|r| *r == acct_row).map(|i| i as i64 + 1).unwrap_or(-1),
                    "mined": rel(mined), "minobs": rel(Some(minobs)), "exp": rel_exp(exp),
                    "sp": spenders.iter().map(|(t, m, o, e)| json!([t, m, o, e])).collect::<Vec<_>>(),
                }));
            }
        }
        notes.sort_by_key(|n| n["n"].as_i64().unwrap());
        let queue: Vec<Value> = conn
            .prepare("SELECT block_range_start, block_range_end, priority FROM scan_queue ORDER BY block_range_start")
            .unwrap()
            .query_map([], |r| Ok((r.get::<_, u32>(0)?, r.get::<_, u32>(1)?, r.get::<_, i64>(2)?)))
            .unwrap()
            .map(|r| {
                let (s, e, p) = r.unwrap();
                json!([rel(Some(s)), rel(Some(e)), p / 10])
            })
            .collect();
        // subtree (shard) end heights the wallet knows, per pool: [shard index, end height]
        let mut shards = serde_json::Map::new();
        for pool in [Pool::Sapling, Pool::Orchard, Pool::Ironwood] {
            let rows: Vec<Value> = conn
                .prepare(&format!("SELECT shard_index, subtree_end_height FROM {}_tree_shards WHERE subtree_end_height IS NOT NULL ORDER BY shard_index", pool.table()))
                .unwrap()
                .query_map([], |r| Ok((r.get::<_, u64>(0)?, r.get::<_, u32>(1)?)))
                .unwrap()
                .map(|r| {
                    let (i, h) = r.unwrap();
                    json!([i, rel(Some(h))])
                })
                .collect();
            shards.insert(pool.code().to_string(), Value::Array(rows));
        }
        let summary = self.st.wallet().get_wallet_summary(ConfirmationsPolicy::MIN).unwrap();
        let zero = json!({"S": [0, 0], "O": [0, 0], "I": [0, 0]});
        let bals: Vec<Option<Value>> = self
            .acct_ids
            .iter()
            .map(|acct| {
                summary.as_ref().and_then(|s| s.account_balances().get(acct)).map(|b| {
                    json!({
                        "S": [u64::from(b.sapling_balance().total()), u64::from(b.sapling_balance().uneconomic_value())],
                        "O": [u64::from(b.orchard_balance().total()), u64::from(b.orchard_balance().uneconomic_value())],
                        "I": [u64::from(b.ironwood_balance().total()), u64::from(b.ironwood_balance().uneconomic_value())],
                    })
                })
            })
            .collect();
        let bal = if bals.iter().all(|b| b.is_some()) { Some(json!([bals[0].clone().unwrap(), bals[1].clone().unwrap()])) } else { None };
        let zero = json!([zero.clone(), zero]);
        json!({
            "chk": true,
            "balp": bal.is_some(),
            "tip": rel(self.tip()),
            "blocks": blocks,
            "notes": notes,
            "queue": queue,
            "shards": Value::Object(shards),
            "bal": bal.unwrap_or(zero),
        })
    }
}

impl W {
    /// Projection of the note commitment trees (C06): per pool the checkpoint heights the wallet
    /// retains, and for each the verdict of comparing the root the wallet computes there with the
    /// true root of the harness chain ("ok", "wrong", "none" = not computable, "err", "nochain" =
    /// no block of the current chain at that height); for every mined, positioned note, the
    /// verdict of the Merkle path the wallet produces at up to three retained checkpoints at or
    /// above its height.
    pub fn project_trees(&mut self, chain: &Chain, salt: u64) -> Value {
        use incrementalmerkletree::Position;
        use shardtree::error::ShardTreeError;
        use zcash_client_backend::data_api::WalletCommitmentTrees;
        type E = ShardTreeError<zcash_client_sqlite::wallet::commitment_tree::Error>;
        let base = self.base;
        let mut out = serde_json::Map::new();
        for pool in [Pool::Sapling, Pool::Orchard, Pool::Ironwood] {
            let p = pool.table();
            let (cks, retained, notes): (Vec<u32>, Vec<u32>, Vec<(i64, u64, Option<u32>, [u8; 32])>) = {
                let conn = self.st.wallet().conn();
                let cks = conn
                    .prepare(&format!("SELECT checkpoint_id FROM {p}_tree_checkpoints ORDER BY checkpoint_id"))
                    .unwrap()
                    .query_map([], |r| r.get::<_, u32>(0))
                    .unwrap()
                    .map(|r| r.unwrap())
                    .collect();
                let retained = conn
                    .prepare(&format!("SELECT checkpoint_id FROM {p}_tree_retained_checkpoints ORDER BY checkpoint_id"))
                    .unwrap()
                    .query_map([], |r| r.get::<_, u32>(0))
                    .unwrap()
                    .map(|r| r.unwrap())
                    .collect();
                let idx = if pool == Pool::Sapling { "output_index" } else { "action_index" };
                let rows: Vec<(Vec<u8>, u32, Option<u64>, Option<u32>)> = conn
                    .prepare(&format!(
                        "SELECT t.txid, rn.{idx}, rn.commitment_tree_position, t.mined_height
                         FROM {p}_received_notes rn JOIN transactions t ON t.id_tx = rn.transaction_id
                         WHERE t.mined_height IS NOT NULL AND rn.commitment_tree_position IS NOT NULL"
                    ))
                    .unwrap()
                    .query_map([], |r| Ok((r.get(0)?, r.get(1)?, r.get(2)?, r.get(3)?)))
                    .unwrap()
                    .map(|r| r.unwrap())
                    .collect();
                let notes = rows
                    .into_iter()
                    .filter_map(|(txid, index, pos, mined)| {
                        let txid: [u8; 32] = txid.try_into().unwrap();
                        let uid = chain.tx_by_id.get(&txid)?;
                        let (n, ni) = chain.notes.iter().find(|(_, ni)| ni.tx == *uid && ni.pool == pool && ni.index == index)?;
                        Some((*n as i64, pos.unwrap(), mined, ni.cm))
                    })
                    .collect();
                (cks, retained, notes)
            };
            let mut roots = vec![];
            // all checkpoints while there are few; else the two oldest, the four newest and six picked by `salt`
            let sample: Vec<u32> = if cks.len() <= 12 {
                cks.clone()
            } else {
                let mut v: Vec<u32> = cks[..2].to_vec();
                let mut x = salt.wrapping_mul(6364136223846793005).wrapping_add(1442695040888963407);
                for _ in 0..6 {
                    x = x.wrapping_mul(6364136223846793005).wrapping_add(1442695040888963407);
                    v.push(cks[((x >> 33) as usize) % cks.len()]);
                }
                v.extend_from_slice(&cks[cks.len() - 4..]);
                v.sort();
                v.dedup();
                v
            };
            for h in &sample {
                let truth = chain.root_at(pool, *h);
                let bh = BlockHeight::from(*h);
                let got: Result<Result<Option<[u8; 32]>, String>, String> = {
                    let st = &mut self.st;
                    guarded(move || match pool {
                        Pool::Sapling => st.wallet_mut().with_sapling_tree_mut::<_, _, E>(|t| t.root_at_checkpoint_id(&bh)).map(|r| r.map(|n| n.to_bytes())).map_err(|e| format!("{e:?}")),
                        Pool::Orchard => st.wallet_mut().with_orchard_tree_mut::<_, _, E>(|t| t.root_at_checkpoint_id(&bh)).map(|r| r.map(|n| n.to_bytes())).map_err(|e| format!("{e:?}")),
                        Pool::Ironwood => st.wallet_mut().with_ironwood_tree_mut::<_, _, E>(|t| t.root_at_checkpoint_id(&bh)).map(|r| r.flatten().map(|n| n.to_bytes())).map_err(|e| format!("{e:?}")),
                    })
                };
                let verdict = match (got, truth) {
                    (Err(_), _) => "panic",
                    (Ok(Err(_)), _) => "err",
                    (Ok(Ok(None)), _) => "none",
                    (Ok(Ok(Some(_))), None) => "nochain",
                    (Ok(Ok(Some(r))), Some(t)) => if r == t { "ok" } else { "wrong" },
                };
                roots.push(json!([*h as i64 - base as i64, verdict]));
            }
            // witnesses: each mined, positioned note at the lowest, a middle and the highest checkpoint >= its height
            let mut wit = vec![];
            // at most eight notes per pool per projection (rotating with `salt`)
            let nn = notes.len();
            let chosen: Vec<&(i64, u64, Option<u32>, [u8; 32])> = if nn <= 8 { notes.iter().collect() } else { (0..8).map(|i| &notes[((salt as usize).wrapping_mul(7) + i * (nn / 8).max(1)) % nn]).collect() };
            for (n, pos, mined, cm) in chosen {
                let cands: Vec<u32> = cks.iter().copied().filter(|c| Some(*c) >= *mined).collect();
                let mut picks = vec![];
                if let Some(f) = cands.first() { picks.push(*f) }
                if cands.len() > 2 { picks.push(cands[cands.len() / 2]) }
                if cands.len() > 1 { picks.push(*cands.last().unwrap()) }
                // the position the wallet stored must be the note's true position on the chain
                let true_pos = chain.notes[&(*n as u32)].pos;
                for c in picks {
                    let bh = BlockHeight::from(c);
                    let position = Position::from(*pos);
                    let truth = chain.root_at(pool, c);
                    let cm = *cm;
                    let got: Result<Result<Option<[u8; 32]>, String>, String> = {
                        let st = &mut self.st;
                        guarded(move || match pool {
                            Pool::Sapling => st
                                .wallet_mut()
                                .with_sapling_tree_mut::<_, _, E>(|t| t.witness_at_checkpoint_id(position, &bh))
                                .map(|w| w.map(|path| {
                                    let leaf = sapling::Node::from_cmu(&sapling::note::ExtractedNoteCommitment::from_bytes(&cm).unwrap());
                                    path.root(leaf).to_bytes()
                                }))
                                .map_err(|e| format!("{e:?}")),
                            Pool::Orchard => st
                                .wallet_mut()
                                .with_orchard_tree_mut::<_, _, E>(|t| t.witness_at_checkpoint_id(position, &bh))
                                .map(|w| w.map(|path| {
                                    let leaf = orchard::tree::MerkleHashOrchard::from_cmx(&orchard::note::ExtractedNoteCommitment::from_bytes(&cm).unwrap());
                                    path.root(leaf).to_bytes()
                                }))
                                .map_err(|e| format!("{e:?}")),
                            Pool::Ironwood => st
                                .wallet_mut()
                                .with_ironwood_tree_mut::<_, _, E>(|t| t.witness_at_checkpoint_id(position, &bh))
                                .map(|w| w.flatten().map(|path| {
                                    let leaf = orchard::tree::MerkleHashOrchard::from_cmx(&orchard::note::ExtractedNoteCommitment::from_bytes(&cm).unwrap());
                                    path.root(leaf).to_bytes()
                                }))
                                .map_err(|e| format!("{e:?}")),
                        })
                    };
                    let verdict = match (got, truth) {
                        (Err(_), _) => "panic",
                        (Ok(Err(_)), _) => "err",
                        (Ok(Ok(None)), _) => "none",
                        (Ok(Ok(Some(_))), None) => "nochain",
                        (Ok(Ok(Some(r))), Some(t)) => if r == t { "ok" } else { "wrong" },
                    };
                    wit.push(json!([n, c as i64 - base as i64, verdict, if *pos == true_pos { "pos-ok" } else { "pos-wrong" }]));
                }
            }
            out.insert(
                pool.code().to_string(),
                json!({
                    "ck": cks.iter().map(|h| *h as i64 - base as i64).collect::<Vec<_>>(),
                    "ret": retained.iter().map(|h| *h as i64 - base as i64).collect::<Vec<_>>(),
                    "roots": roots,
                    "wit": wit,
                }),
            );
        }
        Value::Object(out)
    }
}

pub fn _unused(_: &mut ChaChaRng) {}
