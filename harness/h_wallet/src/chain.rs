//! A harness-owned block chain of fabricated compact blocks (real note encryption through the
//! crates' public `TestFvk` helpers), with its own per-pool note-commitment frontiers, served to
//! the wallet through its own `BlockSource`. The abstract content of every block (which notes it
//! creates for whom, which notes it spends) is kept next to the bytes: it is what the trace
//! records and what the specification reasons about.
use std::collections::BTreeMap;

use incrementalmerkletree::frontier::Frontier;
use orchard::tree::MerkleHashOrchard;
use rand::{Rng, RngCore};
use rand_chacha::ChaChaRng;
use zcash_client_backend::{
    data_api::{
        chain::{BlockSource, ChainState, error},
        testing::{AddressType, IronwoodFvk, TestFvk},
    },
    proto::compact_formats::{ChainMetadata, CompactBlock, CompactTx},
};
use zcash_keys::keys::UnifiedFullViewingKey;
use zcash_primitives::block::BlockHash;
use zcash_protocol::{
    consensus::{BlockHeight, Parameters},
    value::Zatoshis,
};

pub type SapFrontier = Frontier<sapling::Node, { sapling::NOTE_COMMITMENT_TREE_DEPTH }>;
pub type OrchFrontier = Frontier<MerkleHashOrchard, { orchard::NOTE_COMMITMENT_TREE_DEPTH as u8 }>;

#[derive(Clone, Copy, PartialEq, Eq, Debug, Hash, PartialOrd, Ord)]
pub enum Pool {
    Sapling,
    Orchard,
    Ironwood,
}
impl Pool {
    pub fn code(self) -> &'static str {
        match self {
            Pool::Sapling => "S",
            Pool::Orchard => "O",
            Pool::Ironwood => "I",
        }
    }
    pub fn table(self) -> &'static str {
        match self {
            Pool::Sapling => "sapling",
            Pool::Orchard => "orchard",
            Pool::Ironwood => "ironwood",
        }
    }
}

#[derive(Clone, Copy)]
pub enum Nf {
    Sapling(sapling::Nullifier),
    Orchard(orchard::note::Nullifier),
    Unknown,
}

/// An output of a fabricated transaction, as the specification sees it.
#[derive(Clone)]
pub struct AbsOut {
    /// note id (> 0) when addressed to a wallet account, 0 for foreign traffic
    pub note: u32,
    pub pool: Pool,
    pub value: u64,
    /// account number (1-based) for wallet notes, 0 for foreign
    pub acct: u32,
    pub internal: bool,
    /// index among the outputs/actions of its pool inside the transaction
    pub index: u32,
}

#[derive(Clone)]
pub struct AbsTx {
    pub uid: u32,
    pub txid: [u8; 32],
    pub outs: Vec<AbsOut>,
    /// spent note ids (0 = a nullifier that is not the wallet's)
    pub spends: Vec<u32>,
}

#[derive(Clone)]
pub struct Blk {
    pub height: u32,
    pub uid: u32,
    pub hash: [u8; 32],
    pub cb: CompactBlock,
    pub txs: Vec<AbsTx>,
    pub sap: SapFrontier,
    pub orch: OrchFrontier,
    pub iron: OrchFrontier,
    pub sizes: [u32; 3],
}

pub struct NoteInfo {
    /// note commitment (leaf of the pool's tree) and its position on the current chain
    pub cm: [u8; 32],
    pub pos: u64,
    pub pool: Pool,
    pub value: u64,
    pub acct: u32,
    pub nf: Nf,
    pub tx: u32,
    pub index: u32,
}

/// What a wallet account can receive with.
#[derive(Clone)]
pub struct Keys {
    pub sapling: sapling::zip32::DiversifiableFullViewingKey,
    pub orchard: orchard::keys::FullViewingKey,
}
impl Keys {
    pub fn from_ufvk(u: &UnifiedFullViewingKey) -> Self {
        Keys { sapling: u.sapling().unwrap().clone(), orchard: u.orchard().unwrap().clone() }
    }
    pub fn random(rng: &mut ChaChaRng) -> Self {
        let mut seed = [0u8; 32];
        rng.fill_bytes(&mut seed);
        let sk = sapling::zip32::ExtendedSpendingKey::master(&seed);
        let osk = loop {
            rng.fill_bytes(&mut seed);
            let s = orchard::keys::SpendingKey::from_bytes(seed);
            if s.is_some().into() {
                break s.unwrap();
            }
        };
        Keys { sapling: sk.to_diversifiable_full_viewing_key(), orchard: orchard::keys::FullViewingKey::from(&osk) }
    }
}

/// A request for one fabricated output.
#[derive(Clone)]
pub struct OutReq {
    pub pool: Pool,
    /// 0 = foreign, else 1-based account
    pub acct: u32,
    pub internal: bool,
    pub diversified: bool,
    pub value: u64,
}

#[derive(Clone)]
pub struct TxReq {
    pub outs: Vec<OutReq>,
    /// note ids to spend (must have a known nullifier), and the number of foreign nullifiers
    pub spends: Vec<u32>,
    pub foreign_spends: Vec<Pool>,
}

pub struct Chain {
    /// height of the block *before* the first fabricated one (the wallet birthday is base + 1)
    pub base: u32,
    pub blocks: BTreeMap<u32, Blk>,
    pub notes: BTreeMap<u32, NoteInfo>,
    pub tx_by_id: BTreeMap<[u8; 32], u32>,
    pub next_note: u32,
    pub next_tx: u32,
    pub next_blk: u32,
    pub accounts: Vec<Keys>,
    pub foreign: Keys,
    pub ironwood: bool,
    /// note commitment tree state as of block `base` (empty unless the wallet was born into a non-empty chain)
    pub init: (SapFrontier, OrchFrontier, OrchFrontier),
    pub init_hash: [u8; 32],
    /// shards (2^16 leaves) completed by fabricated blocks: (pool, shard index, level-16 root, height)
    pub shard_roots: Vec<(Pool, u64, [u8; 32], u32)>,
}

fn sap_node(cmu: &[u8]) -> sapling::Node {
    let arr: [u8; 32] = cmu.try_into().expect("cmu length");
    sapling::Node::from_cmu(&sapling::note::ExtractedNoteCommitment::from_bytes(&arr).unwrap())
}
fn orch_node(cmx: &[u8]) -> MerkleHashOrchard {
    let arr: [u8; 32] = cmx.try_into().expect("cmx length");
    MerkleHashOrchard::from_cmx(&orchard::note::ExtractedNoteCommitment::from_bytes(&arr).unwrap())
}

impl Chain {
    pub fn new(base: u32, accounts: Vec<Keys>, rng: &mut ChaChaRng, ironwood: bool) -> Self {
        Chain {
            base,
            blocks: BTreeMap::new(),
            notes: BTreeMap::new(),
            tx_by_id: BTreeMap::new(),
            next_note: 1,
            next_tx: 1,
            next_blk: 1,
            accounts,
            foreign: Keys::random(rng),
            ironwood,
            init: (SapFrontier::empty(), OrchFrontier::empty(), OrchFrontier::empty()),
            init_hash: [0u8; 32],
            shard_roots: vec![],
        }
    }

    /// A chain that continues from a given tree state at `base` (see `W::sharded`).
    pub fn with_initial(base: u32, accounts: Vec<Keys>, rng: &mut ChaChaRng, ironwood: bool, init: &ChainState) -> Self {
        let mut c = Chain::new(base, accounts, rng, ironwood);
        c.init = (init.final_sapling_tree().clone(), init.final_orchard_tree().clone(), init.final_ironwood_tree().clone());
        c.init_hash = init.block_hash().0;
        c
    }

    fn init_sizes(&self) -> [u32; 3] {
        [self.init.0.tree_size() as u32, self.init.1.tree_size() as u32, self.init.2.tree_size() as u32]
    }

    pub fn top(&self) -> u32 {
        self.blocks.keys().next_back().copied().unwrap_or(self.base)
    }

    pub fn hash_at(&self, h: u32) -> [u8; 32] {
        self.blocks.get(&h).map(|b| b.hash).unwrap_or(self.init_hash)
    }

    pub fn sizes_at(&self, h: u32) -> [u32; 3] {
        self.blocks.get(&h).map(|b| b.sizes).unwrap_or(self.init_sizes())
    }

    /// The chain state as of the end of block `h` (empty below the first fabricated block).
    pub fn state_at(&self, h: u32) -> ChainState {
        match self.blocks.get(&h) {
            Some(b) => ChainState::new(BlockHeight::from(h), BlockHash(b.hash), b.sap.clone(), b.orch.clone(), b.iron.clone()),
            None => ChainState::new(BlockHeight::from(h), BlockHash(self.init_hash), self.init.0.clone(), self.init.1.clone(), self.init.2.clone()),
        }
    }

    /// Drops every block above `h` (the environment's half of a reorg).
    pub fn truncate(&mut self, h: u32) {
        self.blocks.split_off(&(h + 1));
        self.shard_roots.retain(|r| r.3 <= h);
    }

    /// Notes created on the current chain whose nullifier the harness knows and that no block of
    /// the current chain spends.
    pub fn spendable(&self) -> Vec<u32> {
        let mut on_chain = std::collections::BTreeSet::new();
        let mut spent = std::collections::BTreeSet::new();
        for b in self.blocks.values() {
            for t in &b.txs {
                for o in &t.outs {
                    if o.note > 0 {
                        on_chain.insert(o.note);
                    }
                }
                for s in &t.spends {
                    spent.insert(*s);
                }
            }
        }
        on_chain
            .into_iter()
            .filter(|n| !spent.contains(n) && !matches!(self.notes[n].nf, Nf::Unknown))
            .collect()
    }

    /// Fabricates the next block from the given transaction requests and appends it.
    pub fn extend<P: Parameters>(&mut self, params: &P, txs: &[TxReq], rng: &mut ChaChaRng) -> u32 {
        self.extend_with(params, txs, &[], rng)
    }

    /// As `extend`, additionally re-including previously fabricated (orphaned) transactions
    /// verbatim (`remined`, by tx uid) after the new ones.
    pub fn extend_with<P: Parameters>(
        &mut self,
        params: &P,
        txs: &[TxReq],
        remined: &[(AbsTx, CompactTx)],
        rng: &mut ChaChaRng,
    ) -> u32 {
        let prev_h = self.top();
        let height = prev_h + 1;
        let prev_hash = self.hash_at(prev_h);
        let (mut sap, mut orch, mut iron, mut sizes) = match self.blocks.get(&prev_h) {
            Some(b) => (b.sap.clone(), b.orch.clone(), b.iron.clone(), b.sizes),
            None => (self.init.0.clone(), self.init.1.clone(), self.init.2.clone(), self.init_sizes()),
        };
        let bh = BlockHeight::from(height);
        let mut cb = CompactBlock { height: height as u64, ..Default::default() };
        let mut hash = [0u8; 32];
        rng.fill_bytes(&mut hash);
        cb.hash = hash.to_vec();
        cb.prev_hash = prev_hash.to_vec();
        let mut abs_txs = vec![];
        let mut new_shards: Vec<(Pool, u64, [u8; 32], u32)> = vec![];

        for req in txs {
            let mut ctx = CompactTx::default();
            let mut txid = [0u8; 32];
            rng.fill_bytes(&mut txid);
            ctx.txid = txid.to_vec();
            ctx.index = (cb.vtx.len() + 1) as u64;
            let uid = self.next_tx;
            self.next_tx += 1;
            let mut abs = AbsTx { uid, txid, outs: vec![], spends: vec![] };

            // spends first (as the crates' own helpers do)
            for n in &req.spends {
                match self.notes[n].nf {
                    Nf::Sapling(nf) => self.accounts[0].sapling.add_spend(&mut ctx, nf, rng),
                    Nf::Orchard(nf) => match self.notes[n].pool {
                        Pool::Ironwood => IronwoodFvk(self.accounts[0].orchard.clone()).add_spend(&mut ctx, nf, rng),
                        _ => self.accounts[0].orchard.add_spend(&mut ctx, nf, rng),
                    },
                    Nf::Unknown => panic!("harness: spending a note without a known nullifier"),
                }
                abs.spends.push(*n);
            }
            for p in &req.foreign_spends {
                match p {
                    Pool::Sapling => {
                        let mut nf = [0u8; 32];
                        rng.fill_bytes(&mut nf);
                        self.foreign.sapling.add_spend(&mut ctx, sapling::Nullifier(nf), rng);
                    }
                    Pool::Orchard | Pool::Ironwood => {
                        // a nullifier of a note the wallet does not own: that of a fresh foreign note
                        let mut scratch = CompactTx::default();
                        let nf = self.foreign.orchard.add_output(
                            &mut scratch, params, bh, None, AddressType::DefaultExternal,
                            Zatoshis::const_from_u64(1), 0, rng,
                        );
                        if *p == Pool::Ironwood {
                            IronwoodFvk(self.foreign.orchard.clone()).add_spend(&mut ctx, nf, rng);
                        } else {
                            self.foreign.orchard.add_spend(&mut ctx, nf, rng);
                        }
                    }
                }
                abs.spends.push(0);
            }
            for o in &req.outs {
                let keys = if o.acct == 0 { self.foreign.clone() } else { self.accounts[(o.acct - 1) as usize].clone() };
                let at = if o.internal {
                    AddressType::Internal
                } else if o.diversified {
                    AddressType::DiversifiedExternal(zip32::DiversifierIndex::from(rng.gen_range(1u32..50)))
                } else {
                    AddressType::DefaultExternal
                };
                let value = Zatoshis::from_u64(o.value).unwrap();
                let (index, nf) = match o.pool {
                    Pool::Sapling => {
                        let index = ctx.outputs.len() as u32;
                        // Sapling nullifiers depend on the position; the helper derives the
                        // nullifier with the external nk, so internal-scope ones stay unknown.
                        let nf = keys.sapling.add_output(&mut ctx, params, bh, None, at, value, sizes[0], rng);
                        (index, if o.internal { Nf::Unknown } else { Nf::Sapling(nf) })
                    }
                    Pool::Orchard => {
                        let index = ctx.actions.len() as u32;
                        let nf = keys.orchard.add_output(&mut ctx, params, bh, None, at, value, 0, rng);
                        (index, Nf::Orchard(nf))
                    }
                    Pool::Ironwood => {
                        let index = ctx.ironwood_actions.len() as u32;
                        let nf = IronwoodFvk(keys.orchard.clone()).add_output(&mut ctx, params, bh, None, at, value, 0, rng);
                        (index, Nf::Orchard(nf))
                    }
                };
                let note = if o.acct == 0 {
                    0
                } else {
                    let id = self.next_note;
                    self.next_note += 1;
                    let (cm, pos): ([u8; 32], u64) = match o.pool {
                        Pool::Sapling => (ctx.outputs[index as usize].cmu.clone().try_into().unwrap(), (sizes[0] + index) as u64),
                        Pool::Orchard => (ctx.actions[index as usize].cmx.clone().try_into().unwrap(), (sizes[1] + index) as u64),
                        Pool::Ironwood => (ctx.ironwood_actions[index as usize].cmx.clone().try_into().unwrap(), (sizes[2] + index) as u64),
                    };
                    self.notes.insert(id, NoteInfo { cm, pos, pool: o.pool, value: o.value, acct: o.acct, nf, tx: uid, index });
                    id
                };
                abs.outs.push(AbsOut { note, pool: o.pool, value: o.value, acct: o.acct, internal: o.internal, index });
            }
            // advance the tree sizes by this transaction's commitments (the Sapling helper needs
            // the size at the start of the transaction to derive positions)
            for out in &ctx.outputs {
                sap.append(sap_node(&out.cmu));
                sizes[0] += 1;
                if sizes[0] % 65536 == 0 {
                    let r = sap.value().unwrap().root(Some(incrementalmerkletree::Level::from(16))).to_bytes();
                    new_shards.push((Pool::Sapling, (sizes[0] / 65536 - 1) as u64, r, height));
                }
            }
            for act in &ctx.actions {
                orch.append(orch_node(&act.cmx));
                sizes[1] += 1;
                if sizes[1] % 65536 == 0 {
                    let r = orch.value().unwrap().root(Some(incrementalmerkletree::Level::from(16))).to_bytes();
                    new_shards.push((Pool::Orchard, (sizes[1] / 65536 - 1) as u64, r, height));
                }
            }
            for act in &ctx.ironwood_actions {
                iron.append(orch_node(&act.cmx));
                sizes[2] += 1;
                if sizes[2] % 65536 == 0 {
                    let r = iron.value().unwrap().root(Some(incrementalmerkletree::Level::from(16))).to_bytes();
                    new_shards.push((Pool::Ironwood, (sizes[2] / 65536 - 1) as u64, r, height));
                }
            }
            self.tx_by_id.insert(txid, uid);
            cb.vtx.push(ctx);
            abs_txs.push(abs);
        }
        for (abs, ctx) in remined {
            let mut ctx = ctx.clone();
            ctx.index = (cb.vtx.len() + 1) as u64;
            for o in &abs.outs {
                if o.note > 0 {
                    let base = match o.pool { Pool::Sapling => sizes[0], Pool::Orchard => sizes[1], Pool::Ironwood => sizes[2] };
                    self.notes.get_mut(&o.note).unwrap().pos = (base + o.index) as u64;
                }
            }
            for out in &ctx.outputs {
                sap.append(sap_node(&out.cmu));
                sizes[0] += 1;
                if sizes[0] % 65536 == 0 {
                    let r = sap.value().unwrap().root(Some(incrementalmerkletree::Level::from(16))).to_bytes();
                    new_shards.push((Pool::Sapling, (sizes[0] / 65536 - 1) as u64, r, height));
                }
            }
            for act in &ctx.actions {
                orch.append(orch_node(&act.cmx));
                sizes[1] += 1;
                if sizes[1] % 65536 == 0 {
                    let r = orch.value().unwrap().root(Some(incrementalmerkletree::Level::from(16))).to_bytes();
                    new_shards.push((Pool::Orchard, (sizes[1] / 65536 - 1) as u64, r, height));
                }
            }
            for act in &ctx.ironwood_actions {
                iron.append(orch_node(&act.cmx));
                sizes[2] += 1;
                if sizes[2] % 65536 == 0 {
                    let r = iron.value().unwrap().root(Some(incrementalmerkletree::Level::from(16))).to_bytes();
                    new_shards.push((Pool::Ironwood, (sizes[2] / 65536 - 1) as u64, r, height));
                }
            }
            // position-dependent Sapling nullifiers of re-mined notes: derived again at the new position from the note
            // recovered by trial decryption under the account's external key (internal-scope ones stay unknown)
            for o in &abs.outs {
                if o.note > 0 && o.pool == Pool::Sapling {
                    let pos = self.notes[&o.note].pos;
                    let nf = if o.internal || o.acct == 0 {
                        Nf::Unknown
                    } else {
                        let dfvk = &self.accounts[(o.acct - 1) as usize].sapling;
                        let ivk = sapling::keys::PreparedIncomingViewingKey::new(&dfvk.to_ivk(zip32::Scope::External));
                        sapling::note_encryption::CompactOutputDescription::try_from(&ctx.outputs[o.index as usize])
                            .ok()
                            .and_then(|cod| sapling::note_encryption::try_sapling_compact_note_decryption(&ivk, &cod, sapling::note_encryption::Zip212Enforcement::On))
                            .map(|(note, _)| Nf::Sapling(note.nf(&dfvk.fvk().vk.nk, pos)))
                            .unwrap_or(Nf::Unknown)
                    };
                    self.notes.get_mut(&o.note).unwrap().nf = nf;
                }
            }
            cb.vtx.push(ctx);
            abs_txs.push(abs.clone());
        }
        cb.chain_metadata = Some(ChainMetadata {
            sapling_commitment_tree_size: sizes[0],
            orchard_commitment_tree_size: sizes[1],
            ironwood_commitment_tree_size: sizes[2],
        });
        let uid = self.next_blk;
        self.next_blk += 1;
        self.blocks.insert(height, Blk { height, uid, hash, cb, txs: abs_txs, sap, orch, iron, sizes });
        self.shard_roots.extend(new_shards);
        height
    }
}

impl Chain {
    /// The true root of a pool's note commitment tree as of the end of block `h`.
    pub fn root_at(&self, pool: Pool, h: u32) -> Option<[u8; 32]> {
        use incrementalmerkletree::Hashable;
        let empty_s = || sapling::Node::empty_root(incrementalmerkletree::Level::from(sapling::NOTE_COMMITMENT_TREE_DEPTH)).to_bytes();
        let empty_o = || MerkleHashOrchard::empty_root(incrementalmerkletree::Level::from(orchard::NOTE_COMMITMENT_TREE_DEPTH as u8)).to_bytes();
        if h == self.base {
            let _ = (&empty_s, &empty_o);
            return Some(match pool {
                Pool::Sapling => self.init.0.root().to_bytes(),
                Pool::Orchard => self.init.1.root().to_bytes(),
                Pool::Ironwood => self.init.2.root().to_bytes(),
            });
        }
        self.blocks.get(&h).map(|b| match pool {
            Pool::Sapling => b.sap.root().to_bytes(),
            Pool::Orchard => b.orch.root().to_bytes(),
            Pool::Ironwood => b.iron.root().to_bytes(),
        })
    }
}

/// A transaction the wallet itself created (not yet in any block), in the harness chain's terms.
#[derive(Clone)]
pub struct Created {
    pub abs: AbsTx,
    pub ctx: CompactTx,
    /// expiry height as in the transaction (0: never)
    pub expiry: u32,
    /// the chain the transaction was built on: anchor height and the block hash there
    pub anchor: (u32, [u8; 32]),
    /// inputs with a nullifier the harness knows that do not occur in the transaction / nullifiers of other known notes that do
    pub nf_missing: u32,
    pub nf_extra: u32,
}

impl Chain {
    /// Takes a transaction built by the wallet into the harness chain's books (without mining it): trial-decrypts every
    /// shielded output with the keys of the wallet's accounts (both scopes) and of the foreign party, gives the wallet's
    /// outputs note ids, and cross-checks the revealed nullifiers against the proposal's inputs.
    pub fn register_created(&mut self, tx: &zcash_primitives::transaction::Transaction, inputs: &[u32], anchor_height: u32) -> Created {
        use sapling::note_encryption::{PreparedIncomingViewingKey as SapIvk, Zip212Enforcement, try_sapling_note_decryption};
        use zcash_note_encryption::try_note_decryption;
        use zip32::Scope;
        let txid: [u8; 32] = *tx.txid().as_ref();
        let uid = self.next_tx;
        self.next_tx += 1;
        self.tx_by_id.insert(txid, uid);
        let mut ctx = CompactTx { txid: txid.to_vec(), ..Default::default() };
        let mut abs = AbsTx { uid, txid, outs: vec![], spends: inputs.to_vec() };
        let mut revealed: Vec<Nf> = vec![];
        // (account number, internal scope, keys); account 0 is the foreign party
        let mut parties: Vec<(u32, bool, Keys)> = vec![];
        for (i, k) in self.accounts.iter().enumerate() {
            parties.push((i as u32 + 1, false, k.clone()));
            parties.push((i as u32 + 1, true, k.clone()));
        }
        parties.push((0, false, self.foreign.clone()));
        parties.push((0, true, self.foreign.clone()));
        let scope = |internal: bool| if internal { Scope::Internal } else { Scope::External };
        if let Some(b) = tx.sapling_bundle() {
            for sp in b.shielded_spends() {
                ctx.spends.push(sp.into());
                revealed.push(Nf::Sapling(*sp.nullifier()));
            }
            for (index, out) in b.shielded_outputs().iter().enumerate() {
                ctx.outputs.push(out.into());
                for (acct, internal, k) in &parties {
                    let ivk = SapIvk::new(&k.sapling.to_ivk(scope(*internal)));
                    if let Some((note, _, _)) = try_sapling_note_decryption(&ivk, out, Zip212Enforcement::GracePeriod) {
                        let value = note.value().inner();
                        let id = if *acct == 0 { 0 } else {
                            let id = self.next_note;
                            self.next_note += 1;
                            // the nullifier depends on the position, unknown until the transaction is mined
                            self.notes.insert(id, NoteInfo { cm: out.cmu().to_bytes(), pos: 0, pool: Pool::Sapling, value, acct: *acct, nf: Nf::Unknown, tx: uid, index: index as u32 });
                            id
                        };
                        abs.outs.push(AbsOut { note: id, pool: Pool::Sapling, value, acct: *acct, internal: *internal, index: index as u32 });
                        break;
                    }
                }
            }
        }
        let mut orchard_like = |this: &mut Chain, abs: &mut AbsTx, pool: Pool, actions: Vec<&orchard::Action<orchard::primitives::redpallas::Signature<orchard::primitives::redpallas::SpendAuth>>>, compact: &mut Vec<zcash_client_backend::proto::compact_formats::CompactOrchardAction>, revealed: &mut Vec<Nf>| {
            for (index, a) in actions.iter().enumerate() {
                compact.push((*a).into());
                revealed.push(Nf::Orchard(*a.nullifier()));
                for (acct, internal, k) in &parties {
                    let ivk = orchard::keys::PreparedIncomingViewingKey::new(&k.orchard.to_ivk(scope(*internal)));
                    let dec = if pool == Pool::Ironwood {
                        try_note_decryption(&orchard::note_encryption::IronwoodDomain::for_action(*a), &ivk, *a)
                    } else {
                        try_note_decryption(&orchard::note_encryption::OrchardDomain::for_action(*a), &ivk, *a)
                    };
                    if let Some((note, _, _)) = dec {
                        let value = note.value().inner();
                        // zero-valued dummy outputs to the sender's own internal address are padding, not notes the wallet keeps
                        let id = if *acct == 0 { 0 } else {
                            let id = this.next_note;
                            this.next_note += 1;
                            this.notes.insert(id, NoteInfo { cm: a.cmx().to_bytes(), pos: 0, pool, value, acct: *acct, nf: Nf::Orchard(note.nullifier(&k.orchard)), tx: uid, index: index as u32 });
                            id
                        };
                        abs.outs.push(AbsOut { note: id, pool, value, acct: *acct, internal: *internal, index: index as u32 });
                        break;
                    }
                }
            }
        };
        if let Some(b) = tx.orchard_bundle() {
            let acts: Vec<_> = b.actions().iter().collect();
            let mut compact = vec![];
            orchard_like(self, &mut abs, Pool::Orchard, acts, &mut compact, &mut revealed);
            ctx.actions = compact;
        }
        if let Some(b) = tx.ironwood_bundle() {
            let acts: Vec<_> = b.actions().iter().collect();
            let mut compact = vec![];
            orchard_like(self, &mut abs, Pool::Ironwood, acts, &mut compact, &mut revealed);
            ctx.ironwood_actions = compact;
        }
        let same = |a: &Nf, b: &Nf| match (a, b) {
            (Nf::Sapling(x), Nf::Sapling(y)) => x == y,
            (Nf::Orchard(x), Nf::Orchard(y)) => x == y,
            _ => false,
        };
        let mut nf_missing = 0;
        for n in inputs {
            let nf = self.notes[n].nf;
            if !matches!(nf, Nf::Unknown) && !revealed.iter().any(|r| same(r, &nf)) {
                nf_missing += 1;
            }
        }
        let nf_extra = self.notes.iter().filter(|(id, ni)| !inputs.contains(id) && revealed.iter().any(|r| same(r, &ni.nf))).count() as u32;
        Created { abs, ctx, expiry: u32::from(tx.expiry_height()), anchor: (anchor_height, self.hash_at(anchor_height)), nf_missing, nf_extra }
    }

    /// Notes created on the current chain that no block of the current chain spends (whether or not the harness knows
    /// their nullifier).
    pub fn unspent_on_chain(&self) -> std::collections::BTreeSet<u32> {
        let mut on_chain = std::collections::BTreeSet::new();
        let mut spent = std::collections::BTreeSet::new();
        for b in self.blocks.values() {
            for t in &b.txs {
                for o in &t.outs {
                    if o.note > 0 {
                        on_chain.insert(o.note);
                    }
                }
                for s in &t.spends {
                    spent.insert(*s);
                }
            }
        }
        on_chain.difference(&spent).copied().collect()
    }

    /// Could the created transaction be mined in the next block of the current chain?  Its inputs exist and are unspent
    /// there, its anchor block is still on the chain, and it has not expired.
    pub fn mineable(&self, c: &Created) -> bool {
        let next = self.top() + 1;
        let unspent = self.unspent_on_chain();
        c.abs.spends.iter().all(|n| unspent.contains(n))
            && self.hash_at(c.anchor.0) == c.anchor.1
            && c.anchor.0 <= self.top()
            && (c.expiry == 0 || next <= c.expiry)
    }
}

pub struct Source<'a>(pub &'a Chain);

impl BlockSource for Source<'_> {
    type Error = String;

    fn with_blocks<F, WalletErrT>(
        &self,
        from_height: Option<BlockHeight>,
        limit: Option<usize>,
        mut with_block: F,
    ) -> Result<(), error::Error<WalletErrT, Self::Error>>
    where
        F: FnMut(CompactBlock) -> Result<(), error::Error<WalletErrT, Self::Error>>,
    {
        let from = from_height.map(u32::from).unwrap_or(0);
        for (_, b) in self.0.blocks.range(from..).take(limit.unwrap_or(usize::MAX)) {
            with_block(b.cb.clone())?;
        }
        Ok(())
    }
}
