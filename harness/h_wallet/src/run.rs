//! One history against the real SQLite wallet: the harness chain, the wallet, the trace writer and
//! the operations of the Wallet specification (block arrival, scan, tip update, rewind, catch-up +
//! fresh-wallet comparison), each logged as one ndjson event with the projection of the wallet.
use rand::{Rng, SeedableRng, seq::SliceRandom};
use rand_chacha::ChaChaRng;
use serde_json::{Value, json};
use zcash_client_backend::proto::compact_formats::CompactTx;

use crate::chain::{AbsTx, Chain, OutReq, Pool, TxReq};
use crate::util::NdjsonWriter;
use crate::wallet::W;

pub fn res_class<T>(r: &Result<Result<T, String>, String>) -> (&'static str, String) {
    match r {
        Ok(Ok(_)) => ("ok", String::new()),
        Ok(Err(e)) => ("err", e.chars().take(300).collect()),
        Err(p) => ("panic", p.chars().take(300).collect()),
    }
}

pub struct Run<'a> {
    pub w: W,
    pub chain: Chain,
    pub out: &'a mut NdjsonWriter,
    pub rng: ChaChaRng,
    pub ironwood: bool,
    pub next_value: u64,
    pub aborted: bool,
    pub orphaned: Vec<(AbsTx, CompactTx)>,
    /// transactions the wallet created itself (C08 driver); mined later, or never
    pub created: Vec<crate::chain::Created>,
    /// multiplier for economic note values (the C08 driver makes some histories richer: more proposals succeed)
    pub value_scale: u64,
    /// also project the note commitment trees (C06) after every operation
    pub trees: bool,
    pub salt: u64,
    /// Some((sapling size, orchard size)): the wallet was born into a chain with these tree sizes
    pub shard: Option<(u64, u64)>,
    /// the environment of `sync_loop` only adds blocks (no rewinds)
    pub no_env_rewinds: bool,
}

impl<'a> Run<'a> {
    pub fn new(out: &'a mut NdjsonWriter, seed: u64, ironwood: bool, label: Value) -> Self {
        Self::with_retention(out, seed, ironwood, None, label)
    }

    pub fn with_retention(out: &'a mut NdjsonWriter, seed: u64, ironwood: bool, interval: Option<u32>, label: Value) -> Self {
        let mut rng = ChaChaRng::seed_from_u64(seed);
        let (w, keys) = W::with_retention(ironwood, interval);
        let chain = Chain::new(w.base, keys, &mut rng, ironwood);
        let trees = std::env::var("VERIF_TREES").map(|v| v == "1").unwrap_or(false);
        let mut r = Run { w, chain, out, rng, ironwood, next_value: 0, aborted: false, orphaned: vec![], created: vec![], value_scale: 1, trees, salt: seed, shard: None, no_env_rewinds: false };
        let post = r.post();
        // retention grid of this wallet: interval (0: policy inactive, NU6.3 not active) and first height it applies to
        let grid = if ironwood { interval.unwrap_or(144) } else { 0 };
        let gbase = r.w.base;   // heights are logged relative to `base`; absolute = base + rel
        let qc = r.w.queue_config();
        r.out.emit(&json!({"a": "reset", "hist": label, "ironwood": ironwood, "grid": grid, "gbase": gbase,
                           "bday": qc["bday"], "act": qc["act"], "sizes": qc["sizes"], "post": post}));
        r
    }

    /// A history whose wallet was born into a chain with non-empty trees just below shard boundaries.
    pub fn sharded(out: &'a mut NdjsonWriter, seed: u64, ironwood: bool, sap: u64, orch: u64, label: Value) -> Self {
        let mut rng = ChaChaRng::seed_from_u64(seed);
        let (w, keys, init) = W::sharded(ironwood, sap, orch);
        let chain = Chain::with_initial(w.base, keys, &mut rng, ironwood, &init);
        let trees = std::env::var("VERIF_TREES").map(|v| v == "1").unwrap_or(false);
        let mut r = Run { w, chain, out, rng, ironwood, next_value: 0, aborted: false, orphaned: vec![], created: vec![], value_scale: 1, trees, salt: seed, shard: Some((sap, orch)), no_env_rewinds: false };
        let post = r.post();
        let grid = if ironwood { 144 } else { 0 };
        let gbase = r.w.base;
        let qc = r.w.queue_config();
        r.out.emit(&json!({"a": "reset", "hist": label, "ironwood": ironwood, "grid": grid, "gbase": gbase,
                           "bday": qc["bday"], "act": qc["act"], "sizes": qc["sizes"], "post": post}));
        r
    }

    /// A history for the scan-queue specification (C15): see `W::sharded_ext`. Returns the roots of the shards
    /// completed before the first fabricated block; the caller decides when and with which end heights the
    /// wallet learns them (`put_prior`).
    pub fn sharded_ext(out: &'a mut NdjsonWriter, seed: u64, ironwood: bool, sizes: [u64; 3], early: bool, gap: u32, label: Value)
        -> (Self, Vec<(Pool, u64, [u8; 32])>) {
        let mut rng = ChaChaRng::seed_from_u64(seed);
        let (w, keys, init, priors) = W::sharded_ext(ironwood, sizes, early, gap);
        let chain = Chain::with_initial(w.base, keys, &mut rng, ironwood, &init);
        let trees = std::env::var("VERIF_TREES").map(|v| v == "1").unwrap_or(false);
        let mut r = Run { w, chain, out, rng, ironwood, next_value: 0, aborted: false, orphaned: vec![], created: vec![], value_scale: 1, trees, salt: seed, shard: None, no_env_rewinds: false };
        let post = r.post();
        let grid = if ironwood { 144 } else { 0 };
        let gbase = r.w.base;
        let qc = r.w.queue_config();
        r.out.emit(&json!({"a": "reset", "hist": label, "ironwood": ironwood, "grid": grid, "gbase": gbase,
                           "bday": qc["bday"], "act": qc["act"], "sizes": qc["sizes"], "post": post}));
        (r, priors)
    }

    /// put_*_subtree_roots for consecutive shards from `start` in ONE call (`roots`: root and absolute end height each);
    /// logged as one `roots` event per shard, the projection with the last
    pub fn put_priors(&mut self, pool: Pool, start: u64, roots: &[([u8; 32], u32)]) {
        if roots.is_empty() {
            return;
        }
        let res = self.w.put_roots_from(pool, start, roots);
        let (c, e) = res_class(&res);
        for (k, (_, h)) in roots.iter().enumerate() {
            let post = if k + 1 == roots.len() { self.post() } else { json!({"chk": false}) };
            self.out.emit(&json!({"a": "roots", "pool": pool.code(), "index": start + k as u64, "h": self.w.rel(*h), "res": c, "err": e, "post": post}));
        }
        self.aborted |= c == "panic";
    }

    /// tell the wallet the roots of the shards the harness chain has completed so far (as a server would)
    pub fn put_roots(&mut self) {
        let roots = self.chain.shard_roots.clone();
        for (pool, index, root, h) in roots {
            let res = self.w.put_root(pool, index, root, h);
            let (c, e) = res_class(&res);
            let post = self.post();
            self.out.emit(&json!({"a": "roots", "pool": pool.code(), "index": index, "h": self.w.rel(h), "res": c, "err": e, "post": post}));
            self.aborted |= c == "panic";
        }
    }

    pub fn post(&mut self) -> Value {
        let mut p = self.w.project(&self.chain);
        if self.trees {
            self.salt += 1;
            p["trees"] = self.w.project_trees(&self.chain, self.salt);
        }
        p
    }

    pub fn abs(&self, rel: u32) -> u32 {
        self.chain.base + rel
    }

    pub fn block_event(&self, h: u32) -> Value {
        let b = &self.chain.blocks[&h];
        let txs: Vec<Value> = b
            .txs
            .iter()
            .map(|t| {
                json!({
                    "t": t.uid,
                    // pos: the position of the wallet's note in its pool's commitment tree on this chain (-1: not the wallet's)
                    "outs": t.outs.iter().map(|o| json!({"n": o.note, "pool": o.pool.code(), "v": o.value, "acct": o.acct, "int": o.internal,
                        "pos": if o.note > 0 { self.chain.notes.get(&o.note).map(|n| n.pos as i64).unwrap_or(-1) } else { -1 }})).collect::<Vec<_>>(),
                    "spends": t.spends,
                })
            })
            .collect();
        // commitments this block adds to each pool's tree (Sapling, Orchard, Ironwood)
        let prev = self.chain.sizes_at(h - 1);
        let cm: Vec<u32> = (0..3).map(|i| b.sizes[i] - prev[i]).collect();
        json!({"a": "block", "h": self.w.rel(h), "b": b.uid, "txs": txs, "cm": cm})
    }

    pub fn block(&mut self, txs: &[TxReq], remined: &[(AbsTx, CompactTx)], check: bool) -> u32 {
        let h = self.chain.extend_with(&self.w.net, txs, remined, &mut self.rng);
        let mut ev = self.block_event(h);
        ev["post"] = if check { self.post() } else { json!({"chk": false}) };
        self.out.emit(&ev);
        h
    }

    pub fn empties(&mut self, k: u32) {
        for i in 0..k {
            self.block(&[], &[], i + 1 == k);
        }
    }

    /// one transaction paying the wallet; returns the note id
    pub fn recv(&mut self, pool: Pool, value: u64, internal: bool) -> u32 {
        let n = self.chain.next_note;
        self.block(&[TxReq { outs: vec![OutReq { pool, acct: 1, internal, diversified: false, value }], spends: vec![], foreign_spends: vec![] }], &[], true);
        n
    }

    /// one transaction spending `note`, with `change` back to the wallet (0: none)
    pub fn spend(&mut self, note: u32, change: u64, change_pool: Pool) {
        let total = self.chain.notes[&note].value;
        let mut outs = vec![OutReq { pool: change_pool, acct: 0, internal: false, diversified: false, value: total - change }];
        if change > 0 {
            outs.push(OutReq { pool: change_pool, acct: 1, internal: change_pool != Pool::Sapling, diversified: false, value: change });
        }
        self.block(&[TxReq { outs, spends: vec![note], foreign_spends: vec![] }], &[], true);
    }

    pub fn tip(&mut self, h: u32) {
        let res = self.w.update_tip(h);
        let (c, e) = res_class(&res);
        let post = self.post();
        self.out.emit(&json!({"a": "tip", "h": self.w.rel(h), "res": c, "err": e, "post": post}));
        self.aborted |= c == "panic";
    }

    /// prune_scan_queue_below(h, retain) (C15); `retain` < 0: nothing is retained
    pub fn prune(&mut self, h: u32, retain: i64) {
        let res = self.w.prune_queue(h, retain);
        let (c, e) = res_class(&res);
        let n = match &res { Ok(Ok(n)) => *n as i64, _ => -1 };
        let post = self.post();
        self.out.emit(&json!({"a": "prune", "h": self.w.rel(h), "retain": retain, "n": n, "res": c, "err": e, "post": post}));
        self.aborted |= c == "panic";
    }

    /// rewind_to_chain_state(target) on the unchanged chain (C15 queue histories)
    pub fn rewind(&mut self, target: u32) {
        let res = self.w.rewind_cs(&self.chain, target);
        let (c, e) = res_class(&res);
        let post = self.post();
        self.out.emit(&json!({"a": "rewind", "target": self.w.rel(target), "res": c, "err": e, "post": post}));
        self.aborted |= c == "panic";
    }

    /// queue_rescans(ranges, priority) (C15)
    pub fn rescan(&mut self, ranges: &[(u32, u32)], prio: i64) {
        let res = self.w.queue_rescans(ranges, prio);
        let (c, e) = res_class(&res);
        let post = self.post();
        let rel: Vec<[i64; 2]> = ranges.iter().map(|(s, e)| [self.w.rel(*s), self.w.rel(*e)]).collect();
        self.out.emit(&json!({"a": "rescan", "ranges": rel, "p": prio, "res": c, "err": e, "post": post}));
        self.aborted |= c == "panic";
    }

    /// the wallet's scan_queue rows as absolute (start, end, priority)
    pub fn queue_rows(&mut self) -> Vec<(u32, u32, i64)> {
        let p = self.w.project(&self.chain);
        let base = self.w.base as i64;
        p["queue"].as_array().map(|q| q.iter().map(|r| ((r[0].as_i64().unwrap() + base) as u32, (r[1].as_i64().unwrap() + base) as u32, r[2].as_i64().unwrap())).collect()).unwrap_or_default()
    }

    pub fn tip_top(&mut self) {
        self.tip(self.chain.top());
    }

    /// returns whether the scan succeeded
    pub fn scan(&mut self, from: u32, limit: usize) -> bool {
        let res = self.w.scan(&self.chain, from, limit);
        let (c, e) = res_class(&res);
        let post = self.post();
        self.out.emit(&json!({"a": "scan", "client": false, "from": self.w.rel(from), "n": limit, "res": c, "err": e, "post": post}));
        self.aborted |= c == "panic";
        // VERIF_SUGGEST=1 (C15): ask the wallet what it suggests after every scan of a random history
        if !self.aborted && std::env::var("VERIF_SUGGEST").map(|v| v == "1").unwrap_or(false) {
            self.suggest();
        }
        c == "ok"
    }

    /// rewind; `fork`: the chain above the height the wallet settled on is then replaced
    pub fn trunc(&mut self, req: u32, fork: bool) -> Option<u32> {
        self.trunc_with(req, fork, false)
    }

    /// `cs`: use truncate_to_chain_state (precise, the caller supplies the tree state) instead of truncate_to_height
    pub fn trunc_with(&mut self, req: u32, fork: bool, cs: bool) -> Option<u32> {
        let res = if cs { self.w.truncate_cs(&self.chain, req) } else { self.w.truncate(req) };
        let (c, e) = res_class(&res);
        let to_abs = match &res { Ok(Ok(h)) => Some(*h), _ => None };
        let fork = fork && to_abs.is_some();
        if fork {
            let to_abs = to_abs.unwrap();
            // remember pure-receipt transactions of the orphaned blocks: they may be mined again
            for (_, b) in self.chain.blocks.range(to_abs + 1..) {
                for (i, t) in b.txs.iter().enumerate() {
                    if t.spends.is_empty() && t.outs.iter().any(|o| o.note > 0) && self.orphaned.len() < 4 {
                        self.orphaned.push((t.clone(), b.cb.vtx[i].clone()));
                    }
                }
            }
            self.chain.truncate(to_abs);
        }
        let post = self.post();
        self.out.emit(&json!({"a": "trunc", "cs": cs, "req": self.w.rel(req), "res": c, "err": e,
                              "to": to_abs.map(|h| self.w.rel(h)).unwrap_or(-1), "fork": fork, "post": post}));
        self.aborted |= c == "panic";
        to_abs
    }

    /// A transaction the wallet created that could be mined in the next block (and is not on the chain already).
    pub fn pick_created(&mut self) -> Option<crate::chain::Created> {
        let on_chain: Vec<u32> = self.chain.blocks.values().flat_map(|b| b.txs.iter().map(|t| t.uid)).collect();
        let c: Vec<&crate::chain::Created> = self.created.iter().filter(|c| !on_chain.contains(&c.abs.uid) && self.chain.mineable(c)).collect();
        if c.is_empty() { None } else { Some(c[self.rng.gen_range(0..c.len())].clone()) }
    }

    pub fn scanned(&self) -> Vec<i64> {
        self.w.project(&self.chain)["blocks"].as_array().unwrap().iter().map(|v| v.as_i64().unwrap()).collect()
    }

    /// catch up completely, then compare with a fresh wallet that scans the chain once, in order
    pub fn catch_up_and_fresh(&mut self) {
        let top = self.chain.top();
        if top == self.chain.base {
            return;
        }
        self.tip(top);
        let mut ok = !self.aborted;
        while ok {
            let scanned = self.scanned();
            let Some(from) = (self.chain.base + 1..=top).find(|h| !scanned.contains(&self.w.rel(*h))) else { break };
            let run = (from..=top).take_while(|h| !scanned.contains(&self.w.rel(*h))).count();
            let limit = run.min(self.rng.gen_range(1..300));
            ok = self.scan(from, limit);
        }
        if ok {
            let mut fresh = match self.shard {
                Some((sap, orch)) => W::sharded(self.ironwood, sap, orch).0,
                None => W::new(self.ironwood).0,
            };
            let r1 = fresh.update_tip(top);
            let r2 = fresh.scan(&self.chain, self.chain.base + 1, (top - self.chain.base) as usize);
            if matches!(r1, Ok(Ok(_))) && matches!(r2, Ok(Ok(_))) {
                let p = fresh.project(&self.chain);
                self.out.emit(&json!({"a": "fresh", "notes": p["notes"], "bal": p["bal"], "balp": p["balp"], "blocks": p["blocks"]}));
            } else {
                self.out.emit(&json!({"a": "freshfail", "r1": format!("{r1:?}"), "r2": format!("{r2:?}")}));
            }
        }
    }

    // ---------------------------------------------------------------------------------------
    // the documented sync client (data_api/chain.rs module docs): learn the tip, then repeatedly take
    // the first suggested range and scan a chunk of it, until nothing is suggested

    pub fn suggest(&mut self) -> Vec<(u32, u32, i64)> {
        use zcash_client_backend::data_api::WalletRead;
        let ranges = self.w.st.wallet().suggest_scan_ranges().unwrap();
        let v: Vec<(u32, u32, i64)> = ranges
            .iter()
            .map(|r| {
                use zcash_client_backend::data_api::scanning::ScanPriority::*;
                let p = match r.priority() { Ignored => 0, Scanned => 1, Historic => 2, OpenAdjacent => 3, FoundNote => 4, ChainTip => 5, Verify => 6 };
                (u32::from(r.block_range().start), u32::from(r.block_range().end), p)
            })
            .collect();
        let post = self.post();
        let rel: Vec<Value> = v.iter().map(|(s, e, p)| json!([self.w.rel(*s), self.w.rel(*e), p])).collect();
        self.out.emit(&json!({"a": "suggest", "ranges": rel, "post": post}));
        v
    }

    /// Plays the client until it has nothing left to do; the environment interferes a bounded number of
    /// times (new blocks, rewinds with a different continuation). Emits a final `syncdone` event with
    /// the number of client scan steps taken.
    pub fn sync_loop(&mut self, mut env_budget: u32) {
        let mut steps = 0u32;
        let mut scanned_blocks = 0u64;
        self.tip_top();
        // generous bound: every client step must scan at least one unscanned block
        for _ in 0..20_000 {
            if self.aborted {
                return;
            }
            let ranges = self.suggest();
            let Some((s, e, _)) = ranges.first().copied() else { break };
            // a chunk from the start of the first suggested range
            let len = (e - s) as usize;
            let limit = match self.rng.gen_range(0..4) { 0 => 1, 1 => len.min(self.rng.gen_range(1..8)), 2 => len.min(40), _ => len };
            let top = self.chain.top();
            if s > top {
                break; // the wallet suggests blocks the chain does not have: reported by the trace spec (no progress)
            }
            if !self.scan_client(s, limit) {
                break;
            }
            steps += 1;
            scanned_blocks += limit as u64;
            if env_budget > 0 && self.rng.gen_bool(0.15) {
                env_budget -= 1;
                if self.no_env_rewinds || self.rng.gen_bool(0.6) {
                    let mut taken = vec![];
                    let txs: Vec<TxReq> = (0..self.rng.gen_range(0..2)).map(|_| self.random_tx(&mut taken)).collect();
                    self.block(&txs, &[], true);
                    let k = self.rng.gen_range(0..3);
                    self.empties(k);
                } else {
                    let top = self.chain.top();
                    let req = top.saturating_sub(self.rng.gen_range(0..4)).max(self.chain.base + 1);
                    if self.trunc(req, true).is_some() {
                        let mut taken = vec![];
                        let txs: Vec<TxReq> = vec![self.random_tx(&mut taken)];
                        self.block(&txs, &[], true);
                        self.empties(2);
                    }
                }
                self.tip_top();
            }
        }
        let post = self.post();
        self.out.emit(&json!({"a": "syncdone", "steps": steps, "blocks": scanned_blocks, "post": post}));
    }

    /// a scan made by the sync client (must make progress: see the trace specification)
    pub fn scan_client(&mut self, from: u32, limit: usize) -> bool {
        let res = self.w.scan(&self.chain, from, limit);
        let (c, e) = res_class(&res);
        let post = self.post();
        self.out.emit(&json!({"a": "scan", "client": true, "from": self.w.rel(from), "n": limit, "res": c, "err": e, "post": post}));
        self.aborted |= c == "panic";
        c == "ok"
    }

    // ---------------------------------------------------------------------------------------
    // random histories

    pub fn value(&mut self) -> u64 {
        // mostly economic, sometimes around the dust boundary (MARGINAL_FEE = 5000)
        self.next_value += 1;
        match self.rng.gen_range(0..10) {
            0 => 5000,
            1 => 5001,
            2 => 4999 - (self.next_value % 7),
            _ => self.value_scale * (10_000 + 1_000 * (self.next_value % 400)) + self.rng.gen_range(0..1000),
        }
    }

    pub fn pools(&self) -> Vec<Pool> {
        if self.ironwood { vec![Pool::Sapling, Pool::Orchard, Pool::Ironwood] } else { vec![Pool::Sapling, Pool::Orchard] }
    }

    pub fn random_tx(&mut self, taken: &mut Vec<u32>) -> TxReq {
        let pools = self.pools();
        let mut outs = vec![];
        let mut spends = vec![];
        let mut foreign_spends = vec![];
        let spendable: Vec<u32> = self.chain.spendable().into_iter().filter(|n| !taken.contains(n)).collect();
        let kind = self.rng.gen_range(0..10);
        if kind < 4 || spendable.is_empty() {
            for _ in 0..self.rng.gen_range(1..=2) {
                let pool = *pools.choose(&mut self.rng).unwrap();
                let foreign = self.rng.gen_bool(0.25);
                outs.push(OutReq {
                    pool,
                    acct: if foreign { 0 } else if self.rng.gen_bool(0.25) { 2 } else { 1 },
                    internal: !foreign && pool != Pool::Sapling && self.rng.gen_bool(0.3),
                    diversified: self.rng.gen_bool(0.3),
                    value: self.value(),
                });
            }
            if self.rng.gen_bool(0.2) {
                foreign_spends.push(*pools.choose(&mut self.rng).unwrap());
            }
        } else {
            let n = *spendable.choose(&mut self.rng).unwrap();
            spends.push(n);
            taken.push(n);
            let mut total = self.chain.notes[&n].value;
            if self.rng.gen_bool(0.2) {
                if let Some(m) = spendable.iter().find(|m| **m != n) {
                    spends.push(*m);
                    taken.push(*m);
                    total += self.chain.notes[m].value;
                }
            }
            let pool = *pools.choose(&mut self.rng).unwrap();
            match self.rng.gen_range(0..3) {
                0 => outs.push(OutReq { pool, acct: 0, internal: false, diversified: false, value: total }),
                1 => {
                    let pay = (total / 3 + 1).min(total);
                    outs.push(OutReq { pool, acct: 0, internal: false, diversified: false, value: pay });
                    if total > pay {
                        outs.push(OutReq { pool, acct: 1, internal: pool != Pool::Sapling, diversified: false, value: total - pay });
                    }
                }
                _ => outs.push(OutReq { pool, acct: 1, internal: false, diversified: false, value: total.saturating_sub(1000).max(1) }),
            }
        }
        TxReq { outs, spends, foreign_spends }
    }

    pub fn random_history(&mut self, ops: usize) {
        let long_gaps = self.rng.gen_bool(0.35);
        // some histories only rewind to the start of the most recent scan batch or above (no C06 taint)
        let gentle_rewinds = self.rng.gen_bool(0.5);
        let mut last_from = self.chain.base + 1;
        for op_i in 0..=ops {
            if self.aborted {
                break;
            }
            let top = self.chain.top();
            if top > self.chain.base && (op_i == ops || self.rng.gen_range(0..100) < 3) {
                self.catch_up_and_fresh();
                if op_i == ops {
                    break;
                }
                continue;
            }
            let r = self.rng.gen_range(0..100);
            if r < 30 || top == self.chain.base {
                let ntx = match self.rng.gen_range(0..10) { 0..=1 => 0, 2..=7 => 1, _ => 2 };
                let mut taken = vec![];
                let txs: Vec<TxReq> = (0..ntx).map(|_| self.random_tx(&mut taken)).collect();
                let remined = if !self.orphaned.is_empty() && self.rng.gen_bool(0.3) { vec![self.orphaned.remove(0)] } else { vec![] };
                self.block(&txs, &remined, true);
            } else if r < 38 {
                let k = if long_gaps { *[3u32, 39, 40, 41, 99, 100, 101].choose(&mut self.rng).unwrap() } else { self.rng.gen_range(1..6) };
                self.empties(k);
            } else if r < 48 {
                let h = if self.rng.gen_bool(0.7) { top } else { self.rng.gen_range(self.chain.base + 1..=top) };
                self.tip(h);
            } else if r < 88 {
                let from = if self.rng.gen_bool(0.5) {
                    let scanned = self.scanned();
                    (self.chain.base + 1..=top).find(|h| !scanned.contains(&self.w.rel(*h))).unwrap_or(self.rng.gen_range(self.chain.base + 1..=top))
                } else {
                    self.rng.gen_range(self.chain.base + 1..=top)
                };
                let limit = match self.rng.gen_range(0..10) { 0..=3 => 1, 4..=6 => self.rng.gen_range(2..5), 7..=8 => self.rng.gen_range(5..30), _ => 250 };
                // documented client protocol: the wallet learns the tip before scanning above it
                let last = (from + limit as u32 - 1).min(top);
                if self.w.tip().map(|t| t < last).unwrap_or(true) {
                    self.tip(top);
                }
                if self.scan(from, limit) {
                    last_from = last_from.max(from);
                }
            } else {
                let req = if gentle_rewinds {
                    let lo = last_from.saturating_sub(1).max(self.chain.base + 1).min(top);
                    self.rng.gen_range(lo..=top)
                } else if self.rng.gen_bool(0.6) {
                    top.saturating_sub(self.rng.gen_range(0..6)).max(self.chain.base + 1)
                } else {
                    self.rng.gen_range(self.chain.base + 1..=top)
                };
                let fork = self.rng.gen_bool(0.7);
                let cs = self.rng.gen_bool(0.2);
                if let Some(to) = self.trunc_with(req, fork, cs) {
                    last_from = last_from.min(to + 1);
                }
            }
        }
    }
}

