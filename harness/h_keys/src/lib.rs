pub use h_core::util;
